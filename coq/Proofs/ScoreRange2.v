(* Score ranges, part 2: every value the search returns, every window bound it passes down and every
   score it caches lies in [LO, HI] = [SCORE_MIN + MATE_OFFSET_NODE, its negation] on games of
   bounded material; hence the root always finds a move when there is one (C06 none-iff-dead, C07).

   The argument mirrors what the code relies on (i16 scores, SCORE_MIN never negated):
   - stand-pat values are within [-BOUND, BOUND] (ScoreRange1), mate values are
     SCORE_MIN + offset + ply with offset in {100, 2000, 3000};
   - a window (a, b) is "sane" when a <= HI and LO <= b; the root only opens sane windows, a node
     called with a sane window only opens sane windows (the first move is always searched with the
     full window, so by the time a null window -a-1 is formed a is already a real score), and every
     result under a sane window is in [LO, HI];
   - so the first move searched at a node scores above SCORE_MIN (at the root: above SCORE_MIN + 1),
     a best move is recorded, and every stored entry carries a move and a score in range.

   The table invariant [RangeTable] is preserved by EVERY search of a game of bounded material: a root
   without legal moves records no best move and (since the repair recorded at the end of this file)
   caches nothing.  Before that repair such a root cached (SCORE_MIN + 1, no move, Exact), which broke the
   invariant and made a later search announce no move in a position with four legal moves; the
   scenario is kept at the end of this file, replayed on the repaired model. *)
From Coq Require Import Lia FSets.FMapPositive.
From Chess Require Import Model.Search Proofs.Grid Proofs.Inv Proofs.Abs Proofs.GenOk Proofs.PushPop Proofs.PushPop2
  Proofs.Reach Proofs.Bounds Proofs.BoundsQ Proofs.BoundsInst Proofs.SearchInv1 Proofs.SearchInv2 Proofs.Top
  Proofs.ScoreRange1.
Open Scope Z_scope.

(* ---- ranges ------------------------------------------------------------------------------------------ *)

Definition LO : Z := SCORE_MIN + MATE_OFFSET_NODE.
Definition HI : Z := - LO.

Definition InR (s : Z) : Prop := LO <= s <= HI.
Definition Win (a b : Z) : Prop := a <= HI /\ LO <= b.

Definition GB (g : game) : Prop := Good g /\ Bounded g.

Ltac rng :=
  unfold InR, Win, HI, LO, SCORE_MIN, SCORE_MAX, MATE_OFFSET_NODE, MATE_OFFSET_DEPTH1,
    MATE_OFFSET_QUIESCENCE, BOUND in *; lia.

Lemma LO_HI_values : LO = -32668 /\ HI = 32668.
Proof. split; reflexivity. Qed.

Lemma InR_below_max s : InR s -> SCORE_MIN + 1 < s < SCORE_MAX.
Proof. intros H. rng. Qed.

Lemma GB_push_pseudo g m : GB g -> In m (pseudo_moves g) -> GB (push g m).
Proof.
  intros [Hg Hb] Hin. split; [now apply good_push|].
  apply bounded_push_pseudo; try assumption. exact (proj1 Hg).
Qed.

Lemma GB_push_checked g m : GB g -> In m (checked_moves g) -> GB (push g m).
Proof. intros H Hin. apply GB_push_pseudo; [exact H | now apply checked_in_pseudo]. Qed.

Lemma GB_standpat g : GB g -> - BOUND <= g_score g * color_sign (g_player g) <= BOUND.
Proof. intros [[[Hc _] _] Hb]. now apply bounded_standpat_range. Qed.

Lemma no_move_score_range g off real :
  MATE_OFFSET_NODE <= off <= MATE_OFFSET_QUIESCENCE -> 0 <= real <= 256 -> InR (no_move_score g off real).
Proof.
  intros Ho Hr. unfold no_move_score. destruct (king_exists g (g_player g) && _); rng.
Qed.

(* ---- quiescence ------------------------------------------------------------------------------------------ *)

Lemma qloop_range (q : game -> Z -> Z -> Z -> option Z) g b real :
  LO <= b ->
  (forall m a' b' r s, In m (pseudo_moves g) -> Win a' b' -> 0 <= r <= 256 ->
                       q (push g m) a' b' r = Some s -> InR s) ->
  0 <= real <= 256 ->
  forall ms alpha s, incl ms (pseudo_moves g) -> InR alpha ->
                     qloop q g b real ms alpha = Some s -> InR s.
Proof.
  intros Hb Hq Hr. induction ms as [|m rest IH]; intros alpha s Hincl Ha E.
  - rewrite qloop_nil in E. injection E as <-. exact Ha.
  - rewrite qloop_cons in E.
    assert (Hrest : incl rest (pseudo_moves g)) by (intros x Hx; apply Hincl; now right).
    destruct (negb (is_tactical m)); [now apply (IH alpha)|].
    destruct (q (push g m) (- b) (- alpha) (Z.min 255 (real + 1))) as [s1|] eqn:Eq; [|discriminate].
    assert (H1 : InR s1).
    { apply (Hq m (- b) (- alpha) (Z.min 255 (real + 1)) s1); [apply Hincl; now left| rng | lia | exact Eq]. }
    assert (H2 : InR (if alpha <? - s1 then - s1 else alpha)) by (destruct (alpha <? - s1); rng).
    destruct (b <=? (if alpha <? - s1 then - s1 else alpha)) eqn:Ec.
    + injection E as <-. apply Z.leb_le in Ec. rng.
    + now apply (IH _ s Hrest H2).
Qed.

Theorem quiescence_range : forall fuel g a b real s,
  GB g -> Win a b -> 0 <= real <= 256 -> quiescence fuel g a b real = Some s -> InR s.
Proof.
  induction fuel as [|f IH]; intros g a b real s Hg Hw Hr E; [rewrite quiescence_0 in E; discriminate|].
  rewrite quiescence_S in E. cbv zeta in E.
  pose proof (GB_standpat g Hg) as Hsp.
  set (cur := g_score g * color_sign (g_player g)) in *.
  destruct (b <=? Z.max a cur) eqn:Ec.
  - injection E as <-. apply Z.leb_le in Ec. rng.
  - destruct (pseudo_moves g) as [|m0 ms0] eqn:Epm.
    + injection E as <-. apply no_move_score_range; [unfold MATE_OFFSET_NODE, MATE_OFFSET_QUIESCENCE; lia | exact Hr].
    + rewrite <- Epm in E.
      apply (qloop_range (quiescence f) g b real) with (ms := pseudo_moves g) (alpha := Z.max a cur);
        try assumption; [rng | | apply incl_refl | rng].
      intros m a' b' r s' Hin Hw' Hr' E'. apply (IH (push g m) a' b' r s'); try assumption.
      now apply GB_push_pseudo.
Qed.

(* ---- depth 1 ------------------------------------------------------------------------------------------------ *)

Lemma depth1_loop_range g b real :
  GB g -> LO <= b -> 0 <= real <= 255 ->
  forall ms a s, incl ms (pseudo_moves g) -> a <= HI -> (ms <> [] \/ LO <= a) ->
                 depth1_loop g ms a b real = Some s -> InR s.
Proof.
  intros Hg Hb Hr. induction ms as [|m rest IH]; intros a s Hincl Ha Hne E; cbn [depth1_loop] in E.
  - injection E as <-. destruct Hne as [Hne|Hlo]; [congruence | rng].
  - assert (Hrest : incl rest (pseudo_moves g)) by (intros x Hx; apply Hincl; now right).
    destruct (quiescence QFUEL (push g m) (- b) (- a) (real + 1)) as [s1|] eqn:Eq; [|discriminate].
    assert (H1 : InR s1).
    { apply (quiescence_range QFUEL (push g m) (- b) (- a) (real + 1) s1); try assumption; [|rng|lia].
      apply GB_push_pseudo; [exact Hg | apply Hincl; now left]. }
    cbv zeta in E.
    assert (H2 : InR (if a <? - s1 then - s1 else a)).
    { destruct (a <? - s1) eqn:El; [rng|]. apply Z.ltb_ge in El. rng. }
    destruct (b <=? (if a <? - s1 then - s1 else a)).
    + injection E as <-. exact H2.
    + apply (IH (if a <? - s1 then - s1 else a) s Hrest); [rng | right; rng | exact E].
Qed.

Theorem depth1_range g a b real s :
  GB g -> Win a b -> 0 <= real <= 255 -> depth1 g a b real = Some s -> InR s.
Proof.
  intros Hg Hw Hr E. unfold depth1 in E. destruct (pseudo_moves g) as [|m0 ms0] eqn:Epm.
  - injection E as <-. apply no_move_score_range; [unfold MATE_OFFSET_NODE, MATE_OFFSET_DEPTH1, MATE_OFFSET_QUIESCENCE; lia | lia].
  - rewrite <- Epm in E.
    apply (depth1_loop_range g b real Hg (proj2 Hw) Hr (pseudo_moves g) a s); try assumption.
    + apply incl_refl.
    + exact (proj1 Hw).
    + left. rewrite Epm. discriminate.
Qed.

(* ---- the table invariant ---------------------------------------------------------------------------------------- *)

(* every cached entry: score in range, a best move recorded, depth within the u8 range *)
Definition entry_ok (_ : N) (e : entry) : Prop :=
  InR (e_score e) /\ e_pv e <> None /\ 0 <= e_depth e <= 255.

Definition RangeTable (t : table) : Prop := TableAll entry_ok t.
Definition RT (st : sstate) : Prop := RangeTable (s_tbl st).

Lemma RangeTable_empty : RangeTable tempty.
Proof. apply TableAll_empty. Qed.

Lemma RT_poll st : RT st -> RT (poll st).
Proof. apply TableAll_poll. Qed.

Lemma RangeTable_depths t : RangeTable t -> TableDepths t.
Proof. intros H h e Hf. exact (proj2 (proj2 (H h e Hf))). Qed.

Lemma probe_some e remaining a b s :
  probe e remaining a b = Some s -> exists en, e = Some en /\ s = e_score en.
Proof.
  unfold probe. destruct e as [en|]; [|discriminate]. intros H. exists en. split; [reflexivity|].
  destruct (remaining <=? e_depth en); [|discriminate].
  destruct (e_flag en).
  - now injection H as <-.
  - destruct (b <=? e_score en); [now injection H as <- | discriminate].
  - destruct (e_score en <=? a); [now injection H as <- | discriminate].
Qed.

(* mate scores are stored counted from the storing node and recounted from the root when read (fix:
   score_to_table / score_from_table): both directions stay in range *)
Lemma score_to_table_InR s real : InR s -> 0 <= real -> InR (score_to_table s real).
Proof.
  intros H Hr. unfold score_to_table, TABLE_MATE_MARGIN.
  destruct (SCORE_MAX - 1000 <? s) eqn:E1; [apply Z.ltb_lt in E1; rng|].
  destruct (s <? SCORE_MIN + 1000) eqn:E2; [apply Z.ltb_lt in E2; rng | exact H].
Qed.

Lemma score_from_table_InR s real : InR s -> 0 <= real <= 255 -> InR (score_from_table s real).
Proof.
  intros H Hr. unfold score_from_table, TABLE_MATE_MARGIN.
  destruct (SCORE_MAX - 1000 <? s) eqn:E1; [apply Z.ltb_lt in E1; rng|].
  destruct (s <? SCORE_MIN + 1000) eqn:E2; [apply Z.ltb_lt in E2; rng | exact H].
Qed.

Lemma node_entry_some g st real en :
  node_entry g st real = Some en ->
  exists en0, tfind (s_tbl st) (g_hash g) = Some en0 /\ en = entry_from_table real en0.
Proof.
  unfold node_entry. destruct (tfind (s_tbl st) (g_hash g)) as [en0|]; cbn [option_map]; [|discriminate].
  intros E. injection E as <-. exists en0. split; reflexivity.
Qed.

(* ---- the node ------------------------------------------------------------------------------------------------------ *)

Definition node_res (r : outcome Z * sstate) : Prop :=
  match r with
  | (Done s, st') => InR s /\ RT st'
  | (Aborted sa, st') => st' = sa /\ RT sa
  | (OutOfFuel, st') => RT st'
  end.

(* before the first move of the loop / after at least one move *)
Definition LPre (l : lstate) : Prop := RT (l_st l) /\ l_alpha l <= HI /\ l_bscore l = SCORE_MIN.
Definition LPost (l : lstate) : Prop :=
  RT (l_st l) /\ InR (l_alpha l) /\ InR (l_bscore l) /\ l_best l <> None.

Definition lres (o : outcome lstate) : Prop :=
  match o with Done l => LPost l | Aborted sa => RT sa | OutOfFuel => True end.

Definition RPre (r : rstate) : Prop := RT (r_st r) /\ r_bscore r = SCORE_MIN + 1.
Definition RPost (r : rstate) : Prop := RT (r_st r) /\ InR (r_bscore r) /\ r_best r <> None.

Definition rres (o : outcome rstate) : Prop :=
  match o with Done r => RPost r | Aborted sa => RT sa | OutOfFuel => True end.

Ltac post_tac :=
  cbv beta iota zeta; cbn [lres rres]; unfold LPost, RPost;
  cbn [l_st l_alpha l_bscore l_best r_st r_bscore r_best];
  (split; [assumption|]); repeat (split; [rng|]); first [discriminate | assumption].

Section NodeLoop.
  Variable rec : nrec.
  Variable g : game.
  Variables real beta : Z.
  Hypothesis Hbeta : LO <= beta.
  Hypothesis rec_ok : forall m st a b,
    In m (checked_moves g) -> RT st -> Win a b -> node_res (rec (push g m) st (real + 1) a b).

  Lemma node_step_range m index l :
    In m (checked_moves g) -> (index = 0 /\ LPre l) \/ LPost l ->
    lres (node_step rec g real beta m index l).
  Proof.
    intros Hm H. unfold node_step.
    destruct H as [[-> (HT & Ha & Hs)] | (HT & Ha & Hs & Hbm)].
    - change (0 <=? PVS_FULL_WINDOW_LAST_INDEX) with true. cbv iota.
      pose proof (rec_ok m (l_st l) (- beta) (- l_alpha l) Hm HT ltac:(rng)) as H1.
      destruct (rec (push g m) (l_st l) (real + 1) (- beta) (- l_alpha l)) as [[s|sa|] st1];
        cbn [node_res] in H1; cbn [lres].
      + destruct H1 as [Hr HT1]. rewrite Hs.
        assert (E : (SCORE_MIN <? - s) = true) by (apply Z.ltb_lt; rng). rewrite E. post_tac.
      + apply H1.
      + exact I.
    - destruct (index <=? PVS_FULL_WINDOW_LAST_INDEX).
      + pose proof (rec_ok m (l_st l) (- beta) (- l_alpha l) Hm HT ltac:(rng)) as H1.
        destruct (rec (push g m) (l_st l) (real + 1) (- beta) (- l_alpha l)) as [[s|sa|] st1];
          cbn [node_res] in H1; cbn [lres].
        * destruct H1 as [Hr HT1].
          destruct (l_bscore l <? - s); post_tac.
        * apply H1.
        * exact I.
      + pose proof (rec_ok m (l_st l) (- l_alpha l - 1) (- l_alpha l) Hm HT ltac:(rng)) as H1.
        destruct (rec (push g m) (l_st l) (real + 1) (- l_alpha l - 1) (- l_alpha l)) as [[s|sa|] st1];
          cbn [node_res] in H1; cbn [lres].
        * destruct H1 as [Hr HT1]. destruct (l_bscore l <? - s).
          -- pose proof (rec_ok m st1 (- beta) (- - s) Hm HT1 ltac:(rng)) as H2.
             destruct (rec (push g m) st1 (real + 1) (- beta) (- - s)) as [[s2|sa2|] st2];
               cbn [node_res] in H2; cbn [lres].
             ++ destruct H2 as [Hr2 HT2]. post_tac.
             ++ apply H2.
             ++ exact I.
          -- post_tac.
        * apply H1.
        * exact I.
  Qed.

  Lemma node_loop_range remaining : forall ms index l,
    incl ms (checked_moves g) ->
    (index = 0 /\ LPre l /\ ms <> []) \/ LPost l ->
    lres (node_loop rec g real beta remaining ms index l).
  Proof.
    induction ms as [|m rest IH]; intros index l Hincl H.
    - rewrite node_loop_nil. cbn [lres]. destruct H as [(_ & _ & Hne)|H]; [congruence | exact H].
    - rewrite node_loop_cons.
      assert (Hm : In m (checked_moves g)) by (apply Hincl; now left).
      assert (Hstep : lres (node_step rec g real beta m index l)).
      { apply node_step_range; [exact Hm|]. destruct H as [(H1 & H2 & _)|H]; [left; now split | now right]. }
      destruct (node_step rec g real beta m index l) as [l'|sa|]; cbn [lres] in Hstep.
      + destruct (beta <=? l_alpha l').
        * cbn [lres]. unfold node_cutoff, LPost in *. cbn [l_st l_alpha l_bscore l_best]. exact Hstep.
        * apply IH; [intros x Hx; apply Hincl; now right | now right].
      + exact Hstep.
      + exact I.
  Qed.
End NodeLoop.

Theorem node_range : forall rem g st real a b,
  ArgsOK rem real -> GB g -> RT st -> Win a b -> node_res (node rem g st real a b).
Proof.
  induction rem as [|rem IH]; intros g st real a b HA Hg HT Hw; rewrite node_unfold;
    pose proof (RT_poll st HT) as HTp;
    (destruct (s_running (poll st)); cbn [negb]; [|cbn [node_res]; split; [reflexivity | exact HTp]]);
    unfold node_body;
    pose proof (ArgsOK_range _ _ HA) as HAr;
    (destruct (probe (node_entry g (poll st) real) _ a b) as [sp|] eqn:Ep;
     [apply probe_some in Ep; destruct Ep as (en & Ef & ->); cbn [node_res];
      apply node_entry_some in Ef; destruct Ef as (en0 & Ef & ->); split;
      [cbn [entry_from_table e_score]; apply score_from_table_InR; [exact (proj1 (HTp _ _ Ef)) | lia] | exact HTp] |]).
  - destruct (quiescence QFUEL g a b real) as [s|] eqn:Eq; cbn [lift node_res]; [|exact HTp].
    split; [|exact HTp]. apply (quiescence_range QFUEL g a b real s); try assumption. lia.
  - destruct rem as [|r].
    + destruct (depth1 g a b real) as [s|] eqn:Eq; cbn [lift node_res]; [|exact HTp].
      split; [|exact HTp]. apply (depth1_range g a b real s); try assumption. lia.
    + rewrite node_deep_eq. destruct (checked_moves g) as [|m0 ms0] eqn:Ecm.
      * cbn [node_res]. split; [|exact HTp].
        apply no_move_score_range; [unfold MATE_OFFSET_NODE, MATE_OFFSET_QUIESCENCE; lia | lia].
      * assert (Hincl : incl (node_sorted g (poll st) real) (checked_moves g)).
        { intros x Hx. unfold node_sorted, node_sorted_of in Hx. apply sort_moves_in in Hx. exact Hx. }
        assert (Hne : node_sorted g (poll st) real <> []).
        { intros E. unfold node_sorted, node_sorted_of in E. apply sort_moves_nil in E. congruence. }
        assert (Hrec : forall m st' a' b', In m (checked_moves g) -> RT st' -> Win a' b' ->
                         node_res (node (S r) (push g m) st' (real + 1) a' b')).
        { intros m st' a' b' Hm HT' Hw'. apply IH; try assumption.
          - apply ArgsOK_step. exact HA.
          - now apply GB_push_checked. }
        assert (Hpre : (0 = 0 /\ LPre (mkL a None SCORE_MIN (poll st)) /\ node_sorted g (poll st) real <> [])
                       \/ LPost (mkL a None SCORE_MIN (poll st))).
        { left. split; [reflexivity|]. split; [|exact Hne].
          unfold LPre. cbn [l_st l_alpha l_bscore]. split; [exact HTp|]. split; [exact (proj1 Hw) | reflexivity]. }
        pose proof (node_loop_range (node (S r)) g real b (proj2 Hw) Hrec (Z.of_nat (S (S r)))
                      (node_sorted g (poll st) real) 0 (mkL a None SCORE_MIN (poll st)) Hincl Hpre) as HL.
        destruct (node_loop _ _ _ _ _ _ _ _) as [l|sa|]; cbn [lres] in HL; cbn [node_finish node_res].
        -- destruct HL as (HTl & Hal & Hbl & Hbest).
           split; [exact Hal|]. unfold RT. cbn [with_tbl s_tbl].
           apply TableAll_store_node; [exact HTl|].
           unfold entry_ok. cbn [e_score e_pv e_depth].
           split; [apply score_to_table_InR; [exact Hbl | lia]|]. split; [exact Hbest|]. lia.
        -- split; [reflexivity | exact HL].
        -- exact HTp.
Qed.

(* the obligation of SearchInv2.root_best_some about the first full-window child *)
Corollary node_first_child_below_max : forall rem g st real s st',
  ArgsOK rem real -> GB g -> RT st ->
  node rem g st real (SCORE_MIN + 1) SCORE_MAX = (Done s, st') -> SCORE_MIN + 1 < s < SCORE_MAX.
Proof.
  intros rem g st real s st' HA Hg HT E.
  pose proof (node_range rem g st real (SCORE_MIN + 1) SCORE_MAX HA Hg HT ltac:(rng)) as H.
  rewrite E in H. apply InR_below_max. apply H.
Qed.

(* ---- the root ---------------------------------------------------------------------------------------------------------- *)

Lemma root_step_range g rem' m index r :
  GB g -> ArgsOK rem' 1 -> In m (checked_moves g) -> (index = 0 /\ RPre r) \/ RPost r ->
  rres (root_step g rem' m index r).
Proof.
  intros Hg HA Hm H. unfold root_step.
  pose proof (GB_push_checked g m Hg Hm) as Hg1.
  destruct H as [[-> (HT & Hs)] | (HT & Hs & Hbm)].
  - change (0 <=? ROOT_FULL_WINDOW_LAST_INDEX) with true. cbv iota.
    pose proof (node_range rem' (push g m) (r_st r) 1 (SCORE_MIN + 1) (- r_bscore r) HA Hg1 HT ltac:(rng)) as H1.
    destruct (node rem' (push g m) (r_st r) 1 (SCORE_MIN + 1) (- r_bscore r)) as [[s|sa|] st1];
      cbn [node_res] in H1; cbn [rres].
    + destruct H1 as [Hr HT1]. rewrite Hs.
      assert (E : (SCORE_MIN + 1 <? - s) = true) by (apply Z.ltb_lt; rng). rewrite E. post_tac.
    + apply H1.
    + exact I.
  - destruct (index <=? ROOT_FULL_WINDOW_LAST_INDEX).
    + pose proof (node_range rem' (push g m) (r_st r) 1 (SCORE_MIN + 1) (- r_bscore r) HA Hg1 HT ltac:(rng)) as H1.
      destruct (node rem' (push g m) (r_st r) 1 (SCORE_MIN + 1) (- r_bscore r)) as [[s|sa|] st1];
        cbn [node_res] in H1; cbn [rres].
      * destruct H1 as [Hr HT1].
        destruct (r_bscore r <? - s); post_tac.
      * apply H1.
      * exact I.
    + pose proof (node_range rem' (push g m) (r_st r) 1 (- r_bscore r - 1) (- r_bscore r) HA Hg1 HT ltac:(rng)) as H1.
      destruct (node rem' (push g m) (r_st r) 1 (- r_bscore r - 1) (- r_bscore r)) as [[s|sa|] st1];
        cbn [node_res] in H1; cbn [rres].
      * destruct H1 as [Hr HT1]. destruct (r_bscore r <? - s).
        -- pose proof (node_range rem' (push g m) st1 1 (SCORE_MIN + 1) (- - s) HA Hg1 HT1 ltac:(rng)) as H2.
           destruct (node rem' (push g m) st1 1 (SCORE_MIN + 1) (- - s)) as [[s2|sa2|] st2];
             cbn [node_res] in H2; cbn [rres].
           ++ destruct H2 as [Hr2 HT2]. post_tac.
           ++ apply H2.
           ++ exact I.
        -- post_tac.
      * apply H1.
      * exact I.
Qed.

Lemma root_loop_range g rem' :
  GB g -> ArgsOK rem' 1 ->
  forall ms index r, incl ms (checked_moves g) ->
    (index = 0 /\ RPre r /\ ms <> []) \/ RPost r ->
    rres (root_loop g rem' ms index r).
Proof.
  intros Hg HA. induction ms as [|m rest IH]; intros index r Hincl H.
  - rewrite root_loop_nil. cbn [rres]. destruct H as [(_ & _ & Hne)|H]; [congruence | exact H].
  - rewrite root_loop_cons.
    assert (Hm : In m (checked_moves g)) by (apply Hincl; now left).
    assert (Hstep : rres (root_step g rem' m index r)).
    { apply root_step_range; try assumption. destruct H as [(H1 & H2 & _)|H]; [left; now split | now right]. }
    destruct (root_step g rem' m index r) as [r'|sa|]; cbn [rres] in Hstep.
    + apply IH; [intros x Hx; apply Hincl; now right | now right].
    + exact Hstep.
    + exact I.
Qed.

(* a completed root call: the table invariant is kept, and a move is announced if there is one *)
Definition root_res (g : game) (r : outcome (option Move * Z * bool) * sstate) : Prop :=
  match r with
  | (Done (best, _, _), st') => RT st' /\ (checked_moves g <> [] -> best <> None)
  | (Aborted sa, st') => st' = sa /\ RT sa
  | (OutOfFuel, st') => True
  end.

Theorem root_range g st depth :
  Z.of_nat depth <= 255 -> GB g -> RT st -> root_res g (root g st depth).
Proof.
  intros Hd Hg HT. rewrite root_unfold.
  assert (Hmain : length (checked_moves g) <> 1%nat -> root_res g (root_main g st depth)).
  { intros Hlen. unfold root_main. cbv zeta.
    assert (HT0 : RT (root_clear st)) by exact HT.
    destruct (root_hit (tfind (s_tbl (root_clear st)) (g_hash g)) depth) as [en|] eqn:Eh.
    - apply root_hit_some in Eh. destruct Eh as (E1 & _ & _).
      cbn [root_res]. split; [exact HT0|]. intros _. exact (proj1 (proj2 (HT0 _ _ E1))).
    - destruct (root_sorted g (root_clear st)) as [|m1 rest] eqn:Esort.
      + (* nothing to search: the game has no legal move; nothing is cached *)
        rewrite root_loop_nil. cbn [root_finish r_best r_bscore r_st root_res].
        split; [exact HT0|]. intros Hne. exfalso.
        unfold root_sorted in Esort. apply sort_moves_nil in Esort.
        pose proof (repetition_filter_length g (checked_moves g)) as HL. rewrite Esort in HL.
        cbn [length] in HL. destruct (checked_moves g) as [|a [|b l]]; cbn [length] in *; try lia; congruence.
      + rewrite <- Esort.
        assert (Hsne : root_sorted g (root_clear st) <> []) by (rewrite Esort; discriminate).
        assert (Hpre : (0 = 0 /\ RPre (mkR None (SCORE_MIN + 1) (root_clear st)) /\ root_sorted g (root_clear st) <> [])
                       \/ RPost (mkR None (SCORE_MIN + 1) (root_clear st))).
        { left. split; [reflexivity|]. split; [|exact Hsne]. split; [exact HT0 | reflexivity]. }
        pose proof (root_loop_range g (pred depth) Hg (ArgsOK_root_nat depth Hd)
                      (root_sorted g (root_clear st)) 0 (mkR None (SCORE_MIN + 1) (root_clear st))
                      (root_sorted_incl' g (root_clear st)) Hpre) as HL.
        destruct (root_loop _ _ _ _ _) as [r|sa|]; cbn [rres] in HL; cbn [root_finish root_res].
        * destruct HL as (HTr & Hsr & Hbr).
          split; [|intros _; exact Hbr].
          destruct (r_best r) as [bm|] eqn:Ebm; [|exact HTr].
          unfold RT. cbn [with_tbl s_tbl].
          apply TableAll_store_root; [exact HTr|].
          unfold entry_ok. cbn [e_score e_pv e_depth].
          split; [exact Hsr|]. split; [discriminate|]. lia.
        * split; [reflexivity | exact HL].
        * exact I. }
  destruct (checked_moves g) as [|m [|m' t]] eqn:Ecm.
  - apply Hmain. cbn [length]. lia.
  - cbn [root_res]. split; [exact HT | discriminate].
  - apply Hmain. cbn [length]. lia.
Qed.

(* ---- the driver ------------------------------------------------------------------------------------------------------------- *)

Lemma good_root_has_fuel g st k : Good g -> has_fuel (fst (root g st k)).
Proof.
  exact (root_has_fuel Good good_push_checked good_quiescence_total good_depth1_total g st k).
Qed.

Lemma driver_loop_range g :
  GB g ->
  forall n st depth md found lines, RT st -> RT (d_st (driver_loop n g st depth md found lines)).
Proof.
  intros Hg. induction n as [|n IH]; intros st depth md found lines HT; cbn [driver_loop].
  - exact HT.
  - destruct (255 <? depth) eqn:Ed; [exact HT|]. apply Z.ltb_ge in Ed.
    pose proof (root_range g st (Z.to_nat depth) ltac:(lia) Hg HT) as HR.
    pose proof (good_root_has_fuel g st (Z.to_nat depth) (proj1 Hg)) as HF.
    destruct (root g st (Z.to_nat depth)) as [[[[best score] only]|sa|] st1];
      cbn [root_res fst has_fuel] in *.
    + destruct HR as [HT1 _].
      match goal with |- context [if ?c then _ else _] => destruct c end; [exact HT1|].
      now apply IH.
    + destruct HR as [-> HTa]. exact HTa.
    + contradiction.
Qed.

Lemma RangeTable_starting_depth t g : RangeTable t -> 0 <= starting_depth t g <= 255.
Proof. intros H. apply starting_depth_range. now apply RangeTable_depths. Qed.

(* the invariant survives every search of a game of bounded material, dead roots included *)
Theorem driver_range_table g t limit stop_at tableless :
  GB g -> RangeTable t ->
  RangeTable (s_tbl (d_st (driver g t limit stop_at tableless))).
Proof.
  intros Hg Ht. unfold driver. apply (driver_loop_range g Hg). exact Ht.
Qed.

(* C07: stopped at any poll (or never), a game with a legal move gets a move *)
Theorem C07_answers_when_stopped g t limit N tableless :
  GB g -> RangeTable t -> checked_moves g <> [] ->
  d_move (driver g t limit N tableless) <> None.
Proof.
  intros Hg Ht Hne.
  apply (driver_answers_when_stopped g RT).
  - intros st k best sc only st' Hk HT E.
    pose proof (root_range g st (Z.to_nat k) ltac:(lia) Hg HT) as H. rewrite E in H.
    cbn [root_res] in H. destruct H as [H1 H2]. split; [exact (H2 Hne) | exact H1].
  - intros st k. apply good_root_has_fuel. exact (proj1 Hg).
  - exact Hne.
  - exact Ht.
  - apply RangeTable_starting_depth. exact Ht.
Qed.

(* C06: "no move" is announced only for a game without legal moves *)
Theorem C06_none_iff_dead g t limit stop_at tableless :
  GB g -> RangeTable t ->
  d_move (driver g t limit stop_at tableless) = None -> checked_moves g = [].
Proof.
  intros Hg Ht E. destruct (checked_moves g) as [|m ms] eqn:Ecm; [reflexivity|].
  exfalso. apply (C07_answers_when_stopped g t limit stop_at tableless Hg Ht); [|exact E].
  rewrite Ecm. discriminate.
Qed.

(* with the legality statement of SearchInv1/Top: the announced move of a game with legal moves *)
Theorem C06_C07_move_legal g t limit stop_at tableless :
  GB g -> RangeTable t -> SoundTable t -> checked_moves g <> [] ->
  exists m, d_move (driver g t limit stop_at tableless) = Some m /\
            (In m (checked_moves g) \/ collision_witness Good g m).
Proof.
  intros Hg Ht Hs Hne.
  destruct (d_move (driver g t limit stop_at tableless)) as [m|] eqn:E.
  - exists m. split; [reflexivity|]. exact (top_driver_move g t limit stop_at tableless m (proj1 Hg) Hs E).
  - exfalso. now apply (C07_answers_when_stopped g t limit stop_at tableless Hg Ht Hne).
Qed.

(* from the empty table (ucinewgame), for the start position and every game played from it *)
Corollary start_answers g limit N tableless :
  played_from START g -> checked_moves g <> [] -> d_move (driver g tempty limit N tableless) <> None.
Proof.
  intros Hp Hne. apply C07_answers_when_stopped; [|apply RangeTable_empty|exact Hne].
  apply (bounded_reachable START g); [exact (legal_reachable_good START start_reachable) | exact start_bounded | exact Hp].
Qed.

Corollary kiwipete_answers g limit N tableless :
  played_from KIWIPETE g -> checked_moves g <> [] -> d_move (driver g tempty limit N tableless) <> None.
Proof.
  intros Hp Hne. apply C07_answers_when_stopped; [|apply RangeTable_empty|exact Hne].
  apply (bounded_reachable KIWIPETE g);
    [exact (legal_reachable_good KIWIPETE kiwipete_reachable) | exact kiwipete_bounded | exact Hp].
Qed.

(* a whole session: starting from the empty table (ucinewgame), any sequence of searches of games
   of bounded material - with or without a legal move -, each stopped anywhere or never *)
Inductive session_table : table -> Prop :=
| st_empty : session_table tempty
| st_search g t limit stop_at tableless :
    session_table t -> GB g ->
    session_table (s_tbl (d_st (driver g t limit stop_at tableless))).

Theorem session_table_range t : session_table t -> RangeTable t.
Proof.
  induction 1 as [|g t limit stop_at tableless _ IH Hg]; [apply RangeTable_empty|].
  now apply driver_range_table.
Qed.

(* C07 over the session closure *)
Corollary session_answers g t limit N tableless :
  session_table t -> GB g -> checked_moves g <> [] -> d_move (driver g t limit N tableless) <> None.
Proof. intros Ht Hg Hne. apply C07_answers_when_stopped; try assumption. now apply session_table_range. Qed.

(* C06 over the session closure *)
Corollary session_none_iff_dead g t limit stop_at tableless :
  session_table t -> GB g ->
  d_move (driver g t limit stop_at tableless) = None -> checked_moves g = [].
Proof. intros Ht Hg. apply C06_none_iff_dead; [exact Hg | now apply session_table_range]. Qed.

(* ---- a root without legal moves is not cached ---------------------------------------------------------------------- *)

Lemma repetition_filter_nil g : repetition_filter g [] = [].
Proof.
  unfold repetition_filter. destruct (g_moves g) as [|m1 [|m2 [|m3 [|m4 [|m5 t]]]]]; try reflexivity.
  destruct (move_eqb m1 m5 && is_reversal m4 m2 && is_reversal m5 m3); reflexivity.
Qed.

Lemma root_sorted_dead g st : checked_moves g = [] -> root_sorted g st = [].
Proof. intros Hd. unfold root_sorted. rewrite Hd, repetition_filter_nil. reflexivity. Qed.

(* the root called on a game without legal moves: no poll, no child, no store *)
Lemma root_dead g st depth :
  checked_moves g = [] -> root_hit (tfind (s_tbl st) (g_hash g)) depth = None ->
  root g st depth = (Done (None, SCORE_MIN + 1, false), root_clear st).
Proof.
  intros Hd Hh. rewrite root_unfold, Hd. unfold root_main. cbv zeta.
  change (s_tbl (root_clear st)) with (s_tbl st). rewrite Hh.
  rewrite (root_sorted_dead g _ Hd), root_loop_nil. reflexivity.
Qed.

Lemma root_dead_state g st depth :
  checked_moves g = [] -> exists b s o, root g st depth = (Done (b, s, o), root_clear st).
Proof.
  intros Hd.
  destruct (root_hit (tfind (s_tbl st) (g_hash g)) depth) as [en|] eqn:Eh.
  - exists (e_pv en), (e_score en), false. rewrite root_unfold, Hd. unfold root_main. cbv zeta.
    change (s_tbl (root_clear st)) with (s_tbl st). rewrite Eh. reflexivity.
  - exists None, (SCORE_MIN + 1), false. now apply root_dead.
Qed.

Lemma driver_loop_dead_tbl g :
  checked_moves g = [] ->
  forall n st depth md found lines, s_tbl (d_st (driver_loop n g st depth md found lines)) = s_tbl st.
Proof.
  intros Hd. induction n as [|n IH]; intros st depth md found lines; cbn [driver_loop]; [reflexivity|].
  destruct (255 <? depth); [reflexivity|].
  destruct (root_dead_state g st (Z.to_nat depth) Hd) as (b & s & o & ->).
  match goal with |- context [if ?c then _ else _] => destruct c end; [reflexivity|].
  rewrite IH. reflexivity.
Qed.

(* a search of a root without checked moves leaves the table exactly as it was - for every table,
   limit, stop index and mode - and announces no move unless the table already holds an entry under
   the hash of that root *)
Theorem dead_root_not_cached g t limit stop_at tableless :
  checked_moves g = [] ->
  s_tbl (d_st (driver g t limit stop_at tableless)) = t /\
  (tfind t (g_hash g) = None -> d_move (driver g t limit stop_at tableless) = None).
Proof.
  intros Hd. split.
  - unfold driver. rewrite (driver_loop_dead_tbl g Hd). reflexivity.
  - intros Hf. unfold driver.
    assert (Esd : starting_depth t g = 1) by (unfold starting_depth; rewrite Hf; reflexivity).
    rewrite Esd. change 256%nat with (S 255). generalize 255%nat. intros fuel. cbn [driver_loop].
    change (255 <? 1) with false. cbv iota.
    rewrite root_dead; [|exact Hd|cbn [fresh_state s_tbl]; rewrite Hf; reflexivity].
    change (SCORE_MIN + 1 <? SCORE_MIN + EXIT_BAND_LOW) with true.
    rewrite Bool.orb_true_r. reflexivity.
Qed.

(* History.  In the model (and the code) before the repair "fix: a searched checkmate or stalemate root
   poisoned the transposition table", the root stored its entry unconditionally.  With
     X = r7/8/8/8/8/1p6/2k5/K7 w - - 0 1   (White is checkmated) and
     P = 7r/P7/8/8/8/1p6/2k5/K7 w - - 0 1   (four legal moves, the promotions on a8, each answered by
                                            Rh8xa8 mate, which is X)
   the search of X cached (SCORE_MIN + 1, no move, depth 1, Exact) under the hash of X; the search of P
   with that table probed it at iteration 3 (remaining depth 1), every child of the root returned
   SCORE_MAX, no root move scored above SCORE_MIN + 1 and the driver announced NO MOVE (`bestmove none`
   on the engine binary as well), although the same search from the empty table announced a7a8n.
   So the C06/C07 statements above were false for tables left by a search of a dead root.
   The scenario on the repaired model: *)
From Coq Require Import String Ascii.
Open Scope string_scope.
Open Scope Z_scope.

Definition DEAD_X : game := imported (txt "r7/8/8/8/8/1p6/2k5/K7 w - - 0 1").
Definition ALIVE_P : game := imported (txt "7r/P7/8/8/8/1p6/2k5/K7 w - - 0 1").
Definition TABLE_AFTER_X : table := s_tbl (d_st (driver DEAD_X tempty None (-1) false)).

Example dead_x_good : GB DEAD_X.
Proof.
  split.
  - apply legal_reachable_good. apply (lr_import (txt "r7/8/8/8/8/1p6/2k5/K7 w - - 0 1")); vm_compute; reflexivity.
  - unfold Bounded, BOUND. split; vm_compute; discriminate.
Qed.

Example alive_p_good : GB ALIVE_P.
Proof.
  split.
  - apply legal_reachable_good. apply (lr_import (txt "7r/P7/8/8/8/1p6/2k5/K7 w - - 0 1")); vm_compute; reflexivity.
  - unfold Bounded, BOUND. split; vm_compute; discriminate.
Qed.

Example dead_x_then_p_answers :
  checked_moves DEAD_X = [] /\
  d_move (driver DEAD_X tempty None (-1) false) = None /\
  tfind TABLE_AFTER_X (g_hash DEAD_X) = None /\
  List.length (checked_moves ALIVE_P) = 4%nat /\
  d_move (driver ALIVE_P TABLE_AFTER_X None (-1) false) = Some (Promotion White Knight (6, 0) (7, 0) None) /\
  d_move (driver ALIVE_P TABLE_AFTER_X (Some 3) (-1) false) = Some (Promotion White Knight (6, 0) (7, 0) None) /\
  d_move (driver ALIVE_P tempty (Some 3) (-1) false) = Some (Promotion White Knight (6, 0) (7, 0) None).
Proof. vm_compute. repeat split; reflexivity. Qed.

(* the same, from the general theorems: the table after X is the empty table, a session table *)
Example table_after_x_empty : TABLE_AFTER_X = tempty.
Proof.
  apply (dead_root_not_cached DEAD_X tempty None (-1) false). vm_compute. reflexivity.
Qed.

Example p_after_x_answers limit N tableless : d_move (driver ALIVE_P TABLE_AFTER_X limit N tableless) <> None.
Proof.
  apply session_answers; [|exact alive_p_good|vm_compute; discriminate].
  apply st_search; [apply st_empty | exact dead_x_good].
Qed.

Print Assumptions quiescence_range.
Print Assumptions depth1_range.
Print Assumptions node_range.
Print Assumptions node_first_child_below_max.
Print Assumptions root_range.
Print Assumptions driver_range_table.
Print Assumptions C07_answers_when_stopped.
Print Assumptions C06_none_iff_dead.
Print Assumptions C06_C07_move_legal.
Print Assumptions start_answers.
Print Assumptions kiwipete_answers.
Print Assumptions session_table_range.
Print Assumptions session_answers.
Print Assumptions session_none_iff_dead.
Print Assumptions dead_root_not_cached.
Print Assumptions dead_x_then_p_answers.
Print Assumptions table_after_x_empty.
Print Assumptions p_after_x_answers.
