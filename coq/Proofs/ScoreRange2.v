(* Score ranges, part 2: every value the search returns, every window bound it passes down and every
   score it caches lies in [LO, HI] = [SCORE_MIN + MATE_OFFSET_NODE, its negation] on games of
   bounded material; hence the root always finds a move when there is one (C06 none-iff-dead, C07).

   The argument mirrors what the code relies on (i16 scores, SCORE_MIN never negated):
   - stand-pat values are within [-BOUND, BOUND] (ScoreRange1), mate values are
     SCORE_MIN + offset + ply with offset in {100, 2000, 3000};
   - a window (a, b) is "sane" when a <= HI and LO <= b; the root only opens sane windows, a node
     called with a sane window only opens sane windows (the first move is always searched with the
     full window, so by the time a null window -a-1 is formed a is already a real score), and every
     result under a sane window is in [LO, HI];
   - so the first move searched at a node scores above SCORE_MIN (at the root: above SCORE_MIN + 1),
     a best move is recorded, and every stored entry carries a move and a score in range.

   The table invariant [RangeTable] is preserved by every search of a game that HAS a legal move.
   A search of a dead root (no legal move) stores the entry (SCORE_MIN + 1, no move, Exact) and breaks
   it: see [dead_root_entry] and the scenario at the end of this file, where a later search that
   probes this entry two plies down announces no move although four are legal. *)
From Coq Require Import Lia FSets.FMapPositive.
From Chess Require Import Model.Search Proofs.Grid Proofs.Inv Proofs.Abs Proofs.GenOk Proofs.PushPop Proofs.PushPop2
  Proofs.Reach Proofs.Bounds Proofs.BoundsQ Proofs.BoundsInst Proofs.SearchInv1 Proofs.SearchInv2 Proofs.Top
  Proofs.ScoreRange1.
Open Scope Z_scope.

(* ---- ranges ------------------------------------------------------------------------------------------ *)

Definition LO : Z := SCORE_MIN + MATE_OFFSET_NODE.
Definition HI : Z := - LO.

Definition InR (s : Z) : Prop := LO <= s <= HI.
Definition Win (a b : Z) : Prop := a <= HI /\ LO <= b.

Definition GB (g : game) : Prop := Good g /\ Bounded g.

Ltac rng :=
  unfold InR, Win, HI, LO, SCORE_MIN, SCORE_MAX, MATE_OFFSET_NODE, MATE_OFFSET_DEPTH1,
    MATE_OFFSET_QUIESCENCE, BOUND in *; lia.

Lemma LO_HI_values : LO = -32668 /\ HI = 32668.
Proof. split; reflexivity. Qed.

Lemma InR_below_max s : InR s -> SCORE_MIN + 1 < s < SCORE_MAX.
Proof. intros H. rng. Qed.

Lemma GB_push_pseudo g m : GB g -> In m (pseudo_moves g) -> GB (push g m).
Proof.
  intros [Hg Hb] Hin. split; [now apply good_push|].
  apply bounded_push_pseudo; try assumption. exact (proj1 Hg).
Qed.

Lemma GB_push_checked g m : GB g -> In m (checked_moves g) -> GB (push g m).
Proof. intros H Hin. apply GB_push_pseudo; [exact H | now apply checked_in_pseudo]. Qed.

Lemma GB_standpat g : GB g -> - BOUND <= g_score g * color_sign (g_player g) <= BOUND.
Proof. intros [[[Hc _] _] Hb]. now apply bounded_standpat_range. Qed.

Lemma no_move_score_range g off real :
  MATE_OFFSET_NODE <= off <= MATE_OFFSET_QUIESCENCE -> 0 <= real <= 256 -> InR (no_move_score g off real).
Proof.
  intros Ho Hr. unfold no_move_score. destruct (king_exists g (g_player g) && _); rng.
Qed.

(* ---- quiescence ------------------------------------------------------------------------------------------ *)

Lemma qloop_range (q : game -> Z -> Z -> Z -> option Z) g b real :
  LO <= b ->
  (forall m a' b' r s, In m (pseudo_moves g) -> Win a' b' -> 0 <= r <= 256 ->
                       q (push g m) a' b' r = Some s -> InR s) ->
  0 <= real <= 256 ->
  forall ms alpha s, incl ms (pseudo_moves g) -> InR alpha ->
                     qloop q g b real ms alpha = Some s -> InR s.
Proof.
  intros Hb Hq Hr. induction ms as [|m rest IH]; intros alpha s Hincl Ha E.
  - rewrite qloop_nil in E. injection E as <-. exact Ha.
  - rewrite qloop_cons in E.
    assert (Hrest : incl rest (pseudo_moves g)) by (intros x Hx; apply Hincl; now right).
    destruct (negb (is_tactical m)); [now apply (IH alpha)|].
    destruct (q (push g m) (- b) (- alpha) (Z.min 255 (real + 1))) as [s1|] eqn:Eq; [|discriminate].
    assert (H1 : InR s1).
    { apply (Hq m (- b) (- alpha) (Z.min 255 (real + 1)) s1); [apply Hincl; now left| rng | lia | exact Eq]. }
    assert (H2 : InR (if alpha <? - s1 then - s1 else alpha)) by (destruct (alpha <? - s1); rng).
    destruct (b <=? (if alpha <? - s1 then - s1 else alpha)) eqn:Ec.
    + injection E as <-. apply Z.leb_le in Ec. rng.
    + now apply (IH _ s Hrest H2).
Qed.

Theorem quiescence_range : forall fuel g a b real s,
  GB g -> Win a b -> 0 <= real <= 256 -> quiescence fuel g a b real = Some s -> InR s.
Proof.
  induction fuel as [|f IH]; intros g a b real s Hg Hw Hr E; [rewrite quiescence_0 in E; discriminate|].
  rewrite quiescence_S in E. cbv zeta in E.
  pose proof (GB_standpat g Hg) as Hsp.
  set (cur := g_score g * color_sign (g_player g)) in *.
  destruct (b <=? Z.max a cur) eqn:Ec.
  - injection E as <-. apply Z.leb_le in Ec. rng.
  - destruct (pseudo_moves g) as [|m0 ms0] eqn:Epm.
    + injection E as <-. apply no_move_score_range; [unfold MATE_OFFSET_NODE, MATE_OFFSET_QUIESCENCE; lia | exact Hr].
    + rewrite <- Epm in E.
      apply (qloop_range (quiescence f) g b real) with (ms := pseudo_moves g) (alpha := Z.max a cur);
        try assumption; [rng | | apply incl_refl | rng].
      intros m a' b' r s' Hin Hw' Hr' E'. apply (IH (push g m) a' b' r s'); try assumption.
      now apply GB_push_pseudo.
Qed.

(* ---- depth 1 ------------------------------------------------------------------------------------------------ *)

Lemma depth1_loop_range g b real :
  GB g -> LO <= b -> 0 <= real <= 255 ->
  forall ms a s, incl ms (pseudo_moves g) -> a <= HI -> (ms <> [] \/ LO <= a) ->
                 depth1_loop g ms a b real = Some s -> InR s.
Proof.
  intros Hg Hb Hr. induction ms as [|m rest IH]; intros a s Hincl Ha Hne E; cbn [depth1_loop] in E.
  - injection E as <-. destruct Hne as [Hne|Hlo]; [congruence | rng].
  - assert (Hrest : incl rest (pseudo_moves g)) by (intros x Hx; apply Hincl; now right).
    destruct (quiescence QFUEL (push g m) (- b) (- a) (real + 1)) as [s1|] eqn:Eq; [|discriminate].
    assert (H1 : InR s1).
    { apply (quiescence_range QFUEL (push g m) (- b) (- a) (real + 1) s1); try assumption; [|rng|lia].
      apply GB_push_pseudo; [exact Hg | apply Hincl; now left]. }
    cbv zeta in E.
    assert (H2 : InR (if a <? - s1 then - s1 else a)).
    { destruct (a <? - s1) eqn:El; [rng|]. apply Z.ltb_ge in El. rng. }
    destruct (b <=? (if a <? - s1 then - s1 else a)).
    + injection E as <-. exact H2.
    + apply (IH (if a <? - s1 then - s1 else a) s Hrest); [rng | right; rng | exact E].
Qed.

Theorem depth1_range g a b real s :
  GB g -> Win a b -> 0 <= real <= 255 -> depth1 g a b real = Some s -> InR s.
Proof.
  intros Hg Hw Hr E. unfold depth1 in E. destruct (pseudo_moves g) as [|m0 ms0] eqn:Epm.
  - injection E as <-. apply no_move_score_range; [unfold MATE_OFFSET_NODE, MATE_OFFSET_DEPTH1, MATE_OFFSET_QUIESCENCE; lia | lia].
  - rewrite <- Epm in E.
    apply (depth1_loop_range g b real Hg (proj2 Hw) Hr (pseudo_moves g) a s); try assumption.
    + apply incl_refl.
    + exact (proj1 Hw).
    + left. rewrite Epm. discriminate.
Qed.

(* ---- the table invariant ---------------------------------------------------------------------------------------- *)

(* every cached entry: score in range, a best move recorded, depth within the u8 range *)
Definition entry_ok (_ : N) (e : entry) : Prop :=
  InR (e_score e) /\ e_pv e <> None /\ 0 <= e_depth e <= 255.

Definition RangeTable (t : table) : Prop := TableAll entry_ok t.
Definition RT (st : sstate) : Prop := RangeTable (s_tbl st).

Lemma RangeTable_empty : RangeTable tempty.
Proof. apply TableAll_empty. Qed.

Lemma RT_poll st : RT st -> RT (poll st).
Proof. apply TableAll_poll. Qed.

Lemma RangeTable_depths t : RangeTable t -> TableDepths t.
Proof. intros H h e Hf. exact (proj2 (proj2 (H h e Hf))). Qed.

Lemma probe_some e remaining a b s :
  probe e remaining a b = Some s -> exists en, e = Some en /\ s = e_score en.
Proof.
  unfold probe. destruct e as [en|]; [|discriminate]. intros H. exists en. split; [reflexivity|].
  destruct (remaining <=? e_depth en); [|discriminate].
  destruct (e_flag en).
  - now injection H as <-.
  - destruct (b <=? e_score en); [now injection H as <- | discriminate].
  - destruct (e_score en <=? a); [now injection H as <- | discriminate].
Qed.

(* ---- the node ------------------------------------------------------------------------------------------------------ *)

Definition node_res (r : outcome Z * sstate) : Prop :=
  match r with
  | (Done s, st') => InR s /\ RT st'
  | (Aborted sa, st') => st' = sa /\ RT sa
  | (OutOfFuel, st') => RT st'
  end.

(* before the first move of the loop / after at least one move *)
Definition LPre (l : lstate) : Prop := RT (l_st l) /\ l_alpha l <= HI /\ l_bscore l = SCORE_MIN.
Definition LPost (l : lstate) : Prop :=
  RT (l_st l) /\ InR (l_alpha l) /\ InR (l_bscore l) /\ l_best l <> None.

Definition lres (o : outcome lstate) : Prop :=
  match o with Done l => LPost l | Aborted sa => RT sa | OutOfFuel => True end.

Definition RPre (r : rstate) : Prop := RT (r_st r) /\ r_bscore r = SCORE_MIN + 1.
Definition RPost (r : rstate) : Prop := RT (r_st r) /\ InR (r_bscore r) /\ r_best r <> None.

Definition rres (o : outcome rstate) : Prop :=
  match o with Done r => RPost r | Aborted sa => RT sa | OutOfFuel => True end.

Ltac post_tac :=
  cbv beta iota zeta; cbn [lres rres]; unfold LPost, RPost;
  cbn [l_st l_alpha l_bscore l_best r_st r_bscore r_best];
  (split; [assumption|]); repeat (split; [rng|]); first [discriminate | assumption].

Section NodeLoop.
  Variable rec : nrec.
  Variable g : game.
  Variables real beta : Z.
  Hypothesis Hbeta : LO <= beta.
  Hypothesis rec_ok : forall m st a b,
    In m (checked_moves g) -> RT st -> Win a b -> node_res (rec (push g m) st (real + 1) a b).

  Lemma node_step_range m index l :
    In m (checked_moves g) -> (index = 0 /\ LPre l) \/ LPost l ->
    lres (node_step rec g real beta m index l).
  Proof.
    intros Hm H. unfold node_step.
    destruct H as [[-> (HT & Ha & Hs)] | (HT & Ha & Hs & Hbm)].
    - change (0 <=? PVS_FULL_WINDOW_LAST_INDEX) with true. cbv iota.
      pose proof (rec_ok m (l_st l) (- beta) (- l_alpha l) Hm HT ltac:(rng)) as H1.
      destruct (rec (push g m) (l_st l) (real + 1) (- beta) (- l_alpha l)) as [[s|sa|] st1];
        cbn [node_res] in H1; cbn [lres].
      + destruct H1 as [Hr HT1]. rewrite Hs.
        assert (E : (SCORE_MIN <? - s) = true) by (apply Z.ltb_lt; rng). rewrite E. post_tac.
      + apply H1.
      + exact I.
    - destruct (index <=? PVS_FULL_WINDOW_LAST_INDEX).
      + pose proof (rec_ok m (l_st l) (- beta) (- l_alpha l) Hm HT ltac:(rng)) as H1.
        destruct (rec (push g m) (l_st l) (real + 1) (- beta) (- l_alpha l)) as [[s|sa|] st1];
          cbn [node_res] in H1; cbn [lres].
        * destruct H1 as [Hr HT1].
          destruct (l_bscore l <? - s); post_tac.
        * apply H1.
        * exact I.
      + pose proof (rec_ok m (l_st l) (- l_alpha l - 1) (- l_alpha l) Hm HT ltac:(rng)) as H1.
        destruct (rec (push g m) (l_st l) (real + 1) (- l_alpha l - 1) (- l_alpha l)) as [[s|sa|] st1];
          cbn [node_res] in H1; cbn [lres].
        * destruct H1 as [Hr HT1]. destruct (l_bscore l <? - s).
          -- pose proof (rec_ok m st1 (- beta) (- - s) Hm HT1 ltac:(rng)) as H2.
             destruct (rec (push g m) st1 (real + 1) (- beta) (- - s)) as [[s2|sa2|] st2];
               cbn [node_res] in H2; cbn [lres].
             ++ destruct H2 as [Hr2 HT2]. post_tac.
             ++ apply H2.
             ++ exact I.
          -- post_tac.
        * apply H1.
        * exact I.
  Qed.

  Lemma node_loop_range remaining : forall ms index l,
    incl ms (checked_moves g) ->
    (index = 0 /\ LPre l /\ ms <> []) \/ LPost l ->
    lres (node_loop rec g real beta remaining ms index l).
  Proof.
    induction ms as [|m rest IH]; intros index l Hincl H.
    - rewrite node_loop_nil. cbn [lres]. destruct H as [(_ & _ & Hne)|H]; [congruence | exact H].
    - rewrite node_loop_cons.
      assert (Hm : In m (checked_moves g)) by (apply Hincl; now left).
      assert (Hstep : lres (node_step rec g real beta m index l)).
      { apply node_step_range; [exact Hm|]. destruct H as [(H1 & H2 & _)|H]; [left; now split | now right]. }
      destruct (node_step rec g real beta m index l) as [l'|sa|]; cbn [lres] in Hstep.
      + destruct (beta <=? l_alpha l').
        * cbn [lres]. unfold node_cutoff, LPost in *. cbn [l_st l_alpha l_bscore l_best]. exact Hstep.
        * apply IH; [intros x Hx; apply Hincl; now right | now right].
      + exact Hstep.
      + exact I.
  Qed.
End NodeLoop.

Theorem node_range : forall rem g st real a b,
  ArgsOK rem real -> GB g -> RT st -> Win a b -> node_res (node rem g st real a b).
Proof.
  induction rem as [|rem IH]; intros g st real a b HA Hg HT Hw; rewrite node_unfold;
    pose proof (RT_poll st HT) as HTp;
    (destruct (s_running (poll st)); cbn [negb]; [|cbn [node_res]; split; [reflexivity | exact HTp]]);
    unfold node_body;
    (destruct (probe (tfind (s_tbl (poll st)) (g_hash g)) _ a b) as [sp|] eqn:Ep;
     [apply probe_some in Ep; destruct Ep as (en & Ef & ->); cbn [node_res]; split;
      [exact (proj1 (HTp _ _ Ef)) | exact HTp] |]);
    pose proof (ArgsOK_range _ _ HA) as HAr.
  - destruct (quiescence QFUEL g a b real) as [s|] eqn:Eq; cbn [lift node_res]; [|exact HTp].
    split; [|exact HTp]. apply (quiescence_range QFUEL g a b real s); try assumption. lia.
  - destruct rem as [|r].
    + destruct (depth1 g a b real) as [s|] eqn:Eq; cbn [lift node_res]; [|exact HTp].
      split; [|exact HTp]. apply (depth1_range g a b real s); try assumption. lia.
    + rewrite node_deep_eq. destruct (checked_moves g) as [|m0 ms0] eqn:Ecm.
      * cbn [node_res]. split; [|exact HTp].
        apply no_move_score_range; [unfold MATE_OFFSET_NODE, MATE_OFFSET_QUIESCENCE; lia | lia].
      * assert (Hincl : incl (node_sorted g (poll st) real) (checked_moves g)).
        { intros x Hx. unfold node_sorted, node_sorted_of in Hx. apply sort_moves_in in Hx. exact Hx. }
        assert (Hne : node_sorted g (poll st) real <> []).
        { intros E. unfold node_sorted, node_sorted_of in E. apply sort_moves_nil in E. congruence. }
        assert (Hrec : forall m st' a' b', In m (checked_moves g) -> RT st' -> Win a' b' ->
                         node_res (node (S r) (push g m) st' (real + 1) a' b')).
        { intros m st' a' b' Hm HT' Hw'. apply IH; try assumption.
          - apply ArgsOK_step. exact HA.
          - now apply GB_push_checked. }
        assert (Hpre : (0 = 0 /\ LPre (mkL a None SCORE_MIN (poll st)) /\ node_sorted g (poll st) real <> [])
                       \/ LPost (mkL a None SCORE_MIN (poll st))).
        { left. split; [reflexivity|]. split; [|exact Hne].
          unfold LPre. cbn [l_st l_alpha l_bscore]. split; [exact HTp|]. split; [exact (proj1 Hw) | reflexivity]. }
        pose proof (node_loop_range (node (S r)) g real b (proj2 Hw) Hrec (Z.of_nat (S (S r)))
                      (node_sorted g (poll st) real) 0 (mkL a None SCORE_MIN (poll st)) Hincl Hpre) as HL.
        destruct (node_loop _ _ _ _ _ _ _ _) as [l|sa|]; cbn [lres] in HL; cbn [node_finish node_res].
        -- destruct HL as (HTl & Hal & Hbl & Hbest).
           split; [exact Hal|]. unfold RT. cbn [with_tbl s_tbl].
           apply TableAll_store_node; [exact HTl|].
           unfold entry_ok. cbn [e_score e_pv e_depth].
           split; [exact Hbl|]. split; [exact Hbest|]. lia.
        -- split; [reflexivity | exact HL].
        -- exact HTp.
Qed.

(* the obligation of SearchInv2.root_best_some about the first full-window child *)
Corollary node_first_child_below_max : forall rem g st real s st',
  ArgsOK rem real -> GB g -> RT st ->
  node rem g st real (SCORE_MIN + 1) SCORE_MAX = (Done s, st') -> SCORE_MIN + 1 < s < SCORE_MAX.
Proof.
  intros rem g st real s st' HA Hg HT E.
  pose proof (node_range rem g st real (SCORE_MIN + 1) SCORE_MAX HA Hg HT ltac:(rng)) as H.
  rewrite E in H. apply InR_below_max. apply H.
Qed.

(* ---- the root ---------------------------------------------------------------------------------------------------------- *)

Lemma root_step_range g rem' m index r :
  GB g -> ArgsOK rem' 1 -> In m (checked_moves g) -> (index = 0 /\ RPre r) \/ RPost r ->
  rres (root_step g rem' m index r).
Proof.
  intros Hg HA Hm H. unfold root_step.
  pose proof (GB_push_checked g m Hg Hm) as Hg1.
  destruct H as [[-> (HT & Hs)] | (HT & Hs & Hbm)].
  - change (0 <=? ROOT_FULL_WINDOW_LAST_INDEX) with true. cbv iota.
    pose proof (node_range rem' (push g m) (r_st r) 1 (SCORE_MIN + 1) (- r_bscore r) HA Hg1 HT ltac:(rng)) as H1.
    destruct (node rem' (push g m) (r_st r) 1 (SCORE_MIN + 1) (- r_bscore r)) as [[s|sa|] st1];
      cbn [node_res] in H1; cbn [rres].
    + destruct H1 as [Hr HT1]. rewrite Hs.
      assert (E : (SCORE_MIN + 1 <? - s) = true) by (apply Z.ltb_lt; rng). rewrite E. post_tac.
    + apply H1.
    + exact I.
  - destruct (index <=? ROOT_FULL_WINDOW_LAST_INDEX).
    + pose proof (node_range rem' (push g m) (r_st r) 1 (SCORE_MIN + 1) (- r_bscore r) HA Hg1 HT ltac:(rng)) as H1.
      destruct (node rem' (push g m) (r_st r) 1 (SCORE_MIN + 1) (- r_bscore r)) as [[s|sa|] st1];
        cbn [node_res] in H1; cbn [rres].
      * destruct H1 as [Hr HT1].
        destruct (r_bscore r <? - s); post_tac.
      * apply H1.
      * exact I.
    + pose proof (node_range rem' (push g m) (r_st r) 1 (- r_bscore r - 1) (- r_bscore r) HA Hg1 HT ltac:(rng)) as H1.
      destruct (node rem' (push g m) (r_st r) 1 (- r_bscore r - 1) (- r_bscore r)) as [[s|sa|] st1];
        cbn [node_res] in H1; cbn [rres].
      * destruct H1 as [Hr HT1]. destruct (r_bscore r <? - s).
        -- pose proof (node_range rem' (push g m) st1 1 (SCORE_MIN + 1) (- - s) HA Hg1 HT1 ltac:(rng)) as H2.
           destruct (node rem' (push g m) st1 1 (SCORE_MIN + 1) (- - s)) as [[s2|sa2|] st2];
             cbn [node_res] in H2; cbn [rres].
           ++ destruct H2 as [Hr2 HT2]. post_tac.
           ++ apply H2.
           ++ exact I.
        -- post_tac.
      * apply H1.
      * exact I.
Qed.

Lemma root_loop_range g rem' :
  GB g -> ArgsOK rem' 1 ->
  forall ms index r, incl ms (checked_moves g) ->
    (index = 0 /\ RPre r /\ ms <> []) \/ RPost r ->
    rres (root_loop g rem' ms index r).
Proof.
  intros Hg HA. induction ms as [|m rest IH]; intros index r Hincl H.
  - rewrite root_loop_nil. cbn [rres]. destruct H as [(_ & _ & Hne)|H]; [congruence | exact H].
  - rewrite root_loop_cons.
    assert (Hm : In m (checked_moves g)) by (apply Hincl; now left).
    assert (Hstep : rres (root_step g rem' m index r)).
    { apply root_step_range; try assumption. destruct H as [(H1 & H2 & _)|H]; [left; now split | now right]. }
    destruct (root_step g rem' m index r) as [r'|sa|]; cbn [rres] in Hstep.
    + apply IH; [intros x Hx; apply Hincl; now right | now right].
    + exact Hstep.
    + exact I.
Qed.

Definition root_res (r : outcome (option Move * Z * bool) * sstate) : Prop :=
  match r with
  | (Done (best, _, _), st') => best <> None /\ RT st'
  | (Aborted sa, st') => st' = sa /\ RT sa
  | (OutOfFuel, st') => True
  end.

Theorem root_range g st depth :
  Z.of_nat depth <= 255 -> GB g -> checked_moves g <> [] -> RT st -> root_res (root g st depth).
Proof.
  intros Hd Hg Hne HT. rewrite root_unfold.
  assert (Hmain : (2 <= length (checked_moves g))%nat -> root_res (root_main g st depth)).
  { intros Hlen. unfold root_main. cbv zeta.
    assert (HT0 : RT (root_clear st)) by exact HT.
    destruct (root_hit (tfind (s_tbl (root_clear st)) (g_hash g)) depth) as [en|] eqn:Eh.
    - apply root_hit_some in Eh. destruct Eh as (E1 & _ & _).
      cbn [root_res]. split; [|exact HT0]. exact (proj1 (proj2 (HT0 _ _ E1))).
    - assert (Hsne : root_sorted g (root_clear st) <> []).
      { intros Esort. unfold root_sorted in Esort. apply sort_moves_nil in Esort.
        pose proof (repetition_filter_length g (checked_moves g)) as HL. rewrite Esort in HL.
        cbn [length] in HL. lia. }
      assert (Hpre : (0 = 0 /\ RPre (mkR None (SCORE_MIN + 1) (root_clear st)) /\ root_sorted g (root_clear st) <> [])
                     \/ RPost (mkR None (SCORE_MIN + 1) (root_clear st))).
      { left. split; [reflexivity|]. split; [|exact Hsne]. split; [exact HT0 | reflexivity]. }
      pose proof (root_loop_range g (pred depth) Hg (ArgsOK_root_nat depth Hd)
                    (root_sorted g (root_clear st)) 0 (mkR None (SCORE_MIN + 1) (root_clear st))
                    (root_sorted_incl' g (root_clear st)) Hpre) as HL.
      destruct (root_loop _ _ _ _ _) as [r|sa|]; cbn [rres] in HL; cbn [root_finish root_res].
      + destruct HL as (HTr & Hsr & Hbr).
        split; [exact Hbr|]. unfold RT. cbn [with_tbl s_tbl].
        apply TableAll_store_root; [exact HTr|].
        unfold entry_ok. cbn [e_score e_pv e_depth].
        split; [exact Hsr|]. split; [exact Hbr|]. lia.
      + split; [reflexivity | exact HL].
      + exact I. }
  destruct (checked_moves g) as [|m [|m' t]] eqn:Ecm.
  - congruence.
  - cbn [root_res]. split; [discriminate | exact HT].
  - apply Hmain. cbn [length]. lia.
Qed.

(* ---- the driver ------------------------------------------------------------------------------------------------------------- *)

Lemma good_root_has_fuel g st k : Good g -> has_fuel (fst (root g st k)).
Proof.
  exact (root_has_fuel Good good_push_checked good_quiescence_total good_depth1_total g st k).
Qed.

Lemma driver_loop_range g :
  GB g -> checked_moves g <> [] ->
  forall n st depth md found lines, RT st -> RT (d_st (driver_loop n g st depth md found lines)).
Proof.
  intros Hg Hne. induction n as [|n IH]; intros st depth md found lines HT; cbn [driver_loop].
  - exact HT.
  - destruct (255 <? depth) eqn:Ed; [exact HT|]. apply Z.ltb_ge in Ed.
    pose proof (root_range g st (Z.to_nat depth) ltac:(lia) Hg Hne HT) as HR.
    pose proof (good_root_has_fuel g st (Z.to_nat depth) (proj1 Hg)) as HF.
    destruct (root g st (Z.to_nat depth)) as [[[[best score] only]|sa|] st1];
      cbn [root_res fst has_fuel] in *.
    + destruct HR as [_ HT1].
      match goal with |- context [if ?c then _ else _] => destruct c end; [exact HT1|].
      now apply IH.
    + destruct HR as [-> HTa]. exact HTa.
    + contradiction.
Qed.

Lemma RangeTable_starting_depth t g : RangeTable t -> 0 <= starting_depth t g <= 255.
Proof. intros H. apply starting_depth_range. now apply RangeTable_depths. Qed.

(* the invariant survives every search of a game that has a legal move *)
Theorem driver_range_table g t limit stop_at tableless :
  GB g -> checked_moves g <> [] -> RangeTable t ->
  RangeTable (s_tbl (d_st (driver g t limit stop_at tableless))).
Proof.
  intros Hg Hne Ht. unfold driver. apply (driver_loop_range g Hg Hne). exact Ht.
Qed.

(* C07: stopped at any poll (or never), a game with a legal move gets a move *)
Theorem C07_answers_when_stopped g t limit N tableless :
  GB g -> RangeTable t -> checked_moves g <> [] ->
  d_move (driver g t limit N tableless) <> None.
Proof.
  intros Hg Ht Hne.
  apply (driver_answers_when_stopped g RT).
  - intros st k best sc only st' Hk HT E.
    pose proof (root_range g st (Z.to_nat k) ltac:(lia) Hg Hne HT) as H. rewrite E in H. exact H.
  - intros st k. apply good_root_has_fuel. exact (proj1 Hg).
  - exact Hne.
  - exact Ht.
  - apply RangeTable_starting_depth. exact Ht.
Qed.

(* C06: "no move" is announced only for a game without legal moves *)
Theorem C06_none_iff_dead g t limit stop_at tableless :
  GB g -> RangeTable t ->
  d_move (driver g t limit stop_at tableless) = None -> checked_moves g = [].
Proof.
  intros Hg Ht E. destruct (checked_moves g) as [|m ms] eqn:Ecm; [reflexivity|].
  exfalso. apply (C07_answers_when_stopped g t limit stop_at tableless Hg Ht); [|exact E].
  rewrite Ecm. discriminate.
Qed.

(* with the legality statement of SearchInv1/Top: the announced move of a game with legal moves *)
Theorem C06_C07_move_legal g t limit stop_at tableless :
  GB g -> RangeTable t -> SoundTable t -> checked_moves g <> [] ->
  exists m, d_move (driver g t limit stop_at tableless) = Some m /\
            (In m (checked_moves g) \/ collision_witness Good g m).
Proof.
  intros Hg Ht Hs Hne.
  destruct (d_move (driver g t limit stop_at tableless)) as [m|] eqn:E.
  - exists m. split; [reflexivity|]. exact (top_driver_move g t limit stop_at tableless m (proj1 Hg) Hs E).
  - exfalso. now apply (C07_answers_when_stopped g t limit stop_at tableless Hg Ht Hne).
Qed.

(* from the empty table (ucinewgame), for the start position and every game played from it *)
Corollary start_answers g limit N tableless :
  played_from START g -> checked_moves g <> [] -> d_move (driver g tempty limit N tableless) <> None.
Proof.
  intros Hp Hne. apply C07_answers_when_stopped; [|apply RangeTable_empty|exact Hne].
  apply (bounded_reachable START g); [exact (legal_reachable_good START start_reachable) | exact start_bounded | exact Hp].
Qed.

Print Assumptions quiescence_range.
Print Assumptions depth1_range.
Print Assumptions node_range.
Print Assumptions node_first_child_below_max.
Print Assumptions root_range.
Print Assumptions driver_range_table.
Print Assumptions C07_answers_when_stopped.
Print Assumptions C06_none_iff_dead.
Print Assumptions C06_C07_move_legal.
Print Assumptions start_answers.
