(* The key tables used by the model are the little-endian 64-bit words of the key file at the
   byte offsets read from src/chess/zobrist.rs (the "published" layout). *)
From Chess Require Import Base.Prelude Gen.Keys.
Open Scope N_scope.

Definition word_at (off : N) : N :=
  fold_right (fun b acc => b + 256 * acc) 0 (firstn 8 (skipn (N.to_nat off) ZOBRIST_BYTES)).

Definition words (off count : N) : list N :=
  map (fun i => word_at (off + 8 * N.of_nat i)) (seq 0 (N.to_nat count)).

Lemma key_black_layout : KEY_BLACK_TO_MOVE = word_at OFFSET_BLACK_TO_MOVE.
Proof. vm_compute. reflexivity. Qed.

Lemma key_empty_layout : KEY_EMPTY_PLACE = word_at OFFSET_EMPTY_PLACE.
Proof. vm_compute. reflexivity. Qed.

Lemma keys_state_layout : KEYS_STATE = words OFFSET_STATE COUNT_STATE.
Proof. vm_compute. reflexivity. Qed.

Lemma keys_piece_layout : KEYS_PIECE = words OFFSET_PIECE COUNT_PIECE.
Proof. vm_compute. reflexivity. Qed.

Lemma key_file_length : length ZOBRIST_BYTES = 8208%nat.
Proof. vm_compute. reflexivity. Qed.

(* all 1026 keys are pairwise distinct *)
Definition all_keys : list N := KEY_BLACK_TO_MOVE :: KEY_EMPTY_PLACE :: KEYS_STATE ++ KEYS_PIECE.

Fixpoint insert_sorted (x : N) (l : list N) : list N :=
  match l with
  | [] => [x]
  | y :: t => if x <=? y then x :: l else y :: insert_sorted x t
  end.
Definition sort_n (l : list N) : list N := fold_right insert_sorted [] l.

Fixpoint strictly_increasing (l : list N) : bool :=
  match l with
  | x :: ((y :: _) as t) => (x <? y) && strictly_increasing t
  | _ => true
  end.

Lemma all_keys_sorted_distinct : strictly_increasing (sort_n all_keys) = true.
Proof. vm_compute. reflexivity. Qed.

Lemma all_keys_count : length all_keys = 1026%nat.
Proof. vm_compute. reflexivity. Qed.
