(* Score ranges, part 1: a material potential per colour that no generated move raises, and the
   range of the maintained score on boards of bounded material.

   [wc c b] = sum, over the squares holding a piece of colour c, of [capk] of its kind, where
   [capk k] bounds every piece-square value of kind k (both king tables, both colours, all 64
   squares) and a pawn is counted as a queen (what it can become).  Captures remove a summand,
   promotions replace a pawn (counted as a queen) by a piece that counts at most as much,
   castling and en passant move or remove pieces: [wc c] never grows along generated moves.
   On a board with [wc White b <= BOUND] and [wc Black b <= BOUND] the evaluation is the white
   part (in [0, BOUND]) plus the black part (in [-BOUND, 0]), so the i16 running score does not
   wrap and lies in [-BOUND, BOUND]. *)
From Coq Require Import Lia.
From Chess Require Import Model.Search Proofs.Grid Proofs.Inv Proofs.Abs Proofs.GenOk Proofs.PushPop Proofs.PushPop2
  Proofs.HashEval Proofs.FenImport1 Proofs.Reach Proofs.Bounds Proofs.BoundsQ.
Open Scope Z_scope.

(* ---- the caps ------------------------------------------------------------------------------------- *)

Definition capk (k : kind) : Z :=
  match k with
  | Queen => 905
  | Rook => 510
  | Bishop => 340
  | Knight => 340
  | Pawn => 905        (* counted as the queen it may become *)
  | King => 20050
  end.

(* every piece-square value, signed by its colour, lies in [0, capk kind]; a closed sweep over the
   generated tables, re-checked whenever they are regenerated *)
Definition cap_sweep : bool :=
  forallb (fun e =>
    forallb (fun p =>
      forallb (fun pc =>
        let v := piece_score e pc p * color_sign (po pc) in
        (0 <=? v) && (v <=? capk (pk pc))) all_pieces) squares64) all_bools.

Lemma cap_sweep_ok : cap_sweep = true.
Proof. vm_compute. reflexivity. Qed.

Lemma piece_score_cap e pc p :
  valid p -> 0 <= piece_score e pc p * color_sign (po pc) <= capk (pk pc).
Proof.
  intros Hv. pose proof cap_sweep_ok as H. unfold cap_sweep in H.
  rewrite forallb_forall in H. specialize (H e (all_bools_complete e)).
  rewrite forallb_forall in H. specialize (H p (proj2 (squares64_valid p) Hv)).
  rewrite forallb_forall in H. specialize (H pc (all_pieces_complete pc)).
  cbv zeta in H. apply andb_true_iff in H. destruct H as [H1 H2].
  apply Z.leb_le in H1, H2. lia.
Qed.

Lemma capk_pos k : 0 < capk k.
Proof. destruct k; cbn [capk]; lia. Qed.

Lemma capk_promo k : promo_kind k -> capk k <= capk Pawn.
Proof. intros [->|[->|[->| ->]]]; cbn [capk]; lia. Qed.

(* ---- the potential ---------------------------------------------------------------------------------- *)

Definition wgt (c : color) (o : option piece) : Z :=
  match o with
  | Some pc => if color_eqb (po pc) c then capk (pk pc) else 0
  | None => 0
  end.

Definition wc (c : color) (b : board) : Z := sum_all (fun p => wgt c (bget b p)).

Lemma wgt_nonneg c o : 0 <= wgt c o.
Proof.
  destruct o as [pc|]; cbn [wgt]; [|lia].
  destruct (color_eqb _ _); [pose proof (capk_pos (pk pc))|]; lia.
Qed.

Lemma wgt_own k c : wgt c (Some (mkPiece k c)) = capk k.
Proof. cbn [wgt po pk]. destruct c; reflexivity. Qed.

Lemma sum_list_le (f h : pos -> Z) l :
  (forall p, In p l -> f p <= h p) ->
  fold_right Z.add 0 (map f l) <= fold_right Z.add 0 (map h l).
Proof.
  induction l as [|x t IH]; intros H; cbn [map fold_right]; [lia|].
  pose proof (H x (or_introl eq_refl)). assert (forall p, In p t -> f p <= h p) by (intros; apply H; now right).
  specialize (IH H1). lia.
Qed.

Lemma sum_all_le f h : (forall p, valid p -> f p <= h p) -> sum_all f <= sum_all h.
Proof.
  intros H. unfold sum_all. apply sum_list_le. intros p Hp. apply H. now apply squares64_valid.
Qed.

Lemma wc_nonneg c b : 0 <= wc c b.
Proof.
  unfold wc. assert (E : sum_all (fun _ => 0) = 0) by (vm_compute; reflexivity).
  rewrite <- E at 1. apply sum_all_le. intros p _. apply wgt_nonneg.
Qed.

Lemma wc_set c b p v :
  wf_grid b -> valid p -> wc c (bset b p v) = wc c b - wgt c (bget b p) + wgt c v.
Proof.
  intros Hwf Hv. unfold wc.
  rewrite (sum_all_update (fun q => wgt c (bget b q)) (fun q => wgt c (bget (bset b p v) q)) p Hv).
  - now rewrite bget_bset_same.
  - intros q Hq. rewrite bget_bset_other by congruence. reflexivity.
Qed.

(* ---- no generated move raises the potential of either colour ----------------------------------------- *)

Theorem wc_push c g m :
  wf_grid (g_board g) -> gen_ok g m -> wc c (g_board (push g m)) <= wc c (g_board g).
Proof.
  intros Hwf Hok. set (b := g_board g) in *.
  destruct m as [pc s e cap | o k s e cap | o | o | o sc ec]; cbn [gen_ok] in *.
  - destruct Hok as (Hs & He & Hne & Hbs & Hbe & _). fold b in Hbs, Hbe.
    rewrite push_board_normal. fold b.
    rewrite wc_set by (try apply wf_bset; assumption).
    rewrite wc_set by assumption.
    rewrite bget_bset_other by assumption. rewrite Hbs, Hbe.
    pose proof (wgt_nonneg c cap). change (wgt c None) with 0. lia.
  - destruct Hok as (_ & Hk & Hs & He & Hne & _ & Hbs & Hbe & _). fold b in Hbs, Hbe.
    rewrite push_board_promotion. fold b.
    rewrite wc_set by (try apply wf_bset; assumption).
    rewrite wc_set by assumption.
    rewrite bget_bset_other by assumption. rewrite Hbs, Hbe.
    pose proof (wgt_nonneg c cap). change (wgt c None) with 0.
    assert (wgt c (Some (mkPiece k o)) <= wgt c (Some (mkPiece Pawn o))).
    { cbn [wgt po pk]. destruct (color_eqb o c); [now apply capk_promo | lia]. }
    lia.
  - destruct Hok as (_ & _ & Hk & Hr & H5 & H6). fold b in Hk, Hr, H5, H6.
    rewrite push_board_short. fold b.
    assert (V : forall x, 0 <= x < 8 -> valid (home_row o, x)) by (intros; now apply home_row_valid).
    rewrite wc_set by (repeat apply wf_bset; try assumption; apply V; lia).
    rewrite wc_set by (repeat apply wf_bset; try assumption; apply V; lia).
    rewrite wc_set by (repeat apply wf_bset; try assumption; apply V; lia).
    rewrite wc_set by (repeat apply wf_bset; try assumption; apply V; lia).
    rewrite !bget_bset_other by (apply pair_neq_snd; lia).
    rewrite Hk, Hr, H5, H6. change (wgt c None) with 0. lia.
  - destruct Hok as (_ & _ & Hk & Hr & H1 & H2 & H3). fold b in Hk, Hr, H1, H2, H3.
    rewrite push_board_long. fold b.
    assert (V : forall x, 0 <= x < 8 -> valid (home_row o, x)) by (intros; now apply home_row_valid).
    rewrite wc_set by (repeat apply wf_bset; try assumption; apply V; lia).
    rewrite wc_set by (repeat apply wf_bset; try assumption; apply V; lia).
    rewrite wc_set by (repeat apply wf_bset; try assumption; apply V; lia).
    rewrite wc_set by (repeat apply wf_bset; try assumption; apply V; lia).
    rewrite !bget_bset_other by (apply pair_neq_snd; lia).
    rewrite Hk, Hr, H2, H3. change (wgt c None) with 0. lia.
  - destruct Hok as (_ & Hsc & Hec & Habs & _ & Hown & Hen & Hemp). fold b in Hown, Hen, Hemp.
    rewrite push_board_ep. fold b.
    destruct (ep_rows_valid o sc Hsc) as [V1 _]. destruct (ep_rows_valid o ec Hec) as [V2 V3].
    assert (Hrows : fst (ep_rows o) <> snd (ep_rows o)) by (destruct o; cbn; lia).
    rewrite wc_set by (repeat apply wf_bset; assumption).
    rewrite wc_set by (repeat apply wf_bset; assumption).
    rewrite wc_set by assumption.
    rewrite !bget_bset_other
      by (first [ apply pair_neq_snd; lia | intros E; apply Hrows; congruence ]).
    rewrite Hown, Hen, Hemp. change (wgt c None) with 0.
    pose proof (wgt_nonneg c (Some (mkPiece Pawn (other o)))). lia.
Qed.

(* ---- bounded material --------------------------------------------------------------------------------- *)

Definition BOUND : Z := 30700.

Definition Bounded (g : game) : Prop :=
  wc White (g_board g) <= BOUND /\ wc Black (g_board g) <= BOUND.

(* what the constant has to satisfy: it leaves room below the lowest and above the highest mate
   score, and in particular inside the i16 range *)
Lemma BOUND_i16 : -32768 < - BOUND /\ BOUND < 32767.
Proof. unfold BOUND. lia. Qed.

Lemma BOUND_below_mates : BOUND <= - (SCORE_MIN + MATE_OFFSET_NODE).
Proof. vm_compute. discriminate. Qed.

Theorem bounded_push g m : RepInv g -> gen_ok g m -> Bounded g -> Bounded (push g m).
Proof.
  intros [Hc _] Hok [Hw Hb].
  pose proof (wc_push White g m (ci_board g Hc) Hok). pose proof (wc_push Black g m (ci_board g Hc) Hok).
  split; lia.
Qed.

Theorem bounded_push_pseudo g m : RepInv g -> In m (pseudo_moves g) -> Bounded g -> Bounded (push g m).
Proof. intros HR Hin. apply bounded_push; [exact HR | now apply gen_ok_pseudo]. Qed.

Theorem bounded_push_checked g m : RepInv g -> In m (checked_moves g) -> Bounded g -> Bounded (push g m).
Proof. intros HR Hin. apply bounded_push; [exact HR | now apply gen_ok_checked]. Qed.

Lemma with_moves_board g l : g_board (with_moves g l) = g_board g.
Proof. reflexivity. Qed.

Lemma bounded_update_phase g : Bounded g -> Bounded (update_phase g).
Proof. unfold Bounded. now rewrite update_phase_board. Qed.

Lemma bounded_with_moves g l : Bounded g -> Bounded (with_moves g l).
Proof. unfold Bounded. now rewrite with_moves_board. Qed.

Theorem bounded_push_history g m :
  RepInv g -> In m (checked_moves g) -> Bounded g -> Bounded (push_history g m).
Proof.
  intros HR Hin HB. unfold push_history.
  set (g' := update_phase (with_moves g (m :: g_moves g))).
  assert (HR' : RepInv g') by (apply update_phase_repinv, with_moves_repinv, HR).
  assert (HB' : Bounded g') by (apply bounded_update_phase, bounded_with_moves, HB).
  apply bounded_push; [exact HR' | | exact HB'].
  apply (gen_ok_core g g' m (push_history_core g m)). now apply gen_ok_checked.
Qed.

(* closure along play: bounded at the start, bounded ever after *)
Inductive played_from (g0 : game) : game -> Prop :=
| pf_refl : played_from g0 g0
| pf_hist g m : played_from g0 g -> In m (checked_moves g) -> played_from g0 (push_history g m)
| pf_push g m : played_from g0 g -> In m (pseudo_moves g) -> played_from g0 (push g m).

Theorem bounded_reachable g0 g :
  Good g0 -> Bounded g0 -> played_from g0 g -> Good g /\ Bounded g.
Proof.
  intros Hg0 Hb0 H. induction H as [|g m _ [Hg Hb] Hin|g m _ [Hg Hb] Hin].
  - split; assumption.
  - split; [now apply good_push_history | apply bounded_push_history; try assumption; exact (proj1 Hg)].
  - split; [now apply good_push | apply bounded_push_pseudo; try assumption; exact (proj1 Hg)].
Qed.

(* ---- the instances ---------------------------------------------------------------------------------------- *)

Example start_wc : wc White (g_board START) = 30575 /\ wc Black (g_board START) = 30575.
Proof. vm_compute. split; reflexivity. Qed.

Example start_bounded : Bounded START.
Proof. unfold Bounded. destruct start_wc as [-> ->]. unfold BOUND. lia. Qed.

Example kiwipete_bounded : Bounded KIWIPETE.
Proof. unfold Bounded, BOUND. split; vm_compute; discriminate. Qed.

(* the bound is about material: sixteen men of the initial array per side, every pawn promoted
   to a queen, fit; a tenth queen in addition to the initial array does not *)
Lemma BOUND_initial_array : capk King + capk Queen + 2 * capk Rook + 2 * capk Bishop + 2 * capk Knight
                            + 8 * capk Pawn <= BOUND.
Proof. vm_compute. discriminate. Qed.

(* ---- the score of a bounded game ---------------------------------------------------------------------------- *)

Lemma cell_score_range e o p :
  valid p -> - wgt Black o <= cell_score e o p <= wgt White o.
Proof.
  intros Hv. destruct o as [pc|]; cbn [cell_score wgt]; [|lia].
  pose proof (piece_score_cap e pc p Hv) as H. pose proof (capk_pos (pk pc)).
  destruct pc as [k c]. cbn [po pk] in *. destruct c; cbn [color_eqb color_sign] in *; lia.
Qed.

Theorem board_sum_range e b : - wc Black b <= board_sum e b <= wc White b.
Proof.
  unfold board_sum, wc. split.
  - rewrite <- sum_all_opp. apply sum_all_le. intros p Hv. apply (cell_score_range e _ p Hv).
  - apply sum_all_le. intros p Hv. apply (cell_score_range e _ p Hv).
Qed.

(* no wrap: the running score of a bounded game IS the board sum *)
Theorem bounded_score_exact g : CacheInv g -> Bounded g -> g_score g = board_sum (g_kend g) (g_board g).
Proof.
  intros Hc [Hw Hb]. pose proof (board_sum_range (g_kend g) (g_board g)) as H.
  pose proof BOUND_i16.
  apply cong16_eq; [exact (ci_score_rng g Hc) | unfold in_i16; lia | exact (ci_score g Hc)].
Qed.

Theorem bounded_score_range g : CacheInv g -> Bounded g -> - BOUND <= g_score g <= BOUND.
Proof.
  intros Hc HB. rewrite (bounded_score_exact g Hc HB). destruct HB as [Hw Hb].
  pose proof (board_sum_range (g_kend g) (g_board g)). lia.
Qed.

(* sharper: the score is between minus Black's material and White's *)
Theorem bounded_score_sides g :
  CacheInv g -> Bounded g -> - wc Black (g_board g) <= g_score g <= wc White (g_board g).
Proof. intros Hc HB. rewrite (bounded_score_exact g Hc HB). apply board_sum_range. Qed.

Theorem bounded_standpat_range g :
  CacheInv g -> Bounded g -> - BOUND <= g_score g * color_sign (g_player g) <= BOUND.
Proof.
  intros Hc HB. pose proof (bounded_score_range g Hc HB). destruct (g_player g); cbn [color_sign]; lia.
Qed.

Print Assumptions wc_push.
Print Assumptions bounded_push_history.
Print Assumptions bounded_reachable.
Print Assumptions start_bounded.
Print Assumptions kiwipete_bounded.
Print Assumptions bounded_score_exact.
Print Assumptions bounded_score_range.
Print Assumptions bounded_standpat_range.
