(* Structural invariants of the search model (Model/Search.v), part 2:
   stop behaviour (C07), fuel, iteration trace of the driver and the depth limit (C08),
   argument ranges, principal variation (C18). *)
From Coq Require Import Lia Permutation FSets.FMapPositive.
From Chess Require Import Model.Search Proofs.Grid Proofs.SearchInv1.

Open Scope Z_scope.

(* ---- projections through the state updates ------------------------------------------------------ *)

Lemma poll_after : forall st, s_after (poll st) = if s_stopped st then s_after st + 1 else s_after st.
Proof. reflexivity. Qed.
Lemma poll_stopped : forall st,
  s_stopped (poll st) = if s_stop_at st =? s_polls st then true else s_stopped st.
Proof. reflexivity. Qed.
Lemma poll_running : forall st,
  s_running (poll st) = if s_stop_at st =? s_polls st then false else s_running st.
Proof. reflexivity. Qed.
Lemma poll_polls : forall st, s_polls (poll st) = s_polls st + 1.
Proof. reflexivity. Qed.
Lemma poll_stop_at : forall st, s_stop_at (poll st) = s_stop_at st.
Proof. reflexivity. Qed.

(* a state predicate that only looks at the hook fields is preserved by the three updates *)
Definition hook_only (P : sstate -> Prop) : Prop :=
  forall st st', s_running st' = s_running st -> s_polls st' = s_polls st ->
                 s_stop_at st' = s_stop_at st -> s_stopped st' = s_stopped st ->
                 s_after st' = s_after st -> P st -> P st'.

Section HookOnly.
  Variable Good : game -> Prop.
  Hypothesis Good_push : forall g m, Good g -> In m (checked_moves g) -> Good (push g m).
  Variables P Qa : sstate -> Prop.
  Hypothesis P_hook : hook_only P.
  Hypothesis P_poll : forall st, P st -> if s_running (poll st) then P (poll st) else Qa (poll st).

  Let AT (_ : nat) (_ : Z) : Prop := True.

  Lemma hook_node_post : forall rem g st real a b,
    Good g -> P st -> node_post P Qa (node rem g st real a b).
  Proof.
    intros. apply (node_inv Good Good_push AT P Qa); try assumption; try exact I.
    - intros; exact I.
    - intros rem0 real0 st0 m _ HH. revert HH. apply P_hook; reflexivity.
    - intros rem0 real0 st0 m _ HH. revert HH. apply P_hook; reflexivity.
    - intros rem0 real0 g0 st0 sc ob fl _ _ HH _. revert HH. apply P_hook; reflexivity.
  Qed.

  Lemma hook_root_post : forall g st depth,
    Good g -> P st -> root_post P Qa g st depth (root g st depth).
  Proof.
    intros. apply (root_inv Good Good_push AT P Qa); try assumption; try exact I.
    - intros; exact I.
    - intros rem0 real0 st0 m _ HH. revert HH. apply P_hook; reflexivity.
    - intros rem0 real0 st0 m _ HH. revert HH. apply P_hook; reflexivity.
    - intros rem0 real0 g0 st0 sc ob fl _ _ HH _. revert HH. apply P_hook; reflexivity.
    - intros st0 HH. revert HH. apply P_hook; reflexivity.
    - intros depth0 g0 st0 sc ob _ _ HH _. revert HH. apply P_hook; reflexivity.
  Qed.

  Lemma hook_driver_loop : forall g n st depth md found lines,
    Good g -> P st ->
    P (d_st (driver_loop n g st depth md found lines)) \/
    Qa (d_st (driver_loop n g st depth md found lines)).
  Proof.
    intros g n st depth md found lines Hg HP.
    apply (driver_loop_inv Good Good_push AT P Qa) with (M := fun _ => True); try assumption; try exact I.
    - intros; exact I.
    - intros rem0 real0 st0 m _ HH. revert HH. apply P_hook; reflexivity.
    - intros rem0 real0 st0 m _ HH. revert HH. apply P_hook; reflexivity.
    - intros rem0 real0 g0 st0 sc ob fl _ _ HH _. revert HH. apply P_hook; reflexivity.
    - intros st0 HH. revert HH. apply P_hook; reflexivity.
    - intros depth0 g0 st0 sc ob _ _ HH _. revert HH. apply P_hook; reflexivity.
    - intros; exact I.
    - intros; exact I.
    - intros; exact I.
  Qed.
End HookOnly.

(* ---- B. stop behaviour (C07) ---------------------------------------------------------------------- *)

Section Stop.
  Variable Good : game -> Prop.
  Hypothesis Good_push : forall g m, Good g -> In m (checked_moves g) -> Good (push g m).

  (* B5: no poll happens after the poll at which the hook cleared the flag *)
  Definition NotStopped (st : sstate) : Prop := s_stopped st = false /\ s_after st = 0.
  Definition StoppedClean (st : sstate) : Prop := s_running st = false /\ s_after st = 0.

  Lemma NotStopped_hook : hook_only NotStopped.
  Proof. intros st st' _ _ _ E1 E2 [H1 H2]. split; congruence. Qed.

  Lemma NotStopped_poll : forall st,
    NotStopped st -> if s_running (poll st) then NotStopped (poll st) else StoppedClean (poll st).
  Proof.
    intros st [H1 H2].
    assert (Ha : s_after (poll st) = 0) by (rewrite poll_after, H1; exact H2).
    destruct (s_running (poll st)) eqn:Er.
    - split; [|exact Ha]. rewrite poll_stopped. rewrite poll_running in Er.
      destruct (s_stop_at st =? s_polls st); [discriminate|exact H1].
    - split; [exact Er|exact Ha].
  Qed.

  Theorem node_stop_post : forall rem g st real a b,
    Good g -> NotStopped st -> node_post NotStopped StoppedClean (node rem g st real a b).
  Proof.
    intros. apply (hook_node_post Good Good_push NotStopped StoppedClean NotStopped_hook NotStopped_poll);
      assumption.
  Qed.

  Theorem no_poll_after_stop : forall rem g st real a b,
    Good g -> s_stopped st = false -> s_after st = 0 ->
    s_after (snd (node rem g st real a b)) = 0.
  Proof.
    intros rem g st real a b Hg H1 H2.
    pose proof (node_stop_post rem g st real a b Hg (conj H1 H2)) as H.
    destruct (node rem g st real a b) as [[s|sa|] st']; cbn [node_post snd] in *.
    - apply H.
    - destruct H as [-> H]. apply H.
    - apply H.
  Qed.

  (* a result other than [Aborted] leaves the hook untriggered; [Aborted] carries a state whose flag is down *)
  Theorem node_done_not_stopped : forall rem g st real a b s st',
    Good g -> s_stopped st = false -> s_after st = 0 ->
    node rem g st real a b = (Done s, st') -> s_stopped st' = false /\ s_after st' = 0.
  Proof.
    intros rem g st real a b s st' Hg H1 H2 E.
    pose proof (node_stop_post rem g st real a b Hg (conj H1 H2)) as H. rewrite E in H. exact H.
  Qed.

  Theorem node_aborted_clean : forall rem g st real a b sa st',
    Good g -> s_stopped st = false -> s_after st = 0 ->
    node rem g st real a b = (Aborted sa, st') -> st' = sa /\ s_running sa = false /\ s_after sa = 0.
  Proof.
    intros rem g st real a b sa st' Hg H1 H2 E.
    pose proof (node_stop_post rem g st real a b Hg (conj H1 H2)) as H. rewrite E in H. exact H.
  Qed.

  Theorem root_no_poll_after_stop : forall g st depth,
    Good g -> s_stopped st = false -> s_after st = 0 ->
    s_after (snd (root g st depth)) = 0.
  Proof.
    intros g st depth Hg H1 H2.
    pose proof (hook_root_post Good Good_push NotStopped StoppedClean NotStopped_hook NotStopped_poll
                  g st depth Hg (conj H1 H2)) as H.
    destruct (root g st depth) as [[[[best sc] only]|sa|] st']; cbn [root_post snd] in *.
    - apply H.
    - destruct H as [-> H]. apply H.
    - apply H.
  Qed.

  Theorem driver_no_poll_after_stop : forall g t limit stop_at tableless,
    Good g -> s_after (d_st (driver g t limit stop_at tableless)) = 0.
  Proof.
    intros g t limit stop_at tableless Hg. unfold driver.
    assert (H0 : NotStopped (fresh_state t stop_at tableless)) by (split; reflexivity).
    pose proof (hook_driver_loop Good Good_push NotStopped StoppedClean NotStopped_hook NotStopped_poll
                  g 256 (fresh_state t stop_at tableless) (starting_depth t g) limit None [] Hg H0) as H.
    revert H. generalize (driver_loop 256 g (fresh_state t stop_at tableless) (starting_depth t g) limit None []).
    intros r [H|H]; apply H.
  Qed.

  (* the poll counter: with [stop_at = N >= 0] at most N + 1 polls happen in total *)
  Definition PollsBelow (N : Z) (st : sstate) : Prop :=
    s_stop_at st = N /\ s_stopped st = false /\ s_polls st <= N.
  Definition PollsDone (N : Z) (st : sstate) : Prop :=
    s_stop_at st = N /\ s_polls st <= N + 1.

  Lemma PollsBelow_hook : forall N, hook_only (PollsBelow N).
  Proof. intros N st st' _ E1 E2 E3 _ (H1 & H2 & H3). repeat split; congruence. Qed.

  Lemma PollsBelow_poll : forall N st,
    PollsBelow N st -> if s_running (poll st) then PollsBelow N (poll st) else PollsDone N (poll st).
  Proof.
    intros N st (H1 & H2 & H3).
    destruct (s_running (poll st)) eqn:Er.
    - rewrite poll_running in Er. unfold PollsBelow.
      rewrite poll_stop_at, poll_stopped, poll_polls.
      destruct (s_stop_at st =? s_polls st) eqn:Eh; [discriminate|].
      apply Z.eqb_neq in Eh. repeat split; try assumption. lia.
    - unfold PollsDone. rewrite poll_stop_at, poll_polls. split; [assumption|lia].
  Qed.

  Theorem driver_polls_bounded : forall g t limit N tableless,
    Good g -> 0 <= N -> s_polls (d_st (driver g t limit N tableless)) <= N + 1.
  Proof.
    intros g t limit N tableless Hg HN. unfold driver.
    assert (H0 : PollsBelow N (fresh_state t N tableless)) by (split; [reflexivity|split; [reflexivity|exact HN]]).
    pose proof (hook_driver_loop Good Good_push (PollsBelow N) (PollsDone N) (PollsBelow_hook N)
                  (PollsBelow_poll N) g 256 (fresh_state t N tableless) (starting_depth t g) limit None []
                  Hg H0) as H.
    revert H. generalize (driver_loop 256 g (fresh_state t N tableless) (starting_depth t g) limit None []).
    intros r [(H1 & H2 & H3)|(H1 & H2)]; lia.
  Qed.

  (* never stopped: with the hook disabled and the flag up, nothing ever returns [Aborted] *)
  Definition NeverStops (st : sstate) : Prop :=
    s_running st = true /\ s_stop_at st < 0 /\ 0 <= s_polls st.

  Lemma NeverStops_hook : hook_only NeverStops.
  Proof. intros st st' E1 E2 E3 _ _ (H1 & H2 & H3). repeat split; congruence. Qed.

  Lemma NeverStops_poll : forall st,
    NeverStops st -> if s_running (poll st) then NeverStops (poll st) else False.
  Proof.
    intros st (H1 & H2 & H3).
    assert (Eh : (s_stop_at st =? s_polls st) = false) by (apply Z.eqb_neq; lia).
    assert (Er : s_running (poll st) = true) by (rewrite poll_running, Eh; exact H1).
    rewrite Er. unfold NeverStops. rewrite Er, poll_stop_at, poll_polls. repeat split; [assumption|lia].
  Qed.

  Theorem node_never_aborts : forall rem g st real a b,
    Good g -> NeverStops st ->
    NeverStops (snd (node rem g st real a b)) /\
    forall sa, fst (node rem g st real a b) <> Aborted sa.
  Proof.
    intros rem g st real a b Hg H0.
    pose proof (hook_node_post Good Good_push NeverStops (fun _ => False) NeverStops_hook NeverStops_poll
                  rem g st real a b Hg H0) as H.
    destruct (node rem g st real a b) as [[s|sa|] st']; cbn [node_post snd fst] in *.
    - split; [exact H|discriminate].
    - destruct H as [_ []].
    - split; [exact H|discriminate].
  Qed.

  Theorem root_never_aborts : forall g st depth,
    Good g -> NeverStops st ->
    NeverStops (snd (root g st depth)) /\ forall sa, fst (root g st depth) <> Aborted sa.
  Proof.
    intros g st depth Hg H0.
    pose proof (hook_root_post Good Good_push NeverStops (fun _ => False) NeverStops_hook NeverStops_poll
                  g st depth Hg H0) as H.
    destruct (root g st depth) as [[[[best sc] only]|sa|] st']; cbn [root_post snd fst] in *.
    - split; [apply H|discriminate].
    - destruct H as [_ []].
    - split; [exact H|discriminate].
  Qed.
End Stop.

Print Assumptions no_poll_after_stop.
Print Assumptions node_aborted_clean.
Print Assumptions root_no_poll_after_stop.
Print Assumptions driver_no_poll_after_stop.
Print Assumptions driver_polls_bounded.
Print Assumptions root_never_aborts.

(* ---- fuel: [OutOfFuel] is never produced ------------------------------------------------------------ *)

Definition has_fuel {A : Type} (o : outcome A) : Prop :=
  match o with OutOfFuel => False | _ => True end.

Section Fuel.
  Variable Good : game -> Prop.
  Hypothesis Good_push : forall g m, Good g -> In m (checked_moves g) -> Good (push g m).
  (* proved elsewhere: the fuel of the quiescence search suffices on good games *)
  Hypothesis quiescence_total : forall g a b r, Good g -> quiescence QFUEL g a b r <> None.
  Hypothesis depth1_total : forall g a b r, Good g -> depth1 g a b r <> None.

  Lemma node_step_fuel : forall (rec : nrec) g real beta m index l,
    (forall g' st real' a b, Good g' -> has_fuel (fst (rec g' st real' a b))) ->
    Good g -> In m (checked_moves g) -> has_fuel (node_step rec g real beta m index l).
  Proof.
    intros rec g real beta m index l Hrec Hg Hm. unfold node_step.
    assert (Hg1 : Good (push g m)) by (apply Good_push; assumption).
    destruct (index <=? PVS_FULL_WINDOW_LAST_INDEX).
    - pose proof (Hrec (push g m) (l_st l) (real + 1) (- beta) (- l_alpha l) Hg1) as H1.
      destruct (rec (push g m) (l_st l) (real + 1) (- beta) (- l_alpha l)) as [[s|sa|] st1];
        cbn [fst has_fuel] in *; try exact I; try contradiction.
      destruct (l_bscore l <? - s); exact I.
    - pose proof (Hrec (push g m) (l_st l) (real + 1) (- l_alpha l - 1) (- l_alpha l) Hg1) as H1.
      destruct (rec (push g m) (l_st l) (real + 1) (- l_alpha l - 1) (- l_alpha l)) as [[s|sa|] st1];
        cbn [fst has_fuel] in *; try exact I; try contradiction.
      destruct (l_bscore l <? - s); [|exact I].
      pose proof (Hrec (push g m) st1 (real + 1) (- beta) (- - s) Hg1) as H2.
      destruct (rec (push g m) st1 (real + 1) (- beta) (- - s)) as [[s2|sa2|] st2];
        cbn [fst has_fuel] in *; try exact I; try contradiction.
  Qed.

  Lemma node_loop_fuel : forall (rec : nrec) g real beta remaining,
    (forall g' st real' a b, Good g' -> has_fuel (fst (rec g' st real' a b))) ->
    Good g -> forall ms index l, incl ms (checked_moves g) ->
    has_fuel (node_loop rec g real beta remaining ms index l).
  Proof.
    intros rec g real beta remaining Hrec Hg. induction ms as [|m rest IH]; intros index l Hincl.
    - exact I.
    - rewrite node_loop_cons.
      assert (Hm : In m (checked_moves g)) by (apply Hincl; left; reflexivity).
      pose proof (node_step_fuel rec g real beta m index l Hrec Hg Hm) as Hs.
      destruct (node_step rec g real beta m index l) as [l'|sa|]; cbn [has_fuel] in *;
        try exact I; try contradiction.
      destruct (beta <=? l_alpha l'); [exact I|].
      apply IH. intros x Hx. apply Hincl. right. exact Hx.
  Qed.

  Theorem node_has_fuel : forall rem g st real a b,
    Good g -> has_fuel (fst (node rem g st real a b)).
  Proof.
    induction rem as [|rem IH]; intros g st real a b Hg; rewrite node_unfold;
      (destruct (negb (s_running (poll st))); [exact I|]);
      unfold node_body; (destruct (probe _ _ _ _); [exact I|]).
    - pose proof (quiescence_total g a b real Hg) as H.
      destruct (quiescence QFUEL g a b real); [exact I|congruence].
    - destruct rem as [|r].
      + pose proof (depth1_total g a b real Hg) as H.
        destruct (depth1 g a b real); [exact I|congruence].
      + rewrite node_deep_eq. destruct (checked_moves g) eqn:Ecm; [exact I|].
        assert (Hincl : incl (node_sorted g (poll st) real) (checked_moves g)).
        { intros x Hx. unfold node_sorted, node_sorted_of in Hx. apply sort_moves_in in Hx. exact Hx. }
        pose proof (node_loop_fuel (node (S r)) g real b (Z.of_nat (S (S r))) IH Hg
                      (node_sorted g (poll st) real) 0 (mkL a None SCORE_MIN (poll st)) Hincl) as HL.
        destruct (node_loop _ _ _ _ _ _ _ _) as [l'|sa|]; cbn [has_fuel node_finish fst] in *;
          try exact I; contradiction.
  Qed.

  Lemma root_step_fuel : forall g rem' m index r,
    Good g -> In m (checked_moves g) -> has_fuel (root_step g rem' m index r).
  Proof.
    intros g rem' m index r Hg Hm. unfold root_step.
    assert (Hg1 : Good (push g m)) by (apply Good_push; assumption).
    destruct (index <=? ROOT_FULL_WINDOW_LAST_INDEX).
    - pose proof (node_has_fuel rem' (push g m) (r_st r) 1 (SCORE_MIN + 1) (- r_bscore r) Hg1) as H1.
      destruct (node rem' (push g m) (r_st r) 1 (SCORE_MIN + 1) (- r_bscore r)) as [[s|sa|] st1];
        cbn [fst has_fuel] in *; try exact I; try contradiction.
      destruct (r_bscore r <? - s); exact I.
    - pose proof (node_has_fuel rem' (push g m) (r_st r) 1 (- r_bscore r - 1) (- r_bscore r) Hg1) as H1.
      destruct (node rem' (push g m) (r_st r) 1 (- r_bscore r - 1) (- r_bscore r)) as [[s|sa|] st1];
        cbn [fst has_fuel] in *; try exact I; try contradiction.
      destruct (r_bscore r <? - s); [|exact I].
      pose proof (node_has_fuel rem' (push g m) st1 1 (SCORE_MIN + 1) (- - s) Hg1) as H2.
      destruct (node rem' (push g m) st1 1 (SCORE_MIN + 1) (- - s)) as [[s2|sa2|] st2];
        cbn [fst has_fuel] in *; try exact I; try contradiction.
  Qed.

  Lemma root_loop_fuel : forall g rem', Good g -> forall ms index r,
    incl ms (checked_moves g) -> has_fuel (root_loop g rem' ms index r).
  Proof.
    intros g rem' Hg. induction ms as [|m rest IH]; intros index r Hincl.
    - exact I.
    - rewrite root_loop_cons.
      assert (Hm : In m (checked_moves g)) by (apply Hincl; left; reflexivity).
      pose proof (root_step_fuel g rem' m index r Hg Hm) as Hs.
      destruct (root_step g rem' m index r) as [r'|sa|]; cbn [has_fuel] in *;
        try exact I; try contradiction.
      apply IH. intros x Hx. apply Hincl. right. exact Hx.
  Qed.

  Lemma root_sorted_incl' : forall g st, incl (root_sorted g st) (checked_moves g).
  Proof.
    intros g st x Hx. unfold root_sorted in Hx. apply sort_moves_in in Hx.
    apply (repetition_filter_incl g _ x Hx).
  Qed.

  Theorem root_has_fuel : forall g st depth, Good g -> has_fuel (fst (root g st depth)).
  Proof.
    intros g st depth Hg. rewrite root_unfold.
    assert (Hm : has_fuel (fst (root_main g st depth))).
    { unfold root_main. cbv zeta. destruct (root_hit _ _); [exact I|].
      pose proof (root_loop_fuel g (pred depth) Hg (root_sorted g (root_clear st)) 0
                    (mkR None (SCORE_MIN + 1) (root_clear st)) (root_sorted_incl' _ _)) as HL.
      destruct (root_loop _ _ _ _ _) as [r'|sa|]; cbn [has_fuel root_finish fst] in *;
        try exact I; contradiction. }
    destruct (checked_moves g) as [|m [|m' t]]; [exact Hm|exact I|exact Hm].
  Qed.

  Lemma driver_loop_fuel_ok : forall g n st depth md found lines,
    Good g -> d_fuel_ok (driver_loop n g st depth md found lines) = true.
  Proof.
    intros g. induction n as [|n IH]; intros st depth md found lines Hg; cbn [driver_loop].
    - reflexivity.
    - destruct (255 <? depth); [reflexivity|].
      pose proof (root_has_fuel g st (Z.to_nat depth) Hg) as HR.
      destruct (root g st (Z.to_nat depth)) as [[[[best score] only]|sa|] st1]; cbn [fst has_fuel] in HR.
      + match goal with |- context [if ?c then _ else _] => destruct c end; [reflexivity|].
        apply IH. exact Hg.
      + reflexivity.
      + contradiction.
  Qed.

  Theorem driver_fuel_ok : forall g t limit stop_at tableless,
    Good g -> d_fuel_ok (driver g t limit stop_at tableless) = true.
  Proof. intros. unfold driver. apply driver_loop_fuel_ok. assumption. Qed.
End Fuel.

Print Assumptions node_has_fuel.
Print Assumptions root_has_fuel.
Print Assumptions driver_fuel_ok.

(* ---- the iteration trace of the driver ---------------------------------------------------------------- *)

Inductive iter_end := IDone (best : option Move) (score : Z) (only : bool) | IAborted | IFuel.

Definition iter_of (o : outcome (option Move * Z * bool)) : iter_end :=
  match o with
  | Done (b, s, o) => IDone b s o
  | Aborted _ => IAborted
  | OutOfFuel => IFuel
  end.

Definition exit_test (md : option Z) (depth : Z) (only : bool) (score : Z) : bool :=
  (match md with Some d => d <=? depth | None => false end)
  || only || (SCORE_MAX - EXIT_BAND_HIGH <? score) || (score <? SCORE_MIN + EXIT_BAND_LOW).

(* one iteration: its depth, the state it started from, how it ended *)
Record iter := mkIt { it_depth : Z; it_st : sstate; it_end : iter_end }.

Fixpoint driver_trace (n : nat) (g : game) (st : sstate) (depth : Z) (md : option Z) : list iter :=
  match n with
  | O => []
  | S n' =>
      if 255 <? depth then []
      else
        match root g st (Z.to_nat depth) with
        | (Done (best, score, only), st1) =>
            mkIt depth st (IDone best score only) ::
            (if exit_test md depth only score then [] else driver_trace n' g st1 (depth + 1) md)
        | (Aborted _, _) => [mkIt depth st IAborted]
        | (OutOfFuel, _) => [mkIt depth st IFuel]
        end
  end.

Definition fallback (g : game) (found : option Move) : option Move :=
  match found with
  | Some _ => found
  | None => match checked_moves g with m :: _ => Some m | [] => None end
  end.

(* the announced move as a function of the trace: the best move of the last completed iteration;
   after an abort the last completed best move or, if none, the first checked move *)
Fixpoint final_move (g : game) (found : option Move) (tr : list iter) : option Move :=
  match tr with
  | [] => found
  | it :: rest =>
      match it_end it with
      | IDone b _ _ => final_move g b rest
      | IAborted => fallback g found
      | IFuel => found
      end
  end.

(* every record of the trace is a call of [root] made by the driver, at depth <= 255 *)
Theorem driver_trace_calls : forall g md n st depth it,
  In it (driver_trace n g st depth md) ->
  it_end it = iter_of (fst (root g (it_st it) (Z.to_nat (it_depth it)))) /\ it_depth it <= 255.
Proof.
  intros g md. induction n as [|n IH]; intros st depth it Hin; cbn [driver_trace] in Hin; [destruct Hin|].
  destruct (255 <? depth) eqn:Ed; [destruct Hin|]. apply Z.ltb_ge in Ed.
  destruct (root g st (Z.to_nat depth)) as [[[[best score] only]|sa|] st1] eqn:ER.
  - destruct Hin as [<-|Hin].
    + cbn [it_end it_st it_depth]. rewrite ER. split; [reflexivity|exact Ed].
    + destruct (exit_test md depth only score); [destruct Hin|]. apply (IH _ _ _ Hin).
  - destruct Hin as [<-|[]]. cbn [it_end it_st it_depth]. rewrite ER. split; [reflexivity|exact Ed].
  - destruct Hin as [<-|[]]. cbn [it_end it_st it_depth]. rewrite ER. split; [reflexivity|exact Ed].
Qed.

(* the trace describes [driver_loop]: announced move and fuel flag *)
Theorem driver_loop_move : forall g md n st depth found lines,
  d_move (driver_loop n g st depth md found lines) = final_move g found (driver_trace n g st depth md).
Proof.
  intros g md. induction n as [|n IH]; intros st depth found lines; cbn [driver_loop driver_trace].
  - reflexivity.
  - destruct (255 <? depth); [reflexivity|].
    destruct (root g st (Z.to_nat depth)) as [[[[best score] only]|sa|] st1].
    + cbn [final_move it_end]. fold (exit_test md depth only score).
      destruct (exit_test md depth only score); [reflexivity|]. apply IH.
    + reflexivity.
    + reflexivity.
Qed.

Definition zseq (d : Z) (n : nat) : list Z := map (fun i => d + Z.of_nat i) (seq 0 n).

Lemma zseq_S : forall d n, zseq d (S n) = d :: zseq (d + 1) n.
Proof.
  intros d n. unfold zseq. cbn [seq map]. f_equal; [lia|].
  rewrite <- seq_shift, map_map. apply map_ext. intros i. lia.
Qed.

(* depths go up by one *)
Theorem driver_trace_depths : forall g md n st depth,
  map it_depth (driver_trace n g st depth md) = zseq depth (length (driver_trace n g st depth md)).
Proof.
  intros g md. induction n as [|n IH]; intros st depth; cbn [driver_trace]; [reflexivity|].
  destruct (255 <? depth); [reflexivity|].
  destruct (root g st (Z.to_nat depth)) as [[[[best score] only]|sa|] st1].
  - cbn [map length it_depth]. rewrite zseq_S. f_equal.
    destruct (exit_test md depth only score); [reflexivity|]. apply IH.
  - cbn [map length it_depth]. rewrite zseq_S. reflexivity.
  - cbn [map length it_depth]. rewrite zseq_S. reflexivity.
Qed.

Lemma in_removelast_cons : forall (A : Type) (a x : A) (l : list A),
  In x (removelast (a :: l)) -> x = a \/ In x (removelast l).
Proof.
  intros A a x l H. destruct l as [|b l']; [destruct H|].
  change (removelast (a :: b :: l')) with (a :: removelast (b :: l')) in H.
  destruct H as [<-|H]; [left; reflexivity|right; exact H].
Qed.

(* every iteration but the last completed and did not meet the exit test *)
Theorem driver_trace_inner : forall g md n st depth it,
  In it (removelast (driver_trace n g st depth md)) ->
  exists b s o, it_end it = IDone b s o /\ exit_test md (it_depth it) o s = false.
Proof.
  intros g md. induction n as [|n IH]; intros st depth it Hin; cbn [driver_trace] in Hin; [destruct Hin|].
  destruct (255 <? depth); [destruct Hin|].
  destruct (root g st (Z.to_nat depth)) as [[[[best score] only]|sa|] st1]; [|destruct Hin|destruct Hin].
  destruct (exit_test md depth only score) eqn:Ex; [destruct Hin|].
  apply in_removelast_cons in Hin. destruct Hin as [->|Hin].
  - exists best, score, only. split; [reflexivity|exact Ex].
  -       apply (IH _ _ _ Hin).
Qed.

(* ---- C. depth limit and termination (C08) -------------------------------------------------------------- *)

Lemma exit_test_limit : forall d depth only score,
  exit_test (Some d) depth only score = false -> depth < d.
Proof.
  intros d depth only score H. unfold exit_test in H.
  destruct (d <=? depth) eqn:E; [discriminate|]. apply Z.leb_gt in E. exact E.
Qed.

(* C7: with a depth limit d, an iteration of depth >= d is the last one ... *)
Theorem driver_trace_stops_at_limit : forall g d n st depth it,
  In it (removelast (driver_trace n g st depth (Some d))) -> it_depth it < d.
Proof.
  intros g d n st depth it Hin.
  destruct (driver_trace_inner g (Some d) n st depth it Hin) as (b & s & o & _ & Hx).
  apply exit_test_limit in Hx. exact Hx.
Qed.

(* ... and no iteration is deeper than max (limit, starting depth) *)
Theorem driver_trace_le_limit : forall g d n st depth it,
  In it (driver_trace n g st depth (Some d)) -> it_depth it <= Z.max d depth.
Proof.
  intros g d. induction n as [|n IH]; intros st depth it Hin; cbn [driver_trace] in Hin; [destruct Hin|].
  destruct (255 <? depth); [destruct Hin|].
  destruct (root g st (Z.to_nat depth)) as [[[[best score] only]|sa|] st1].
  - destruct Hin as [<-|Hin]; [cbn [it_depth]; lia|].
    destruct (exit_test (Some d) depth only score) eqn:Ex; [destruct Hin|].
    apply exit_test_limit in Ex. pose proof (IH _ _ _ Hin) as H. lia.
  - destruct Hin as [<-|[]]. cbn [it_depth]. lia.
  - destruct Hin as [<-|[]]. cbn [it_depth]. lia.
Qed.

Definition driver_iterations (g : game) (t : table) (limit : option Z) (stop_at : Z) (tableless : bool)
  : list iter :=
  driver_trace 256 g (fresh_state t stop_at tableless) (starting_depth t g) limit.

Theorem driver_move_is_final_move : forall g t limit stop_at tableless,
  d_move (driver g t limit stop_at tableless) =
  final_move g None (driver_iterations g t limit stop_at tableless).
Proof. intros. unfold driver, driver_iterations. apply driver_loop_move. Qed.

Theorem driver_respects_limit : forall g t d stop_at tableless,
  let tr := driver_iterations g t (Some d) stop_at tableless in
  let sd := starting_depth t g in
  map it_depth tr = zseq sd (length tr) /\
  (forall it, In it tr ->
     it_depth it <= Z.max d sd /\ it_depth it <= 255 /\
     it_end it = iter_of (fst (root g (it_st it) (Z.to_nat (it_depth it))))) /\
  (forall it, In it (removelast tr) -> it_depth it < d).
Proof.
  intros g t d stop_at tableless. cbv zeta. unfold driver_iterations.
  generalize (fresh_state t stop_at tableless) as st. generalize 256%nat as n. intros n st.
  split; [apply driver_trace_depths|]. split.
  - intros it Hin. split; [apply (driver_trace_le_limit _ _ _ _ _ _ Hin)|].
    destruct (driver_trace_calls _ _ _ _ _ _ Hin) as [H1 H2]. split; assumption.
  - intros it Hin. apply (driver_trace_stops_at_limit _ _ _ _ _ _ Hin).
Qed.

(* the F3a repair: a cached exact root entry at least as deep as the limit gives exactly one
   iteration, which returns the cached move (or the single reply) *)
Lemma root_cached : forall g st en,
  tfind (s_tbl st) (g_hash g) = Some en -> e_flag en = Exact -> 0 <= e_depth en ->
  exists (b : option Move) (s : Z) (o : bool),
    root g st (Z.to_nat (e_depth en)) = (Done (b, s, o), if o then st else root_clear st) /\
                b = match checked_moves g with [m] => Some m | _ => e_pv en end.
Proof.
  intros g st en Ef Ex Hd. rewrite root_unfold.
  assert (Hm : root_main g st (Z.to_nat (e_depth en)) = (Done (e_pv en, e_score en, false), root_clear st)).
  { unfold root_main. cbv zeta.
    change (s_tbl (root_clear st)) with (s_tbl st). rewrite Ef. unfold root_hit. rewrite Ex.
    rewrite Z2Nat.id by exact Hd. rewrite Z.leb_refl. reflexivity. }
  destruct (checked_moves g) as [|m [|m' l]].
  - exists (e_pv en), (e_score en), false. split; [exact Hm|reflexivity].
  - exists (Some m), 0, true. split; reflexivity.
  - exists (e_pv en), (e_score en), false. split; [exact Hm|reflexivity].
Qed.

Lemma driver_trace_one : forall g md n st depth b s o st1,
  depth <= 255 -> root g st (Z.to_nat depth) = (Done (b, s, o), st1) -> exit_test md depth o s = true ->
  driver_trace (S n) g st depth md = [mkIt depth st (IDone b s o)].
Proof.
  intros g md n st depth b s o st1 Hd ER Ex. cbn [driver_trace].
  assert (E255 : (255 <? depth) = false) by (apply Z.ltb_ge; lia).
  rewrite E255, ER, Ex. reflexivity.
Qed.

Theorem driver_cached_deeper : forall g t d stop_at tableless en,
  tfind t (g_hash g) = Some en -> e_flag en = Exact -> 0 <= e_depth en <= 255 -> d <= e_depth en ->
  map it_depth (driver_iterations g t (Some d) stop_at tableless) = [e_depth en] /\
  d_move (driver g t (Some d) stop_at tableless) =
    match checked_moves g with [m] => Some m | _ => e_pv en end.
Proof.
  intros g t d stop_at tableless en Ef Ex Hd Hlim.
  rewrite driver_move_is_final_move. unfold driver_iterations.
  assert (Esd : starting_depth t g = e_depth en) by (unfold starting_depth; rewrite Ef, Ex; reflexivity).
  rewrite Esd.
  destruct (root_cached g (fresh_state t stop_at tableless) en Ef Ex (proj1 Hd)) as (b & s & o & ER & Eb).
  assert (Ext : exit_test (Some d) (e_depth en) o s = true).
  { unfold exit_test. assert (E : (d <=? e_depth en) = true) by (apply Z.leb_le; exact Hlim).
    rewrite E. reflexivity. }
  rewrite (driver_trace_one g (Some d) 255 _ _ b s o _ (proj2 Hd) ER Ext).
  cbn [map it_depth final_move it_end]. split; [reflexivity|exact Eb].
Qed.

(* C8: depth never exceeds 255 (see also [driver_trace_calls]) and the iteration counter 256 is never
   what ends the loop: more iterations allowed give the same result *)
Theorem driver_never_exceeds_255 : forall g t limit stop_at tableless it,
  In it (driver_iterations g t limit stop_at tableless) -> it_depth it <= 255.
Proof. intros g t limit stop_at tableless it Hin. apply (driver_trace_calls _ _ _ _ _ _ Hin). Qed.

Lemma driver_loop_counter : forall g md n k st depth found lines,
  255 < depth + Z.of_nat n ->
  driver_loop (n + k) g st depth md found lines = driver_loop n g st depth md found lines.
Proof.
  intros g md. induction n as [|n IH]; intros k st depth found lines H.
  - cbn [Nat.add]. destruct k as [|k]; [reflexivity|]. cbn [driver_loop].
    assert (E : (255 <? depth) = true) by (apply Z.ltb_lt; lia). rewrite E. reflexivity.
  - cbn [Nat.add driver_loop]. destruct (255 <? depth); [reflexivity|].
    destruct (root g st (Z.to_nat depth)) as [[[[best score] only]|sa|] st1]; try reflexivity.
    match goal with |- context [if ?c then _ else _] => destruct c end; [reflexivity|].
    apply IH. lia.
Qed.

Theorem driver_counter_never_binds : forall g t limit stop_at tableless k,
  0 <= starting_depth t g ->
  driver_loop (256 + k) g (fresh_state t stop_at tableless) (starting_depth t g) limit None [] =
  driver g t limit stop_at tableless.
Proof.
  intros g t limit stop_at tableless k H. unfold driver.
  apply driver_loop_counter. change (Z.of_nat 256) with 256. lia.
Qed.

Print Assumptions driver_respects_limit.
Print Assumptions driver_cached_deeper.
Print Assumptions driver_never_exceeds_255.
Print Assumptions driver_counter_never_binds.
Print Assumptions driver_move_is_final_move.

(* ---- B6. the driver answers when stopped (C07, repair F2) ------------------------------------------------ *)

Lemma driver_trace_aborted : forall g md n st depth sa st1,
  depth <= 255 -> root g st (Z.to_nat depth) = (Aborted sa, st1) ->
  driver_trace (S n) g st depth md = [mkIt depth st IAborted].
Proof.
  intros g md n st depth sa st1 Hd ER. cbn [driver_trace].
  assert (E255 : (255 <? depth) = false) by (apply Z.ltb_ge; lia).
  rewrite E255, ER. reflexivity.
Qed.

(* stopped during the very first iteration: the first checked move is announced *)
Theorem driver_stopped_in_first_iteration : forall g t limit stop_at tableless sa st1,
  starting_depth t g <= 255 ->
  root g (fresh_state t stop_at tableless) (Z.to_nat (starting_depth t g)) = (Aborted sa, st1) ->
  d_move (driver g t limit stop_at tableless) = hd_error (checked_moves g).
Proof.
  intros g t limit stop_at tableless sa st1 Hsd ER.
  rewrite driver_move_is_final_move. unfold driver_iterations.
  rewrite (driver_trace_aborted g limit 255 _ _ sa st1 Hsd ER).
  cbn [final_move it_end fallback]. destruct (checked_moves g); reflexivity.
Qed.

Lemma remove_last_length : forall (A : Type) (l : list A),
  l <> [] -> S (length (remove_last l)) = length l.
Proof.
  intros A l. induction l as [|x t IH]; intro H; [congruence|].
  cbn [remove_last]. destruct t as [|y t']; [reflexivity|].
  cbn [length]. f_equal. apply IH. discriminate.
Qed.

Lemma replace_first_length : forall ms x lastm r,
  replace_first ms x lastm = Some r -> S (length r) = length ms.
Proof.
  induction ms as [|m t IH]; intros x lastm r H; cbn [replace_first] in H; [discriminate|].
  destruct (move_eqb x m).
  - injection H as <-. destruct t as [|m' t']; [reflexivity|].
    cbn [length]. f_equal. apply (remove_last_length _ (m' :: t')). discriminate.
  - destruct (replace_first t x lastm) as [r'|] eqn:E; cbn [option_map] in H; [|discriminate].
    injection H as <-. cbn [length]. f_equal. apply (IH _ _ _ E).
Qed.

Lemma repetition_filter_length : forall g ms,
  (length ms <= S (length (repetition_filter g ms)))%nat.
Proof.
  intros g ms. unfold repetition_filter.
  destruct (g_moves g) as [|m1 [|m2 [|m3 [|m4 [|m5 t]]]]]; try lia.
  destruct (move_eqb m1 m5 && is_reversal m4 m2 && is_reversal m5 m3); [|lia]. unfold swap_remove_move.
  destruct (replace_first ms m4 (last ms m4)) as [r|] eqn:E; [|lia].
  apply replace_first_length in E. lia.
Qed.

Lemma root_step_keeps_best : forall g rem' m index r r',
  r_best r <> None -> root_step g rem' m index r = Done r' -> r_best r' <> None.
Proof.
  intros g rem' m index r r' Hb E. unfold root_step in E.
  destruct (index <=? ROOT_FULL_WINDOW_LAST_INDEX).
  - destruct (node rem' (push g m) (r_st r) 1 (SCORE_MIN + 1) (- r_bscore r)) as [[s|sa|] st1];
      try discriminate.
    destruct (r_bscore r <? - s); injection E as <-; cbn [r_best]; [discriminate|exact Hb].
  - destruct (node rem' (push g m) (r_st r) 1 (- r_bscore r - 1) (- r_bscore r)) as [[s|sa|] st1];
      try discriminate.
    destruct (r_bscore r <? - s).
    + destruct (node rem' (push g m) st1 1 (SCORE_MIN + 1) (- - s)) as [[s2|sa2|] st2]; try discriminate.
      injection E as <-. cbn [r_best]. discriminate.
    + injection E as <-. cbn [r_best]. exact Hb.
Qed.

Lemma root_loop_keeps_best : forall g rem' ms index r r',
  r_best r <> None -> root_loop g rem' ms index r = Done r' -> r_best r' <> None.
Proof.
  intros g rem'. induction ms as [|m rest IH]; intros index r r' Hb E.
  - rewrite root_loop_nil in E. injection E as <-. exact Hb.
  - rewrite root_loop_cons in E.
    destruct (root_step g rem' m index r) as [r1|sa|] eqn:Es; try discriminate.
    apply (IH _ _ _ (root_step_keeps_best _ _ _ _ _ _ Hb Es) E).
Qed.

Lemma SCORE_MAX_eq : - (SCORE_MIN + 1) = SCORE_MAX.
Proof. reflexivity. Qed.

(* when does a completed root call announce a move?  The exact-hit shortcut must not return an
   entry without a move, and the first move searched (full window) must score above SCORE_MIN + 1,
   i.e. its node value must be below SCORE_MAX. *)
Theorem root_best_some : forall g st depth best score only st',
  checked_moves g <> [] ->
  (forall en, tfind (s_tbl st) (g_hash g) = Some en -> e_flag en = Exact ->
              Z.of_nat depth <= e_depth en -> e_pv en <> None) ->
  (forall m s st1, In m (checked_moves g) ->
     node (pred depth) (push g m) (root_clear st) 1 (SCORE_MIN + 1) SCORE_MAX = (Done s, st1) ->
     s < SCORE_MAX) ->
  root g st depth = (Done (best, score, only), st') -> best <> None.
Proof.
  intros g st depth best score only st' Hne Htbl Hfirst E. rewrite root_unfold in E.
  assert (Hmain : length (checked_moves g) <> 1%nat ->
                  root_main g st depth = (Done (best, score, only), st') -> best <> None).
  { intros Hlen Em. unfold root_main in Em. cbv zeta in Em.
    destruct (root_hit (tfind (s_tbl (root_clear st)) (g_hash g)) depth) as [en|] eqn:Eh.
    - apply root_hit_some in Eh. destruct Eh as (E1 & E2 & E3).
      injection Em as <- _ _ _. apply (Htbl en E1 E2 E3).
    - destruct (root_sorted g (root_clear st)) as [|m1 rest] eqn:Esort.
      + exfalso. unfold root_sorted in Esort. apply sort_moves_nil in Esort.
        pose proof (repetition_filter_length g (checked_moves g)) as HL. rewrite Esort in HL.
        cbn [length] in HL. destruct (checked_moves g) as [|a [|b l]]; cbn [length] in *; try lia.
        congruence.
      + assert (Hm1 : In m1 (checked_moves g)).
        { apply (root_sorted_incl' g (root_clear st)).
          rewrite Esort. left. reflexivity. }
        rewrite root_loop_cons in Em.
        destruct (root_step g (pred depth) m1 0 (mkR None (SCORE_MIN + 1) (root_clear st)))
          as [r1|sa|] eqn:Es; cbn [root_finish] in Em; try discriminate.
        assert (Hr1 : r_best r1 <> None).
        { unfold root_step in Es. cbn [r_st r_bscore r_best] in Es.
          change (0 <=? ROOT_FULL_WINDOW_LAST_INDEX) with true in Es. cbv iota in Es.
          rewrite SCORE_MAX_eq in Es.
          destruct (node (pred depth) (push g m1) (root_clear st) 1 (SCORE_MIN + 1) SCORE_MAX)
            as [[s|sa|] st1] eqn:En; try discriminate.
          pose proof (Hfirst m1 s st1 Hm1 En) as Hs.
          assert (Elt : (SCORE_MIN + 1 <? - s) = true).
          { apply Z.ltb_lt. rewrite <- SCORE_MAX_eq in Hs. lia. }
          rewrite Elt in Es. injection Es as <-. cbn [r_best]. discriminate. }
        destruct (root_loop g (pred depth) rest (0 + 1) r1) as [r2|sa|] eqn:El; cbn [root_finish] in Em;
          try discriminate.
        injection Em as <- _ _ _. apply (root_loop_keeps_best _ _ _ _ _ _ Hr1 El). }
  destruct (checked_moves g) as [|m [|m' l]] eqn:Ecm.
  - congruence.
  - injection E as <- _ _ _. discriminate.
  - apply Hmain; [cbn [length]; lia|exact E].
Qed.

Section Answer.
  Variable g : game.
  (* [SI]: any invariant of the search state that makes completed root calls announce a move
     (score-range reasoning, see [root_best_some]); to be supplied by the score-range proofs *)
  Variable SI : sstate -> Prop.
  Hypothesis SI_root : forall st k best sc only st',
    k <= 255 -> SI st -> root g st (Z.to_nat k) = (Done (best, sc, only), st') ->
    best <> None /\ SI st'.
  Hypothesis root_fuel : forall st k, has_fuel (fst (root g st k)).
  Hypothesis Hne : checked_moves g <> [].

  Lemma driver_loop_keeps_answer : forall md n st depth found lines,
    SI st -> found <> None -> d_move (driver_loop n g st depth md found lines) <> None.
  Proof.
    intros md. induction n as [|n IH]; intros st depth found lines HS Hf; cbn [driver_loop].
    - exact Hf.
    - destruct (255 <? depth) eqn:Ed; [exact Hf|]. apply Z.ltb_ge in Ed.
      pose proof (root_fuel st (Z.to_nat depth)) as HF.
      destruct (root g st (Z.to_nat depth)) as [[[[best score] only]|sa|] st1] eqn:ER;
        cbn [fst has_fuel] in HF; [| |contradiction].
      + destruct (SI_root _ _ _ _ _ _ Ed HS ER) as [Hb HS1].
        match goal with |- context [if ?c then _ else _] => destruct c end; [exact Hb|].
        apply IH; assumption.
      + cbn [d_move]. destruct found; [discriminate|congruence].
  Qed.

  Lemma driver_loop_answers : forall md n st depth lines,
    SI st -> depth <= 255 -> d_move (driver_loop (S n) g st depth md None lines) <> None.
  Proof.
    intros md n st depth lines HS Hd. cbn [driver_loop].
    assert (Ed : (255 <? depth) = false) by (apply Z.ltb_ge; exact Hd). rewrite Ed.
    pose proof (root_fuel st (Z.to_nat depth)) as HF.
    destruct (root g st (Z.to_nat depth)) as [[[[best score] only]|sa|] st1] eqn:ER;
      cbn [fst has_fuel] in HF; [| |contradiction].
    - destruct (SI_root _ _ _ _ _ _ Hd HS ER) as [Hb HS1].
      match goal with |- context [if ?c then _ else _] => destruct c end; [exact Hb|].
      apply driver_loop_keeps_answer; assumption.
    - cbn [d_move]. destruct (checked_moves g); [congruence|discriminate].
  Qed.

  Theorem driver_answers_when_stopped : forall t limit N tableless,
    SI (fresh_state t N tableless) -> starting_depth t g <= 255 ->
    d_move (driver g t limit N tableless) <> None.
  Proof.
    intros t limit N tableless HS Hsd. unfold driver. change 256%nat with (S 255).
    apply driver_loop_answers; assumption.
  Qed.
End Answer.

Print Assumptions driver_stopped_in_first_iteration.
Print Assumptions root_best_some.
Print Assumptions driver_answers_when_stopped.

(* ---- C9. the arguments of every call of [node] stay in range ---------------------------------------------- *)

(* [real] is the ply (1 at the children of the root), [rem] the remaining depth;
   rem + real is constant along the recursion and equals the iteration depth *)
Definition ArgsOK (rem : nat) (real : Z) : Prop := 1 <= real /\ Z.of_nat rem + real <= 255.

Lemma ArgsOK_step : forall r real, ArgsOK (S (S r)) real -> ArgsOK (S r) (real + 1).
Proof. intros r real [H1 H2]. split; lia. Qed.

Lemma ArgsOK_root_nat : forall depth : nat, Z.of_nat depth <= 255 -> ArgsOK (pred depth) 1.
Proof. intros depth H. split; lia. Qed.

Lemma ArgsOK_root : forall depth, depth <= 255 -> ArgsOK (pred (Z.to_nat depth)) 1.
Proof. intros depth H. apply ArgsOK_root_nat. lia. Qed.

Lemma ArgsOK_range : forall rem real,
  ArgsOK rem real -> 0 <= real <= 255 /\ real < KILLER_SLOTS /\ Z.of_nat rem <= 254.
Proof. intros rem real [H1 H2]. unfold KILLER_SLOTS. lia. Qed.

(* The generic principle [node_inv]/[root_inv]/[driver_loop_inv] of SearchInv1 instantiated with
   [A := ArgsOK] is the formal content of "every call of node reached from the root at an iteration
   depth <= 255 has 1 <= real <= 255": the preservation obligations of a state invariant may
   assume [ArgsOK rem real] at every node.  Two uses follow. *)

Section ArgRanges.
  Variable Good : game -> Prop.
  Hypothesis Good_push : forall g m, Good g -> In m (checked_moves g) -> Good (push g m).

  (* (a) the killer table keeps its KILLER_SLOTS entries and every killer write lands inside it *)
  Definition KillersOK (st : sstate) : Prop := length (s_killers st) = Z.to_nat KILLER_SLOTS.

  Lemma killer_write_in_range : forall rem real st m,
    ArgsOK rem real -> KillersOK st ->
    znth (zupd (s_killers st) real (Some m)) real None = Some m.
  Proof.
    intros rem real st m HA HK. apply znth_zupd_same. unfold KillersOK in HK. rewrite HK.
    apply ArgsOK_range in HA. rewrite Z2Nat.id by (unfold KILLER_SLOTS; lia). lia.
  Qed.

  Lemma KillersOK_poll : forall st,
    KillersOK st -> if s_running (poll st) then KillersOK (poll st) else KillersOK (poll st).
  Proof. intros st H. destruct (s_running (poll st)); exact H. Qed.

  Lemma KillersOK_clear : forall st, KillersOK (root_clear st).
  Proof. intros st. unfold KillersOK, root_clear. cbn [with_killers s_killers]. apply repeat_length. Qed.

  Theorem node_killers_ok : forall rem g st real a b,
    ArgsOK rem real -> Good g -> KillersOK st -> KillersOK (snd (node rem g st real a b)).
  Proof.
    intros rem g st real a b HA Hg HK.
    assert (H : node_post KillersOK KillersOK (node rem g st real a b)).
    { apply (node_inv Good Good_push ArgsOK KillersOK KillersOK); try assumption.
      - apply ArgsOK_step.
      - apply KillersOK_poll.
      - intros rem0 real0 st0 m _ H0. unfold KillersOK in *. cbn [with_killers s_killers].
        rewrite zupd_length. exact H0.
      - intros rem0 real0 st0 m _ H0. exact H0.
      - intros rem0 real0 g0 st0 sc ob fl _ _ H0 _. exact H0. }
    destruct (node rem g st real a b) as [[s|sa|] st']; cbn [node_post snd] in *.
    - exact H.
    - destruct H as [-> H]. exact H.
    - exact H.
  Qed.

  (* (b) cached depths stay within 0..255, hence so does the starting depth of the next search *)
  Definition entry_depth_ok (_ : N) (e : entry) : Prop := 0 <= e_depth e <= 255.
  Definition TableDepths (t : table) : Prop := TableAll entry_depth_ok t.
  Let PD (st : sstate) : Prop := TableDepths (s_tbl st).

  Lemma PD_poll : forall st, PD st -> if s_running (poll st) then PD (poll st) else PD (poll st).
  Proof.
    intros st H. assert (PD (poll st)) by (apply TableAll_poll; exact H).
    destruct (s_running (poll st)); assumption.
  Qed.

  Lemma PD_store : forall rem real g st sc ob fl,
    ArgsOK rem real -> Good g -> PD st -> omove_in ob (checked_moves g) ->
    PD (with_tbl st (store_node (s_tbl st) (g_hash g) (mkEntry sc ob (Z.of_nat rem) fl))).
  Proof.
    intros rem real g st sc ob fl HA _ HP _. unfold PD. cbn [with_tbl s_tbl].
    apply TableAll_store_node; [exact HP|]. unfold entry_depth_ok. cbn [e_depth].
    apply ArgsOK_range in HA. lia.
  Qed.

  Lemma PD_store_root : forall depth g st sc ob,
    ArgsOK (pred depth) 1 -> Good g -> PD st -> omove_in ob (checked_moves g) ->
    PD (with_tbl st (store_root (s_tbl st) (g_hash g) (mkEntry sc ob (Z.of_nat depth) Exact))).
  Proof.
    intros depth g st sc ob [_ HA] _ HP _. unfold PD. cbn [with_tbl s_tbl].
    apply TableAll_store_root; [exact HP|]. unfold entry_depth_ok. cbn [e_depth]. lia.
  Qed.

  Theorem node_table_depths : forall rem g st real a b,
    ArgsOK rem real -> Good g -> TableDepths (s_tbl st) ->
    TableDepths (s_tbl (snd (node rem g st real a b))).
  Proof.
    intros rem g st real a b HA Hg HP.
    assert (H : node_post PD PD (node rem g st real a b)).
    { apply (node_inv Good Good_push ArgsOK PD PD); try assumption.
      - apply ArgsOK_step.
      - apply PD_poll.
      - intros; assumption.
      - intros; assumption.
      - apply PD_store. }
    destruct (node rem g st real a b) as [[s|sa|] st']; cbn [node_post snd] in *.
    - exact H.
    - destruct H as [-> H]. exact H.
    - exact H.
  Qed.

  Theorem root_table_depths : forall g st depth,
    Z.of_nat depth <= 255 -> Good g -> TableDepths (s_tbl st) ->
    TableDepths (s_tbl (snd (root g st depth))).
  Proof.
    intros g st depth Hd Hg HP.
    assert (H : root_post PD PD g st depth (root g st depth)).
    { apply (root_inv Good Good_push ArgsOK PD PD); try assumption.
      - apply ArgsOK_step.
      - apply PD_poll.
      - intros; assumption.
      - intros; assumption.
      - apply PD_store.
      - intros; assumption.
      - apply PD_store_root.
      - apply ArgsOK_root_nat. exact Hd. }
    destruct (root g st depth) as [[[[best sc] only]|sa|] st']; cbn [root_post snd] in *.
    - apply H.
    - destruct H as [-> H]. exact H.
    - exact H.
  Qed.

  Theorem driver_table_depths : forall g t limit stop_at tableless,
    Good g -> TableDepths t -> TableDepths (s_tbl (d_st (driver g t limit stop_at tableless))).
  Proof.
    intros g t limit stop_at tableless Hg Ht. unfold driver.
    assert (H : forall n st depth found lines, PD st ->
              (PD (d_st (driver_loop n g st depth limit found lines)) \/
               PD (d_st (driver_loop n g st depth limit found lines))) /\ True).
    { intros n st depth found lines HP.
      apply (driver_loop_inv Good Good_push ArgsOK PD PD) with (M := fun _ => True); try assumption;
        try exact I.
      - apply ArgsOK_step.
      - apply PD_poll.
      - intros; assumption.
      - intros; assumption.
      - apply PD_store.
      - intros; assumption.
      - apply PD_store_root.
      - apply ArgsOK_root.
      - intros; exact I.
      - intros; exact I. }
    specialize (H 256%nat (fresh_state t stop_at tableless) (starting_depth t g) None [] Ht).
    revert H. generalize (driver_loop 256 g (fresh_state t stop_at tableless) (starting_depth t g) limit None []).
    intros r [[H|H] _]; exact H.
  Qed.

  Theorem starting_depth_range : forall t g, TableDepths t -> 0 <= starting_depth t g <= 255.
  Proof.
    intros t g Ht. unfold starting_depth. destruct (tfind t (g_hash g)) as [en|] eqn:E; [|lia].
    destruct (e_flag en); try lia. apply (Ht _ _ E).
  Qed.
End ArgRanges.

Print Assumptions killer_write_in_range.
Print Assumptions node_killers_ok.
Print Assumptions node_table_depths.
Print Assumptions root_table_depths.
Print Assumptions driver_table_depths.
Print Assumptions starting_depth_range.

(* ---- A4. principal variations (C18) ---------------------------------------------------------------------- *)

Lemma Move_eq_dec : forall a b : Move, {a = b} + {a <> b}.
Proof.
  assert (Hc : forall a b : color, {a = b} + {a <> b}) by decide equality.
  assert (Hk : forall a b : kind, {a = b} + {a <> b}) by decide equality.
  assert (Hp : forall a b : piece, {a = b} + {a <> b}) by decide equality.
  assert (Hop : forall a b : option piece, {a = b} + {a <> b}) by decide equality.
  assert (Hpos : forall a b : pos, {a = b} + {a <> b}) by (decide equality; apply Z.eq_dec).
  decide equality; apply Z.eq_dec.
Defined.

(* the moves of the walk through the cached best moves; [pv_walk] is their text *)
Fixpoint pv_moves (n : nat) (t : table) (g : game) : list Move :=
  match n with
  | O => []
  | S n' =>
      match tfind t (g_hash g) with
      | Some en =>
          match e_pv en with
          | Some pv => pv :: pv_moves n' t (push g pv)
          | None => []
          end
      | None => []
      end
  end.

Definition pv_text (ms : list Move) : text := flat_map (fun m => uci m ++ [32%N]) ms.

Theorem pv_walk_text : forall n t g, pv_walk n t g = pv_text (pv_moves n t g).
Proof.
  induction n as [|n IH]; intros t g; cbn [pv_walk pv_moves]; [reflexivity|].
  destruct (tfind t (g_hash g)) as [en|]; [|reflexivity].
  destruct (e_pv en) as [pv|]; [|reflexivity].
  unfold pv_text. cbn [flat_map]. fold (pv_text (pv_moves n t (push g pv))).
  rewrite IH. rewrite <- app_assoc. reflexivity.
Qed.

Lemma pv_moves_length : forall n t g, (length (pv_moves n t g) <= n)%nat.
Proof.
  induction n as [|n IH]; intros t g; cbn [pv_moves]; [apply le_n|].
  destruct (tfind t (g_hash g)) as [en|]; [|cbn [length]; lia].
  destruct (e_pv en) as [pv|]; [|cbn [length]; lia].
  cbn [length]. specialize (IH t (push g pv)). lia.
Qed.

Definition PV_PREFIX : text := [105; 110; 102; 111; 32; 112; 118; 32]%N.

Section PV.
  Variable Good : game -> Prop.
  Hypothesis Good_push : forall g m, Good g -> In m (checked_moves g) -> Good (push g m).

  (* the move was cached from another good game with the hash of [g], and [g] does not generate it:
     a genuine 64-bit collision *)
  Definition collision_witness (g : game) (m : Move) : Prop :=
    exists g0, Good g0 /\ g_hash g0 = g_hash g /\ In m (checked_moves g0) /\ ~ In m (checked_moves g).

  (* a playable line, up to the first collision (nothing is claimed after one) *)
  Inductive PVok : game -> list Move -> Prop :=
  | PVnil : forall g, PVok g []
  | PVstep : forall g m ms, In m (checked_moves g) -> PVok (push g m) ms -> PVok g (m :: ms)
  | PVcollision : forall g m ms, collision_witness g m -> PVok g (m :: ms).

  Lemma entry_move_cases : forall t g en m,
    TableSound Good t -> tfind t (g_hash g) = Some en -> e_pv en = Some m ->
    In m (checked_moves g) \/ collision_witness g m.
  Proof.
    intros t g en m Ht Ef Epv.
    destruct (in_dec Move_eq_dec m (checked_moves g)) as [Hin|Hnin]; [left; exact Hin|].
    right. destruct (Ht _ _ Ef) as (g0 & Eh & Hg0 & Hpv). rewrite Epv in Hpv.
    exists g0. repeat split; assumption.
  Qed.

  Theorem pv_walk_sound : forall n t g,
    Good g -> TableSound Good t -> PVok g (pv_moves n t g).
  Proof.
    induction n as [|n IH]; intros t g Hg Ht; cbn [pv_moves]; [apply PVnil|].
    destruct (tfind t (g_hash g)) as [en|] eqn:Ef; [|apply PVnil].
    destruct (e_pv en) as [pv|] eqn:Epv; [|apply PVnil].
    destruct (entry_move_cases t g en pv Ht Ef Epv) as [Hin|Hc].
    - apply PVstep; [exact Hin|]. apply IH; [|exact Ht]. apply Good_push; assumption.
    - apply PVcollision. exact Hc.
  Qed.

  (* sharper forms of A2/A3: a move outside the checked list comes with a collision witness *)
  Theorem root_move_sound_sharp : forall g st depth m score only st',
    Good g -> TableSound Good (s_tbl st) ->
    root g st depth = (Done (Some m, score, only), st') ->
    In m (checked_moves g) \/ collision_witness g m.
  Proof.
    intros g st depth m score only st' Hg Ht E.
    destruct (in_dec Move_eq_dec m (checked_moves g)) as [Hin|Hnin]; [left; exact Hin|]. right.
    pose proof (root_move_sound Good Good_push g st depth (Some m) score only st' Hg Ht E) as H.
    cbv beta iota in H. destruct H as [H|(g0 & H1 & H2 & H3)]; [contradiction|].
    exists g0. repeat split; assumption.
  Qed.

  Theorem driver_move_sound_sharp : forall g t limit stop_at tableless m,
    Good g -> TableSound Good t ->
    d_move (driver g t limit stop_at tableless) = Some m ->
    In m (checked_moves g) \/ collision_witness g m.
  Proof.
    intros g t limit stop_at tableless m Hg Ht E.
    destruct (in_dec Move_eq_dec m (checked_moves g)) as [Hin|Hnin]; [left; exact Hin|]. right.
    pose proof (driver_move_sound Good Good_push g t limit stop_at tableless Hg Ht) as H.
    rewrite E in H. destruct H as [H|(g0 & H1 & H2 & H3)]; [contradiction|].
    exists g0. repeat split; assumption.
  Qed.

  (* every "info pv" line printed by the driver is the text of a sound line *)
  Definition LineOK (g : game) (line : text) : Prop :=
    (exists ms, line = PV_PREFIX ++ pv_text ms /\ PVok g ms) \/
    (forall rest, line <> PV_PREFIX ++ rest).

  Lemma info_lines_ok : forall depth score t g,
    Good g -> TableSound Good t -> Forall (LineOK g) (info_lines depth score t g).
  Proof.
    intros depth score t g Hg Ht. unfold info_lines.
    repeat apply Forall_cons; try apply Forall_nil.
    - right. intros rest H. unfold PV_PREFIX in H. cbn [app] in H. congruence.
    - right. intros rest H. unfold PV_PREFIX in H. cbn [app] in H. congruence.
    - right. intros rest H. unfold PV_PREFIX in H. cbn [app] in H. congruence.
    - left. exists (pv_moves (Z.to_nat depth) t g). split.
      + rewrite pv_walk_text. reflexivity.
      + apply pv_walk_sound; assumption.
  Qed.

  Lemma driver_loop_lines_ok : forall g md n st depth found lines,
    Good g -> TableSound Good (s_tbl st) -> Forall (LineOK g) lines ->
    Forall (LineOK g) (d_lines (driver_loop n g st depth md found lines)).
  Proof.
    intros g md. induction n as [|n IH]; intros st depth found lines Hg Ht HL; cbn [driver_loop].
    - exact HL.
    - destruct (255 <? depth); [exact HL|].
      pose proof (root_table_sound Good Good_push g st (Z.to_nat depth) Hg Ht) as Ht1.
      destruct (root g st (Z.to_nat depth)) as [[[[best score] only]|sa|] st1]; cbn [snd] in Ht1.
      + assert (HL' : Forall (LineOK g) (lines ++ info_lines depth score (s_tbl st1) g)).
        { apply Forall_app. split; [exact HL|]. apply info_lines_ok; assumption. }
        match goal with |- context [if ?c then _ else _] => destruct c end; [exact HL'|].
        apply IH; assumption.
      + exact HL.
      + exact HL.
  Qed.

  Theorem driver_lines_sound : forall g t limit stop_at tableless,
    Good g -> TableSound Good t ->
    Forall (LineOK g) (d_lines (driver g t limit stop_at tableless)).
  Proof.
    intros g t limit stop_at tableless Hg Ht. unfold driver.
    apply driver_loop_lines_ok; [exact Hg|exact Ht|apply Forall_nil].
  Qed.
End PV.

Print Assumptions pv_walk_text.
Print Assumptions pv_walk_sound.
Print Assumptions root_move_sound_sharp.
Print Assumptions driver_move_sound_sharp.
Print Assumptions driver_lines_sound.

(* ---- complements ---------------------------------------------------------------------------------------- *)

(* B5: a node whose entry poll sees the flag down returns at once, with the polled state *)
Theorem node_aborts_at_once : forall rem g st real a b,
  s_running (poll st) = false -> node rem g st real a b = (Aborted (poll st), poll st).
Proof. intros rem g st real a b H. rewrite node_unfold, H. reflexivity. Qed.

(* an [Aborted] child makes the enclosing loops and calls return the very same state:
   nothing (no poll, no store, no killer/history update) happens on the way up *)
Theorem node_loop_abort_passes : forall rec g real beta remaining m rest index l sa,
  node_step rec g real beta m index l = Aborted sa ->
  node_loop rec g real beta remaining (m :: rest) index l = Aborted sa.
Proof. intros. rewrite node_loop_cons, H. reflexivity. Qed.

Theorem node_finish_abort_passes : forall g st real remaining alpha beta sa,
  node_finish g st real remaining alpha beta (Aborted sa) = (Aborted sa, sa).
Proof. reflexivity. Qed.

Theorem root_loop_abort_passes : forall g rem' m rest index r sa,
  root_step g rem' m index r = Aborted sa ->
  root_loop g rem' (m :: rest) index r = Aborted sa.
Proof. intros. rewrite root_loop_cons, H. reflexivity. Qed.

Theorem root_finish_abort_passes : forall g st depth sa,
  root_finish g st depth (Aborted sa) = (Aborted sa, sa).
Proof. reflexivity. Qed.

(* C7/C8: with the flag never cleared and enough fuel every iteration of the driver completes *)
Section NeverStopped.
  Variable Good : game -> Prop.
  Hypothesis Good_push : forall g m, Good g -> In m (checked_moves g) -> Good (push g m).
  Hypothesis quiescence_total : forall g a b r, Good g -> quiescence QFUEL g a b r <> None.
  Hypothesis depth1_total : forall g a b r, Good g -> depth1 g a b r <> None.

  Theorem driver_trace_all_done : forall g md n st depth it,
    Good g -> NeverStops st -> In it (driver_trace n g st depth md) ->
    exists b s o, it_end it = IDone b s o.
  Proof.
    intros g md. induction n as [|n IH]; intros st depth it Hg HN Hin; cbn [driver_trace] in Hin;
      [destruct Hin|].
    destruct (255 <? depth); [destruct Hin|].
    pose proof (root_never_aborts Good Good_push g st (Z.to_nat depth) Hg HN) as [HN1 Hna].
    pose proof (root_has_fuel Good Good_push quiescence_total depth1_total g st (Z.to_nat depth) Hg) as HF.
    destruct (root g st (Z.to_nat depth)) as [[[[best score] only]|sa|] st1]; cbn [fst snd has_fuel] in *.
    - destruct Hin as [<-|Hin]; [exists best, score, only; reflexivity|].
      destruct (exit_test md depth only score); [destruct Hin|].
      apply (IH st1 (depth + 1) it Hg HN1 Hin).
    - exfalso. apply (Hna sa). reflexivity.
    - contradiction.
  Qed.

  Theorem driver_all_iterations_complete : forall g t limit tableless it,
    Good g -> In it (driver_iterations g t limit (-1) tableless) ->
    exists b s o, it_end it = IDone b s o.
  Proof.
    intros g t limit tableless it Hg Hin. unfold driver_iterations in Hin.
    refine (driver_trace_all_done g limit 256 _ _ it Hg _ Hin).
    split; [reflexivity|]. split; [reflexivity|]. cbn [fresh_state s_polls]. lia.
  Qed.
End NeverStopped.

Print Assumptions node_aborts_at_once.
Print Assumptions driver_all_iterations_complete.

(* ---- why [driver_answers_when_stopped] needs its hypotheses ------------------------------------------------ *)

(* (1) model only: an exact root entry deeper than 255 (impossible for the u8 depth of the code, excluded
   by [TableDepths]) makes the driver return at once without a move *)
Theorem driver_oversized_entry : forall g t limit stop_at tableless en,
  tfind t (g_hash g) = Some en -> e_flag en = Exact -> 255 < e_depth en ->
  d_move (driver g t limit stop_at tableless) = None /\
  driver_iterations g t limit stop_at tableless = [].
Proof.
  intros g t limit stop_at tableless en Ef Ex Hd.
  rewrite driver_move_is_final_move. unfold driver_iterations.
  assert (Esd : starting_depth t g = e_depth en) by (unfold starting_depth; rewrite Ef, Ex; reflexivity).
  rewrite Esd.
  assert (Etr : forall n st, driver_trace (S n) g st (e_depth en) limit = []).
  { intros n st. cbn [driver_trace].
    assert (E : (255 <? e_depth en) = true) by (apply Z.ltb_lt; exact Hd). rewrite E. reflexivity. }
  rewrite (Etr 255%nat). split; reflexivity.
Qed.

(* (2) [TableSound] allows an exact entry without a move for a game that has moves; the exact-hit
   shortcut then announces no move although the game has several.  Excluding it needs the
   score-range invariant (see [root_best_some]) *)
Theorem driver_cached_entry_without_move : forall g t d stop_at tableless en m1 m2 rest,
  tfind t (g_hash g) = Some en -> e_flag en = Exact -> e_pv en = None ->
  0 <= e_depth en <= 255 -> d <= e_depth en ->
  checked_moves g = m1 :: m2 :: rest ->
  d_move (driver g t (Some d) stop_at tableless) = None.
Proof.
  intros g t d stop_at tableless en m1 m2 rest Ef Ex Epv Hd Hlim Ecm.
  destruct (driver_cached_deeper g t d stop_at tableless en Ef Ex Hd Hlim) as [_ H].
  rewrite H, Ecm. exact Epv.
Qed.

Print Assumptions driver_oversized_entry.
Print Assumptions driver_cached_entry_without_move.
