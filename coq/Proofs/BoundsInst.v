(* C15, part E: the theorems of Proofs/BoundsQ.v and Proofs/BoundsSearch.v with their
   abstract invariant instantiated:  Good g := RepInv g /\ KingsInv g  (Proofs/PushPop2.v), which every
   pseudo-legal generated move preserves (also a capture of the king: afterwards the side to move
   has no king and generates nothing). No hypotheses about generation or push remain. *)
From Coq Require Import Lia.
From Chess Require Import Model.Search Proofs.Grid Proofs.Inv Proofs.GenOk Proofs.PushPop Proofs.PushPop2.
From Chess Require Import Proofs.Bounds Proofs.BoundsQ Proofs.BoundsSearch.
Open Scope Z_scope.

Definition SearchGood (g : game) : Prop := RepInv g /\ KingsInv g.

Lemma SearchGood_rep g : SearchGood g -> RepInv g.
Proof. intros [H _]. exact H. Qed.

Theorem SearchGood_push g m : SearchGood g -> In m (pseudo_moves g) -> SearchGood (push g m).
Proof.
  intros [HR HK] Hin.
  pose proof (gen_ok_pseudo g m HR Hin) as G. pose proof (gen_ok_x_pseudo g m HR Hin) as X.
  split; [now apply push_repinv | apply push_kingsinv; try assumption; now apply (pseudo_king g m)].
Qed.

(* the potential argument, unconditional *)
Theorem C15_tactical_lowers_mu g m :
  RepInv g -> In m (pseudo_moves g) -> is_tactical m = true -> (mu (push g m) < mu g)%nat.
Proof. intros HR Hin Ht. apply mu_push_lt; [assumption | now apply gen_ok_pseudo | assumption]. Qed.

Theorem C15_generated_keeps_mu g m :
  RepInv g -> In m (pseudo_moves g) -> (mu (push g m) <= mu g)%nat.
Proof. intros HR Hin. apply mu_push_le; [assumption | now apply gen_ok_pseudo]. Qed.

Theorem C15_quiescence_fuel fuel g alpha beta real :
  SearchGood g -> (mu g < fuel)%nat -> exists z, quiescence fuel g alpha beta real = Some z.
Proof. exact (quiescence_fuel SearchGood SearchGood_rep gen_ok_pseudo SearchGood_push fuel g alpha beta real). Qed.

Theorem C15_qsearch_depth fuel g alpha beta real :
  SearchGood g -> (mu g < fuel)%nat ->
  quiescence fuel g alpha beta real = quiescence (S (mu g)) g alpha beta real.
Proof. exact (quiescence_depth SearchGood SearchGood_rep gen_ok_pseudo SearchGood_push fuel g alpha beta real). Qed.

Theorem C15_quiescence_total g alpha beta real :
  SearchGood g -> (mu g < QFUEL)%nat -> exists z, quiescence QFUEL g alpha beta real = Some z.
Proof. exact (quiescence_total SearchGood SearchGood_rep gen_ok_pseudo SearchGood_push g alpha beta real). Qed.

Theorem C15_depth1_total g alpha beta real :
  SearchGood g -> (mu g < QFUEL)%nat -> exists z, depth1 g alpha beta real = Some z.
Proof. exact (depth1_total SearchGood SearchGood_rep gen_ok_pseudo SearchGood_push g alpha beta real). Qed.

Theorem C15_node_fuel_ok rem g st real alpha beta :
  SearchGood g -> (mu g < QFUEL)%nat -> fuel_ok (fst (node rem g st real alpha beta)).
Proof. exact (node_fuel_ok SearchGood SearchGood_rep gen_ok_pseudo SearchGood_push rem g st real alpha beta). Qed.

Theorem C15_driver_fuel_ok g t max_depth stop_at tableless :
  SearchGood g -> (mu g < QFUEL)%nat -> d_fuel_ok (driver g t max_depth stop_at tableless) = true.
Proof. exact (driver_fuel_ok SearchGood SearchGood_rep gen_ok_pseudo SearchGood_push g t max_depth stop_at tableless). Qed.

Theorem C15_stack_search g g' n :
  SearchGood g -> Z.of_nat (glen g) <= GAME_LENGTH_GUARD -> (n <= 256)%nat ->
  sreach n g g' -> Z.of_nat (glen g') + 1 <= STATE_STACK_CAP.
Proof. exact (C15_stack SearchGood SearchGood_rep gen_ok_pseudo SearchGood_push g g' n). Qed.

Theorem C15_stack_quiescence g g' :
  SearchGood g -> qreach g g' -> (glen g' <= glen g + mu g)%nat.
Proof. exact (qreach_glen SearchGood SearchGood_rep gen_ok_pseudo SearchGood_push g g'). Qed.

Print Assumptions SearchGood_push.
Print Assumptions C15_tactical_lowers_mu.
Print Assumptions C15_quiescence_fuel.
Print Assumptions C15_qsearch_depth.
Print Assumptions C15_quiescence_total.
Print Assumptions C15_depth1_total.
Print Assumptions C15_node_fuel_ok.
Print Assumptions C15_driver_fuel_ok.
Print Assumptions C15_stack_search.
Print Assumptions C15_stack_quiescence.

(* ---- the start position as an instance ------------------------------------------------------------------ *)
From Chess Require Import Proofs.Abs.

Example start_good : SearchGood START.
Proof.
  split; [apply repinv_b_sound; vm_compute; reflexivity|].
  split; [intros [] _; vm_compute; reflexivity | vm_compute; reflexivity].
Qed.

(* standard material: 32 men + 16 pawns *)
Example start_mu : mu START = 48%nat.
Proof. vm_compute. reflexivity. Qed.

Corollary start_driver_fuel_ok t max_depth stop_at tableless :
  d_fuel_ok (driver START t max_depth stop_at tableless) = true.
Proof. apply C15_driver_fuel_ok; [exact start_good | rewrite start_mu; vm_compute; lia]. Qed.

Print Assumptions start_driver_fuel_ok.
