(* C10, mate in one: from a fresh table, if the side to move can give checkmate in one move, the
   iterative-deepening driver of the model (Model/Search.v) runs the iterations 1, 2, 3, announces a
   mating move after iteration 3 with score 32667 and stops there by itself (or, when the mating move
   is the only legal move, answers it at once through the only-move shortcut).

   The argument:
   - a symmetric range lemma, generic in the bound K >= 30768: under a window (a, b) with a <= K and
     -K <= b the quiescence search, the depth-1 search, and the node with remaining depth 2 over a
     table whose scores are within [-K, K] return values within [-K, K] and store such scores only;
   - K = 30768 (stand-pat values and the mate values of depth1/quiescence, offsets 2000/3000) for the
     iterations 1 and 2 and for the part of iteration 3 before a mating move is met: no score reaches
     an exit band of the driver, every non-mating root move scores at most 30768;
   - a mating root move is searched by a node of remaining depth 2 that has no checked move and an
     attacked king: SCORE_MIN + 100 + 1 whatever the window, nothing stored, provided the probe under
     the hash of the mated position hits nothing (the no-collision hypothesis);
   - K = 32667 after a mating move was met: the root then opens windows next to the mate score; the
     later root moves score at most 32667, so the recorded best move is kept (strict comparison).

   The hypothesis "the root's repetition filter removes no mating move" (FilterKeepsMates) is then
   discharged for every game reached by legal play (filter_keeps_mates_reachable, for the repaired
   filter that fires only on two quiet moves and their reversals): C10_mate_in_one_reachable.  The
   remaining hypotheses: bounded material, a limit of 3 or more (or none), never stopped, and the
   explicit no-collision condition on the hashes of the mated children. *)
From Coq Require Import Lia FSets.FMapPositive.
From Chess Require Import Model.Search Proofs.Grid Proofs.Inv Proofs.Abs Proofs.GenOk Proofs.PushPop Proofs.PushPop2
  Proofs.Reach Proofs.Bounds Proofs.BoundsQ Proofs.BoundsInst Proofs.SearchInv1 Proofs.SearchInv2 Proofs.Top
  Proofs.ScoreRange1 Proofs.ScoreRange2.
Open Scope Z_scope.

(* ---- the statement's vocabulary ---------------------------------------------------------------------- *)

(* the model's own test: the condition under which [no_move_score] returns the mate value *)
Definition in_check_model (g : game) : bool :=
  negb (king_exists g (g_player g) && negb (is_targeted g (king_pos g (g_player g)) (g_player g))).

Definition mates (g : game) (m : Move) : Prop :=
  In m (checked_moves g) /\ checked_moves (push g m) = [] /\ in_check_model (push g m) = true.

Definition T_BOUND : Z := 30768.     (* - (SCORE_MIN + MATE_OFFSET_DEPTH1) *)
Definition S_STAR : Z := 32667.      (* - (SCORE_MIN + MATE_OFFSET_NODE + 1): mate delivered at ply 1 *)

Lemma T_BOUND_eq : T_BOUND = - (SCORE_MIN + MATE_OFFSET_DEPTH1).
Proof. reflexivity. Qed.
Lemma S_STAR_eq : S_STAR = - (SCORE_MIN + MATE_OFFSET_NODE + 1).
Proof. reflexivity. Qed.

Lemma no_move_score_check g off real :
  in_check_model g = true -> no_move_score g off real = SCORE_MIN + off + real.
Proof.
  unfold in_check_model, no_move_score. intros H.
  destruct (king_exists g (g_player g) && _); [discriminate | reflexivity].
Qed.

Lemma no_move_score_nocheck g off real :
  in_check_model g = false -> no_move_score g off real = 0.
Proof.
  unfold in_check_model, no_move_score. intros H.
  destruct (king_exists g (g_player g) && _); [reflexivity | discriminate].
Qed.

Lemma mates_dec g m :
  In m (checked_moves g) ->
  mates g m \/ (~ mates g m /\ (checked_moves (push g m) = [] -> in_check_model (push g m) = false)).
Proof.
  intros Hin. destruct (checked_moves (push g m)) as [|x l] eqn:Ecm.
  - destruct (in_check_model (push g m)) eqn:Ec.
    + left. repeat split; assumption.
    + right. split; [|reflexivity]. intros (_ & _ & H). congruence.
  - right. split; [|discriminate]. intros (_ & H & _). congruence.
Qed.

(* ---- the running state: never stopped, the table in use ------------------------------------------------ *)

Definition NS (st : sstate) : Prop :=
  s_running st = true /\ s_stop_at st < 0 /\ 0 <= s_polls st /\ s_tableless st = false.

Lemma NS_poll st : NS st -> NS (poll st) /\ s_running (poll st) = true /\ s_tbl (poll st) = s_tbl st.
Proof.
  intros (H1 & H2 & H3 & H4).
  assert (Eh : (s_stop_at st =? s_polls st) = false) by (apply Z.eqb_neq; lia).
  assert (Er : s_running (poll st) = true) by (rewrite poll_running, Eh; exact H1).
  split; [|split; [exact Er|rewrite poll_tbl, H4; reflexivity]].
  unfold NS. rewrite Er, poll_stop_at, poll_polls.
  repeat split; [assumption | lia | exact H4].
Qed.

(* ---- ranges, generic in the bound ----------------------------------------------------------------------- *)

Section RangeK.
  Variable K : Z.
  Hypothesis K_lo : 30768 <= K.
  Hypothesis K_hi : K <= 32767.

  Definition RK (s : Z) : Prop := - K <= s <= K.
  Definition WK (a b : Z) : Prop := a <= K /\ - K <= b.

  Ltac rk :=
    unfold RK, WK, SCORE_MIN, SCORE_MAX, MATE_OFFSET_NODE, MATE_OFFSET_DEPTH1,
      MATE_OFFSET_QUIESCENCE, BOUND in *; lia.

  Lemma no_move_score_rangeK g off real :
    MATE_OFFSET_DEPTH1 <= off <= MATE_OFFSET_QUIESCENCE -> 0 <= real <= 256 -> RK (no_move_score g off real).
  Proof.
    intros Ho Hr. unfold no_move_score. destruct (king_exists g (g_player g) && _); rk.
  Qed.

  Lemma qloop_rangeK (q : game -> Z -> Z -> Z -> option Z) g b real :
    - K <= b ->
    (forall m a' b' r s, In m (pseudo_moves g) -> WK a' b' -> 0 <= r <= 256 ->
                         q (push g m) a' b' r = Some s -> RK s) ->
    0 <= real <= 256 ->
    forall ms alpha s, incl ms (pseudo_moves g) -> RK alpha ->
                       qloop q g b real ms alpha = Some s -> RK s.
  Proof.
    intros Hb Hq Hr. induction ms as [|m rest IH]; intros alpha s Hincl Ha E.
    - rewrite qloop_nil in E. injection E as <-. exact Ha.
    - rewrite qloop_cons in E.
      assert (Hrest : incl rest (pseudo_moves g)) by (intros x Hx; apply Hincl; now right).
      destruct (negb (is_tactical m)); [now apply (IH alpha)|].
      destruct (q (push g m) (- b) (- alpha) (Z.min 255 (real + 1))) as [s1|] eqn:Eq; [|discriminate].
      assert (H1 : RK s1).
      { apply (Hq m (- b) (- alpha) (Z.min 255 (real + 1)) s1); [apply Hincl; now left| rk | lia | exact Eq]. }
      assert (H2 : RK (if alpha <? - s1 then - s1 else alpha)) by (destruct (alpha <? - s1); rk).
      destruct (b <=? (if alpha <? - s1 then - s1 else alpha)) eqn:Ec.
      + injection E as <-. apply Z.leb_le in Ec. rk.
      + now apply (IH _ s Hrest H2).
  Qed.

  Theorem quiescence_rangeK : forall fuel g a b real s,
    GB g -> WK a b -> 0 <= real <= 256 -> quiescence fuel g a b real = Some s -> RK s.
  Proof.
    induction fuel as [|f IH]; intros g a b real s Hg Hw Hr E; [rewrite quiescence_0 in E; discriminate|].
    rewrite quiescence_S in E. cbv zeta in E.
    pose proof (GB_standpat g Hg) as Hsp.
    set (cur := g_score g * color_sign (g_player g)) in *.
    destruct (b <=? Z.max a cur) eqn:Ec.
    - injection E as <-. apply Z.leb_le in Ec. rk.
    - destruct (pseudo_moves g) as [|m0 ms0] eqn:Epm.
      + injection E as <-. apply no_move_score_rangeK;
          [unfold MATE_OFFSET_DEPTH1, MATE_OFFSET_QUIESCENCE; lia | exact Hr].
      + rewrite <- Epm in E.
        apply (qloop_rangeK (quiescence f) g b real) with (ms := pseudo_moves g) (alpha := Z.max a cur);
          try assumption; [rk | | apply incl_refl | rk].
        intros m a' b' r s' Hin Hw' Hr' E'. apply (IH (push g m) a' b' r s'); try assumption.
        now apply GB_push_pseudo.
  Qed.

  Lemma depth1_loop_rangeK g b real :
    GB g -> - K <= b -> 0 <= real <= 255 ->
    forall ms a s, incl ms (pseudo_moves g) -> a <= K -> (ms <> [] \/ - K <= a) ->
                   depth1_loop g ms a b real = Some s -> RK s.
  Proof.
    intros Hg Hb Hr. induction ms as [|m rest IH]; intros a s Hincl Ha Hne E; cbn [depth1_loop] in E.
    - injection E as <-. destruct Hne as [Hne|Hlo]; [congruence | rk].
    - assert (Hrest : incl rest (pseudo_moves g)) by (intros x Hx; apply Hincl; now right).
      destruct (quiescence QFUEL (push g m) (- b) (- a) (real + 1)) as [s1|] eqn:Eq; [|discriminate].
      assert (H1 : RK s1).
      { apply (quiescence_rangeK QFUEL (push g m) (- b) (- a) (real + 1) s1); try assumption; [|rk|lia].
        apply GB_push_pseudo; [exact Hg | apply Hincl; now left]. }
      cbv zeta in E.
      assert (H2 : RK (if a <? - s1 then - s1 else a)).
      { destruct (a <? - s1) eqn:El; [rk|]. apply Z.ltb_ge in El. rk. }
      destruct (b <=? (if a <? - s1 then - s1 else a)).
      + injection E as <-. exact H2.
      + apply (IH (if a <? - s1 then - s1 else a) s Hrest); [rk | right; rk | exact E].
  Qed.

  Theorem depth1_rangeK g a b real s :
    GB g -> WK a b -> 0 <= real <= 255 -> depth1 g a b real = Some s -> RK s.
  Proof.
    intros Hg Hw Hr E. unfold depth1 in E. destruct (pseudo_moves g) as [|m0 ms0] eqn:Epm.
    - injection E as <-. apply no_move_score_rangeK;
        [unfold MATE_OFFSET_DEPTH1, MATE_OFFSET_QUIESCENCE; lia | lia].
    - rewrite <- Epm in E.
      apply (depth1_loop_rangeK g b real Hg (proj2 Hw) Hr (pseudo_moves g) a s); try assumption.
      + apply incl_refl.
      + exact (proj1 Hw).
      + left. rewrite Epm. discriminate.
  Qed.

  (* a table whose scores are within [-KT, KT]; mate scores are stored counted from the storing node and read
     recounted from the root (score_to_table / score_from_table), so the bound of the table may differ from
     the bound of the values by the ply of the reader (>= 1): the two facts needed are hypotheses here *)
  Variable KT : Z.
  Hypothesis Hread : forall e real, 1 <= real <= 255 -> - KT <= e <= KT -> RK (score_from_table e real).
  Hypothesis Hstore : forall s real, 0 <= real <= 255 -> RK s -> - KT <= score_to_table s real <= KT.
  Definition TK (t : table) : Prop := TableAll (fun _ e => - KT <= e_score e <= KT) t.

  Lemma node_entry_hit g st real rem a b sp :
    TK (s_tbl st) -> 1 <= real <= 255 -> probe (node_entry g st real) rem a b = Some sp -> RK sp.
  Proof.
    intros HT Hr Ep. apply probe_some in Ep. destruct Ep as (en & Ef & ->).
    apply node_entry_some in Ef. destruct Ef as (en0 & Ef & ->). cbn [entry_from_table e_score].
    apply Hread; [exact Hr | exact (HT _ _ Ef)].
  Qed.

  (* a node with remaining depth 0 or 1 (quiescence / depth 1): completes, stores nothing *)
  Lemma node_low_K rem g st real a b :
    (rem <= 1)%nat -> GB g -> NS st -> TK (s_tbl st) -> WK a b -> 1 <= real <= 255 ->
    exists s, node rem g st real a b = (Done s, poll st) /\ RK s.
  Proof.
    intros Hrem Hg Hns HT Hw Hr. rewrite node_unfold.
    destruct (NS_poll st Hns) as (_ & Erun & Etbl).
    rewrite Erun. cbn [negb]. unfold node_body.
    assert (HTp : TK (s_tbl (poll st))) by (rewrite Etbl; exact HT).
    destruct (probe (node_entry g (poll st) real) (Z.of_nat rem) a b) as [sp|] eqn:Ep.
    - exists sp. split; [reflexivity | exact (node_entry_hit _ _ _ _ _ _ _ HTp Hr Ep)].
    - destruct rem as [|[|r]]; [| |lia].
      + pose proof (good_quiescence_total g a b real (proj1 Hg)) as Ht.
        destruct (quiescence QFUEL g a b real) as [s|] eqn:Eq; [|congruence].
        exists s. split; [reflexivity|].
        apply (quiescence_rangeK QFUEL g a b real s); try assumption. lia.
      + pose proof (good_depth1_total g a b real (proj1 Hg)) as Ht.
        destruct (depth1 g a b real) as [s|] eqn:Eq; [|congruence].
        exists s. split; [reflexivity|].
        apply (depth1_rangeK g a b real s); try assumption. lia.
  Qed.

  (* ---- the node with remaining depth 2: its children are depth-1 searches ---- *)

  Section Node2.
    Variable c : game.
    Hypothesis Hc : GB c.
    Variables real beta : Z.
    Hypothesis Hreal : 0 <= real <= 254.
    Hypothesis Hbeta : - K <= beta.
    Variable tb : table.
    Hypothesis Htb : TK tb.

    Definition LSt (l : lstate) : Prop := NS (l_st l) /\ s_tbl (l_st l) = tb.
    Definition LPreK (l : lstate) : Prop := l_alpha l <= K /\ l_bscore l = SCORE_MIN.
    Definition LPostK (l : lstate) : Prop := RK (l_alpha l) /\ RK (l_bscore l) /\ l_best l <> None.

    Lemma child_call m st a b :
      In m (checked_moves c) -> NS st -> s_tbl st = tb -> WK a b ->
      exists s, node 1 (push c m) st (real + 1) a b = (Done s, poll st) /\ RK s /\
                NS (poll st) /\ s_tbl (poll st) = tb.
    Proof.
      intros Hm Hns Et Hw.
      destruct (node_low_K 1 (push c m) st (real + 1) a b) as (s & E & Hs); try assumption.
      - lia.
      - now apply GB_push_checked.
      - rewrite Et. exact Htb.
      - lia.
      - exists s. destruct (NS_poll st Hns) as (H1 & _ & H2).
        split; [exact E|]. split; [exact Hs|]. split; [exact H1 | congruence].
    Qed.

    Ltac fin H1 H2 :=
      eexists; split; [reflexivity|]; split; [split; [exact H1 | exact H2]|];
      unfold LPostK; cbn [l_st l_alpha l_bscore l_best];
      split; [rk|]; split; [rk | first [discriminate | assumption]].

    Lemma node2_step m index l :
      In m (checked_moves c) -> LSt l -> (index = 0 /\ LPreK l) \/ LPostK l ->
      exists l', node_step (node 1) c real beta m index l = Done l' /\ LSt l' /\ LPostK l'.
    Proof.
      intros Hm [Hns Et] H. unfold node_step.
      destruct H as [[-> (Ha & Hs)] | (Ha & Hs & Hbm)].
      - change (0 <=? PVS_FULL_WINDOW_LAST_INDEX) with true. cbv iota.
        destruct (child_call m (l_st l) (- beta) (- l_alpha l) Hm Hns Et ltac:(rk))
          as (s & E & Hr & Hns1 & Et1).
        rewrite E, Hs.
        assert (El : (SCORE_MIN <? - s) = true) by (apply Z.ltb_lt; rk). rewrite El.
        fin Hns1 Et1.
      - destruct (index <=? PVS_FULL_WINDOW_LAST_INDEX).
        + destruct (child_call m (l_st l) (- beta) (- l_alpha l) Hm Hns Et ltac:(rk))
            as (s & E & Hr & Hns1 & Et1).
          rewrite E.
          destruct (l_bscore l <? - s); fin Hns1 Et1.
        + destruct (child_call m (l_st l) (- l_alpha l - 1) (- l_alpha l) Hm Hns Et ltac:(rk))
            as (s & E & Hr & Hns1 & Et1).
          rewrite E. destruct (l_bscore l <? - s).
          * destruct (child_call m (poll (l_st l)) (- beta) (- - s) Hm Hns1 Et1 ltac:(rk))
              as (s2 & E2 & Hr2 & Hns2 & Et2).
            rewrite E2. fin Hns2 Et2.
          * fin Hns1 Et1.
    Qed.

    Lemma node2_loop remaining : forall ms index l,
      incl ms (checked_moves c) -> LSt l ->
      (index = 0 /\ LPreK l /\ ms <> []) \/ LPostK l ->
      exists l', node_loop (node 1) c real beta remaining ms index l = Done l' /\ LSt l' /\ LPostK l'.
    Proof.
      induction ms as [|m rest IH]; intros index l Hincl HL H.
      - rewrite node_loop_nil. exists l. split; [reflexivity|]. split; [exact HL|].
        destruct H as [(_ & _ & Hne)|H]; [congruence | exact H].
      - rewrite node_loop_cons.
        assert (Hm : In m (checked_moves c)) by (apply Hincl; now left).
        destruct (node2_step m index l Hm HL) as (l1 & E1 & HL1 & HP1).
        { destruct H as [(H1 & H2 & _)|H]; [left; now split | now right]. }
        rewrite E1. destruct (beta <=? l_alpha l1).
        + eexists. split; [reflexivity|]. split; [exact HL1 | exact HP1].
        + apply IH; [intros x Hx; apply Hincl; now right | exact HL1 | now right].
    Qed.
  End Node2.

  (* the node with remaining depth 2 (a child of the root in iteration 3) *)
  Lemma node2_K c st real a b :
    GB c -> NS st -> TK (s_tbl st) -> WK a b -> 1 <= real <= 254 ->
    (checked_moves c = [] -> RK (no_move_score c MATE_OFFSET_NODE real)) ->
    exists s st', node 2 c st real a b = (Done s, st') /\ RK s /\ NS st' /\
      (s_tbl st' = s_tbl st \/
       exists ne, - KT <= e_score ne <= KT /\ s_tbl st' = store_node (s_tbl st) (g_hash c) ne).
  Proof.
    intros Hc Hns HT Hw Hr Hdead. rewrite node_unfold.
    destruct (NS_poll st Hns) as (Hnsp & Erun & Etbl).
    rewrite Erun. cbn [negb]. unfold node_body.
    assert (HTp : TK (s_tbl (poll st))) by (rewrite Etbl; exact HT).
    destruct (probe (node_entry c (poll st) real) (Z.of_nat 2) a b) as [sp|] eqn:Ep.
    - exists sp, (poll st).
      split; [reflexivity|]. split; [exact (node_entry_hit c (poll st) real _ _ _ _ HTp ltac:(lia) Ep)|].
      split; [exact Hnsp|]. left. exact Etbl.
    - cbv iota. rewrite node_deep_eq. destruct (checked_moves c) as [|m0 ms0] eqn:Ecm.
      + exists (no_move_score c MATE_OFFSET_NODE real), (poll st).
        split; [reflexivity|]. split; [now apply Hdead|]. split; [exact Hnsp|]. left. exact Etbl.
      + assert (Hincl : incl (node_sorted c (poll st) real) (checked_moves c)).
        { intros x Hx. unfold node_sorted, node_sorted_of in Hx. apply sort_moves_in in Hx. exact Hx. }
        assert (Hne : node_sorted c (poll st) real <> []).
        { intros E. unfold node_sorted, node_sorted_of in E. apply sort_moves_nil in E. congruence. }
        destruct (node2_loop c Hc real b ltac:(lia) (proj2 Hw) (s_tbl st) HT (Z.of_nat 2)
                    (node_sorted c (poll st) real) 0 (mkL a None SCORE_MIN (poll st)) Hincl)
          as (l' & El & [Hnsl Etl] & (Hal & Hbl & _)).
        { split; [exact Hnsp | exact Etbl]. }
        { left. split; [reflexivity|]. split; [|exact Hne]. split; [exact (proj1 Hw) | reflexivity]. }
        rewrite El. cbn [node_finish].
        eexists. eexists. split; [reflexivity|]. split; [exact Hal|]. split; [exact Hnsl|].
        right. eexists. split; [|cbn [with_tbl s_tbl]; rewrite Etl; reflexivity].
        cbn [e_score]. apply Hstore; [lia | exact Hbl].
  Qed.
End RangeK.

Ltac rk :=
  unfold RK, WK, T_BOUND, S_STAR, SCORE_MIN, SCORE_MAX, MATE_OFFSET_NODE, MATE_OFFSET_DEPTH1,
    MATE_OFFSET_QUIESCENCE, BOUND in *; lia.

Lemma T_ok : 30768 <= T_BOUND /\ T_BOUND <= 32767.
Proof. unfold T_BOUND. lia. Qed.
Lemma S_ok : 30768 <= S_STAR /\ S_STAR <= 32767.
Proof. unfold S_STAR. lia. Qed.

(* the two bounds used below: values and table within T_BOUND (no mate score around: nothing is recounted);
   values within S_STAR with a table within S_STAR + 1 (a mate score moves by the ply of the reader, >= 1) *)
Definition ST_BOUND : Z := 32668.

Lemma read_T e real : 1 <= real <= 255 -> - T_BOUND <= e <= T_BOUND -> RK T_BOUND (score_from_table e real).
Proof.
  intros Hr He. unfold score_from_table, TABLE_MATE_MARGIN.
  destruct (SCORE_MAX - 1000 <? e) eqn:E1; [apply Z.ltb_lt in E1; rk|].
  destruct (e <? SCORE_MIN + 1000) eqn:E2; [apply Z.ltb_lt in E2; rk | exact He].
Qed.

Lemma store_T s real : 0 <= real <= 255 -> RK T_BOUND s -> - T_BOUND <= score_to_table s real <= T_BOUND.
Proof.
  intros Hr He. unfold score_to_table, TABLE_MATE_MARGIN.
  destruct (SCORE_MAX - 1000 <? s) eqn:E1; [apply Z.ltb_lt in E1; rk|].
  destruct (s <? SCORE_MIN + 1000) eqn:E2; [apply Z.ltb_lt in E2; rk | exact He].
Qed.

Lemma read_S e real : 1 <= real <= 255 -> - ST_BOUND <= e <= ST_BOUND -> RK S_STAR (score_from_table e real).
Proof.
  intros Hr He. unfold score_from_table, TABLE_MATE_MARGIN, ST_BOUND in *.
  destruct (SCORE_MAX - 1000 <? e) eqn:E1; [apply Z.ltb_lt in E1; rk|]. apply Z.ltb_ge in E1.
  destruct (e <? SCORE_MIN + 1000) eqn:E2; [apply Z.ltb_lt in E2; rk | apply Z.ltb_ge in E2; rk].
Qed.

Lemma store_S s real : 0 <= real <= 255 -> RK S_STAR s -> - ST_BOUND <= score_to_table s real <= ST_BOUND.
Proof.
  intros Hr He. unfold score_to_table, TABLE_MATE_MARGIN, ST_BOUND in *.
  destruct (SCORE_MAX - 1000 <? s) eqn:E1; [apply Z.ltb_lt in E1; rk|]. apply Z.ltb_ge in E1.
  destruct (s <? SCORE_MIN + 1000) eqn:E2; [apply Z.ltb_lt in E2; rk | apply Z.ltb_ge in E2; rk].
Qed.

(* the refined range of the depth-1 and quiescence searches: strictly inside (-32667, 32667) *)
Corollary quiescence_tight fuel g a b real s :
  GB g -> a <= T_BOUND -> - T_BOUND <= b -> 0 <= real <= 256 ->
  quiescence fuel g a b real = Some s -> - T_BOUND <= s <= T_BOUND.
Proof.
  intros Hg Ha Hb Hr E.
  exact (quiescence_rangeK T_BOUND (proj1 T_ok) fuel g a b real s Hg (conj Ha Hb) Hr E).
Qed.

Corollary depth1_tight g a b real s :
  GB g -> a <= T_BOUND -> - T_BOUND <= b -> 0 <= real <= 255 ->
  depth1 g a b real = Some s -> - T_BOUND <= s <= T_BOUND.
Proof.
  intros Hg Ha Hb Hr E.
  exact (depth1_rangeK T_BOUND (proj1 T_ok) g a b real s Hg (conj Ha Hb) Hr E).
Qed.

(* ---- the root ------------------------------------------------------------------------------------------------ *)

Section Root.
  Variable g : game.
  Hypothesis Hg : GB g.

  Definition RSt (tb : table) (r : rstate) : Prop := NS (r_st r) /\ s_tbl (r_st r) = tb.

  (* -- iterations 1 and 2: the children are quiescence / depth-1 searches -- *)

  Lemma low_call rem' tb m st a b :
    (rem' <= 1)%nat -> TK T_BOUND tb -> In m (checked_moves g) -> NS st -> s_tbl st = tb -> WK T_BOUND a b ->
    exists s, node rem' (push g m) st 1 a b = (Done s, poll st) /\ RK T_BOUND s /\
              NS (poll st) /\ s_tbl (poll st) = tb.
  Proof.
    intros Hrem HT Hm Hns Et Hw.
    destruct (node_low_K T_BOUND (proj1 T_ok) T_BOUND read_T rem' (push g m) st 1 a b) as (s & E & Hs); try assumption.
    - now apply GB_push_checked.
    - rewrite Et. exact HT.
    - lia.
    - exists s. destruct (NS_poll st Hns) as (H1 & _ & H2).
      split; [exact E|]. split; [exact Hs|]. split; [exact H1 | congruence].
  Qed.

  Ltac rfin H1 H2 :=
    eexists; split; [reflexivity|]; split; [split; [exact H1 | exact H2]|];
    cbn [r_st r_bscore r_best]; split; [rk | first [discriminate | assumption]].

  Lemma root_step_low rem' tb m index r :
    (rem' <= 1)%nat -> TK T_BOUND tb -> In m (checked_moves g) -> RSt tb r ->
    (index = 0 /\ r_bscore r = SCORE_MIN + 1) \/ (RK T_BOUND (r_bscore r) /\ r_best r <> None) ->
    exists r', root_step g rem' m index r = Done r' /\ RSt tb r' /\
               RK T_BOUND (r_bscore r') /\ r_best r' <> None.
  Proof.
    intros Hrem HT Hm [Hns Et] H. unfold root_step.
    destruct H as [[-> Hs] | (Hs & Hbm)].
    - change (0 <=? ROOT_FULL_WINDOW_LAST_INDEX) with true. cbv iota.
      destruct (low_call rem' tb m (r_st r) (SCORE_MIN + 1) (- r_bscore r) Hrem HT Hm Hns Et ltac:(rk))
        as (s & E & Hr & Hns1 & Et1).
      rewrite E, Hs.
      assert (El : (SCORE_MIN + 1 <? - s) = true) by (apply Z.ltb_lt; rk). rewrite El.
      rfin Hns1 Et1.
    - destruct (index <=? ROOT_FULL_WINDOW_LAST_INDEX).
      + destruct (low_call rem' tb m (r_st r) (SCORE_MIN + 1) (- r_bscore r) Hrem HT Hm Hns Et ltac:(rk))
          as (s & E & Hr & Hns1 & Et1).
        rewrite E. destruct (r_bscore r <? - s); rfin Hns1 Et1.
      + destruct (low_call rem' tb m (r_st r) (- r_bscore r - 1) (- r_bscore r) Hrem HT Hm Hns Et ltac:(rk))
          as (s & E & Hr & Hns1 & Et1).
        rewrite E. destruct (r_bscore r <? - s).
        * destruct (low_call rem' tb m (poll (r_st r)) (SCORE_MIN + 1) (- - s) Hrem HT Hm Hns1 Et1 ltac:(rk))
            as (s2 & E2 & Hr2 & Hns2 & Et2).
          rewrite E2. rfin Hns2 Et2.
        * rfin Hns1 Et1.
  Qed.

  Lemma root_loop_low rem' tb :
    (rem' <= 1)%nat -> TK T_BOUND tb ->
    forall ms index r, incl ms (checked_moves g) -> RSt tb r ->
      (index = 0 /\ r_bscore r = SCORE_MIN + 1 /\ ms <> []) \/ (RK T_BOUND (r_bscore r) /\ r_best r <> None) ->
      exists r', root_loop g rem' ms index r = Done r' /\ RSt tb r' /\
                 RK T_BOUND (r_bscore r') /\ r_best r' <> None.
  Proof.
    intros Hrem HT. induction ms as [|m rest IH]; intros index r Hincl HR H.
    - rewrite root_loop_nil. exists r. split; [reflexivity|]. split; [exact HR|].
      destruct H as [(_ & _ & Hne)|H]; [congruence | exact H].
    - rewrite root_loop_cons.
      assert (Hm : In m (checked_moves g)) by (apply Hincl; now left).
      destruct (root_step_low rem' tb m index r Hrem HT Hm HR) as (r1 & E1 & HR1 & HP1).
      { destruct H as [(H1 & H2 & _)|H]; [left; now split | now right]. }
      rewrite E1. apply IH; [intros x Hx; apply Hincl; now right | exact HR1 | now right].
  Qed.

  (* the root outside the only-move shortcut and the exact-hit shortcut *)
  Lemma root_via_loop st depth r' :
    (2 <= length (checked_moves g))%nat ->
    root_hit (tfind (s_tbl st) (g_hash g)) depth = None ->
    root_loop g (pred depth) (root_sorted g (root_clear st)) 0 (mkR None (SCORE_MIN + 1) (root_clear st)) = Done r' ->
    root g st depth = root_finish g (root_clear st) depth (Done r').
  Proof.
    intros Hlen Hhit Hloop. rewrite root_unfold.
    assert (Hm : root_main g st depth = root_finish g (root_clear st) depth (Done r')).
    { unfold root_main. cbv zeta. change (s_tbl (root_clear st)) with (s_tbl st).
      rewrite Hhit, Hloop. reflexivity. }
    destruct (checked_moves g) as [|m [|m' t]]; cbn [length] in Hlen; [lia | lia | exact Hm].
  Qed.

  Lemma root_hit_shallow t k d :
    (forall en, tfind t (g_hash g) = Some en -> e_depth en <= d) -> d < Z.of_nat k ->
    root_hit (tfind t (g_hash g)) k = None.
  Proof.
    intros H Hd. unfold root_hit. destruct (tfind t (g_hash g)) as [en|]; [|reflexivity].
    assert (E : (Z.of_nat k <=? e_depth en) = false) by (apply Z.leb_gt; specialize (H en eq_refl); lia).
    rewrite E. reflexivity.
  Qed.

  Lemma root_sorted_nonempty st : repetition_filter g (checked_moves g) <> [] -> root_sorted g st <> [].
  Proof. intros H E. unfold root_sorted in E. apply sort_moves_nil in E. congruence. Qed.

  (* the table between the iterations: the root's own entry only *)
  Definition IterT (k : Z) (t : table) : Prop :=
    TableAll (fun h e => h = g_hash g /\ e_depth e <= k /\ RK T_BOUND (e_score e)) t.

  Lemma IterT_TK k t : IterT k t -> TK T_BOUND t.
  Proof. intros H h e Hf. exact (proj2 (proj2 (H h e Hf))). Qed.

  Lemma root_low (k : nat) st :
    (1 <= k <= 2)%nat -> NS st -> IterT (Z.of_nat k - 1) (s_tbl st) ->
    (2 <= length (checked_moves g))%nat -> repetition_filter g (checked_moves g) <> [] ->
    exists bm sc st', root g st k = (Done (Some bm, sc, false), st') /\ RK T_BOUND sc /\ NS st' /\
                      IterT (Z.of_nat k) (s_tbl st').
  Proof.
    intros Hk Hns HI Hlen Hflt.
    destruct (root_loop_low (pred k) (s_tbl st) ltac:(lia) (IterT_TK _ _ HI)
                (root_sorted g (root_clear st)) 0 (mkR None (SCORE_MIN + 1) (root_clear st))
                (root_sorted_incl' g (root_clear st)))
      as (r' & El & [Hns' Et'] & Hsc & Hbest).
    { split; [exact Hns | reflexivity]. }
    { left. split; [reflexivity|]. split; [reflexivity | now apply root_sorted_nonempty]. }
    assert (Hhit : root_hit (tfind (s_tbl st) (g_hash g)) k = None).
    { apply (root_hit_shallow (s_tbl st) k (Z.of_nat k - 1)); [|lia].
      intros en Hf. exact (proj1 (proj2 (HI _ _ Hf))). }
    rewrite (root_via_loop st k r' Hlen Hhit El). cbn [root_finish].
    destruct (r_best r') as [bm|] eqn:Eb; [|congruence].
    exists bm, (r_bscore r'). eexists. split; [reflexivity|]. split; [exact Hsc|].
    split; [exact Hns'|]. cbn [with_tbl s_tbl]. rewrite Et'.
    apply TableAll_store_root.
    - intros h e Hf. destruct (HI h e Hf) as (H1 & H2 & H3). repeat split; [exact H1 | lia | apply H3 | apply H3].
    - cbn [e_depth e_score]. repeat split; [lia | apply Hsc | apply Hsc].
  Qed.

  (* -- iteration 3 -- *)

  (* the hashes under which iteration 3 may find or store an entry *)
  Definition HS (h : N) : Prop :=
    h = g_hash g \/ exists m2, In m2 (checked_moves g) /\ ~ mates g m2 /\ h = g_hash (push g m2).

  Definition TH (K : Z) (t : table) : Prop := TableAll (fun h e => HS h /\ RK K (e_score e)) t.

  Hypothesis NoColl : forall m, mates g m -> ~ HS (g_hash (push g m)).

  Lemma TH_TK K t : TH K t -> TK K t.
  Proof. intros H h e Hf. exact (proj2 (H h e Hf)). Qed.

  Lemma TH_mono K K' t : K <= K' -> TH K t -> TH K' t.
  Proof. intros HK H h e Hf. destruct (H h e Hf) as [H1 H2]. split; [exact H1 | rk]. Qed.

  Lemma TH_miss K t m : TH K t -> mates g m -> tfind t (g_hash (push g m)) = None.
  Proof.
    intros H Hm. destruct (tfind t (g_hash (push g m))) as [e|] eqn:Ef; [|reflexivity].
    exfalso. apply (NoColl m Hm). exact (proj1 (H _ _ Ef)).
  Qed.

  Lemma IterT_TH k t : IterT k t -> TH T_BOUND t.
  Proof. intros H h e Hf. destruct (H h e Hf) as (H1 & _ & H3). split; [left; exact H1 | exact H3]. Qed.

  (* a mating root move: the node below it returns the mate value at once and stores nothing *)
  Lemma mate_child m st a b :
    mates g m -> NS st -> tfind (s_tbl st) (g_hash (push g m)) = None ->
    node 2 (push g m) st 1 a b = (Done (- S_STAR), poll st).
  Proof.
    intros (Hin & Hd & Hc) Hns Hf. rewrite node_unfold. destruct (NS_poll st Hns) as (_ & Er & Et).
    rewrite Er. cbn [negb]. unfold node_body, node_entry. rewrite Et, Hf. cbn [option_map probe]. cbv iota.
    rewrite node_deep_eq, Hd. rewrite (no_move_score_check _ _ _ Hc). reflexivity.
  Qed.

  (* any other root move *)
  Lemma other_child K KT m st a b :
    30768 <= K <= 32767 ->
    (forall e real, 1 <= real <= 255 -> - KT <= e <= KT -> RK K (score_from_table e real)) ->
    (forall s real, 0 <= real <= 255 -> RK K s -> - KT <= score_to_table s real <= KT) ->
    In m (checked_moves g) -> ~ mates g m ->
    (checked_moves (push g m) = [] -> RK K (no_move_score (push g m) MATE_OFFSET_NODE 1)) ->
    NS st -> TH KT (s_tbl st) -> WK K a b ->
    exists s st', node 2 (push g m) st 1 a b = (Done s, st') /\ RK K s /\ NS st' /\ TH KT (s_tbl st').
  Proof.
    intros HK Hrd Hst Hm Hnm Hdead Hns HT Hw.
    destruct (node2_K K (proj1 HK) (proj2 HK) KT Hrd Hst (push g m) st 1 a b) as (s & st' & E & Hs & Hns' & Htb);
      try assumption.
    - now apply GB_push_checked.
    - now apply TH_TK.
    - lia.
    - exists s, st'. split; [exact E|]. split; [exact Hs|]. split; [exact Hns'|].
      destruct Htb as [-> | (ne & Hne & ->)]; [exact HT|].
      apply TableAll_store_node; [exact HT|]. split; [|exact Hne].
      right. exists m. repeat split; assumption.
  Qed.

  Definition PhA0 (r : rstate) : Prop := TH T_BOUND (s_tbl (r_st r)) /\ r_bscore r = SCORE_MIN + 1.
  Definition PhA1 (r : rstate) : Prop :=
    TH T_BOUND (s_tbl (r_st r)) /\ RK T_BOUND (r_bscore r) /\ r_best r <> None.
  Definition PhB (r : rstate) : Prop :=
    TH ST_BOUND (s_tbl (r_st r)) /\ r_bscore r = S_STAR /\ exists m, r_best r = Some m /\ mates g m.

  (* a non-mating move before any mating move was searched *)
  Lemma step_other_T m index r :
    In m (checked_moves g) -> ~ mates g m ->
    (checked_moves (push g m) = [] -> in_check_model (push g m) = false) ->
    NS (r_st r) -> (index = 0 /\ PhA0 r) \/ PhA1 r ->
    exists r', root_step g 2 m index r = Done r' /\ NS (r_st r') /\ PhA1 r'.
  Proof.
    intros Hm Hnm Hdead Hns H. unfold root_step.
    assert (Hd : checked_moves (push g m) = [] -> RK T_BOUND (no_move_score (push g m) MATE_OFFSET_NODE 1)).
    { intros E. rewrite (no_move_score_nocheck _ _ _ (Hdead E)). rk. }
    pose proof (fun st a b => other_child T_BOUND T_BOUND m st a b T_ok read_T store_T) as OC.
    destruct H as [[-> (HT & Hs)] | (HT & Hs & Hbm)].
    - change (0 <=? ROOT_FULL_WINDOW_LAST_INDEX) with true. cbv iota.
      destruct (OC (r_st r) (SCORE_MIN + 1) (- r_bscore r) Hm Hnm Hd Hns HT ltac:(rk))
        as (s & st1 & E & Hr & Hns1 & HT1).
      rewrite E, Hs.
      assert (El : (SCORE_MIN + 1 <? - s) = true) by (apply Z.ltb_lt; rk). rewrite El.
      eexists. split; [reflexivity|]. split; [exact Hns1|]. split; [exact HT1|].
      cbn [r_bscore r_best]. split; [rk | discriminate].
    - destruct (index <=? ROOT_FULL_WINDOW_LAST_INDEX).
      + destruct (OC (r_st r) (SCORE_MIN + 1) (- r_bscore r) Hm Hnm Hd Hns HT ltac:(rk))
          as (s & st1 & E & Hr & Hns1 & HT1).
        rewrite E.
        destruct (r_bscore r <? - s); (eexists; split; [reflexivity|]; split; [exact Hns1|]; split; [exact HT1|]);
          cbn [r_bscore r_best]; (split; [rk | first [discriminate | assumption]]).
      + destruct (OC (r_st r) (- r_bscore r - 1) (- r_bscore r) Hm Hnm Hd Hns HT ltac:(rk))
          as (s & st1 & E & Hr & Hns1 & HT1).
        rewrite E. destruct (r_bscore r <? - s).
        * destruct (OC st1 (SCORE_MIN + 1) (- - s) Hm Hnm Hd Hns1 HT1 ltac:(rk))
            as (s2 & st2 & E2 & Hr2 & Hns2 & HT2).
          rewrite E2. eexists. split; [reflexivity|]. split; [exact Hns2|]. split; [exact HT2|].
          cbn [r_bscore r_best]. split; [rk | discriminate].
        * eexists. split; [reflexivity|]. split; [exact Hns1|]. split; [exact HT1|].
          cbn [r_bscore r_best]. split; [rk | assumption].
  Qed.

  (* a non-mating move after a mating move was recorded: the record is kept *)
  Lemma step_other_S m index r :
    In m (checked_moves g) -> ~ mates g m -> NS (r_st r) -> PhB r ->
    exists r', root_step g 2 m index r = Done r' /\ NS (r_st r') /\ PhB r'.
  Proof.
    intros Hm Hnm Hns (HT & Hs & Hbm). unfold root_step.
    assert (Hd : checked_moves (push g m) = [] -> RK S_STAR (no_move_score (push g m) MATE_OFFSET_NODE 1)).
    { intros _. unfold no_move_score. destruct (king_exists _ _ && _); rk. }
    pose proof (fun st a b => other_child S_STAR ST_BOUND m st a b S_ok read_S store_S) as OC.
    destruct (index <=? ROOT_FULL_WINDOW_LAST_INDEX).
    - destruct (OC (r_st r) (SCORE_MIN + 1) (- r_bscore r) Hm Hnm Hd Hns HT ltac:(rk))
        as (s & st1 & E & Hr & Hns1 & HT1).
      rewrite E.
      assert (El : (r_bscore r <? - s) = false) by (apply Z.ltb_ge; rk). rewrite El.
      eexists. split; [reflexivity|]. split; [exact Hns1|]. split; [exact HT1|].
      cbn [r_bscore r_best]. split; assumption.
    - destruct (OC (r_st r) (- r_bscore r - 1) (- r_bscore r) Hm Hnm Hd Hns HT ltac:(rk))
        as (s & st1 & E & Hr & Hns1 & HT1).
      rewrite E.
      assert (El : (r_bscore r <? - s) = false) by (apply Z.ltb_ge; rk). rewrite El.
      eexists. split; [reflexivity|]. split; [exact Hns1|]. split; [exact HT1|].
      cbn [r_bscore r_best]. split; assumption.
  Qed.

  (* a mating move: recorded with S_STAR unless a mating move is recorded already *)
  Lemma step_mate m index r :
    mates g m -> NS (r_st r) -> TH ST_BOUND (s_tbl (r_st r)) -> r_bscore r < S_STAR \/ PhB r ->
    exists r', root_step g 2 m index r = Done r' /\ NS (r_st r') /\ PhB r'.
  Proof.
    intros Hm Hns HT H. unfold root_step.
    destruct (NS_poll (r_st r) Hns) as (Hns1 & _ & Et1).
    destruct (NS_poll (poll (r_st r)) Hns1) as (Hns2 & _ & Et2).
    assert (E1 : forall a b, node 2 (push g m) (r_st r) 1 a b = (Done (- S_STAR), poll (r_st r))).
    { intros a b. apply mate_child; [exact Hm | exact Hns | exact (TH_miss _ _ _ HT Hm)]. }
    assert (E2 : forall a b, node 2 (push g m) (poll (r_st r)) 1 a b = (Done (- S_STAR), poll (poll (r_st r)))).
    { intros a b. apply mate_child; [exact Hm | exact Hns1 |]. rewrite Et1. exact (TH_miss _ _ _ HT Hm). }
    rewrite !E1. cbv beta iota. rewrite E2. cbv beta iota.
    change (- - S_STAR) with S_STAR.
    assert (HT1 : TH ST_BOUND (s_tbl (poll (r_st r)))) by (rewrite Et1; exact HT).
    assert (HT2 : TH ST_BOUND (s_tbl (poll (poll (r_st r))))) by (rewrite Et2; exact HT1).
    destruct (r_bscore r <? S_STAR) eqn:El.
    - destruct (index <=? ROOT_FULL_WINDOW_LAST_INDEX);
        (eexists; split; [reflexivity|]); cbn [r_st];
        (split; [assumption|]); (split; [assumption|]); cbn [r_bscore r_best];
        (split; [reflexivity|]); exists m; (split; [reflexivity | exact Hm]).
    - apply Z.ltb_ge in El. destruct H as [Hlt | (_ & Hs & Hbm)]; [lia|].
      destruct (index <=? ROOT_FULL_WINDOW_LAST_INDEX);
        (eexists; split; [reflexivity|]); cbn [r_st];
        (split; [assumption|]); (split; [assumption|]); cbn [r_bscore r_best];
        (split; assumption).
  Qed.

  Lemma root_step3 m index r :
    In m (checked_moves g) -> NS (r_st r) -> (index = 0 /\ PhA0 r) \/ PhA1 r \/ PhB r ->
    exists r', root_step g 2 m index r = Done r' /\ NS (r_st r') /\ (PhA1 r' \/ PhB r') /\
               (PhB r -> PhB r') /\ (mates g m -> PhB r').
  Proof.
    intros Hm Hns H.
    destruct (mates_dec g m Hm) as [Hmate | [Hnm Hdead]].
    - destruct (step_mate m index r Hmate Hns) as (r' & E & Hns' & HB).
      + destruct H as [(_ & HT & _) | [(HT & _) | (HT & _)]];
          [apply (TH_mono T_BOUND); [unfold ST_BOUND; rk | exact HT] | apply (TH_mono T_BOUND); [unfold ST_BOUND; rk | exact HT] | exact HT].
      + destruct H as [(_ & _ & Hs) | [(_ & Hs & _) | HB]]; [left; rk | left; rk | right; exact HB].
      + exists r'. split; [exact E|]. split; [exact Hns'|]. split; [right; exact HB|]. split; intros _; exact HB.
    - destruct H as [HA | [HA | HB]].
      + destruct (step_other_T m index r Hm Hnm Hdead Hns (or_introl HA)) as (r' & E & Hns' & HA').
        exists r'. split; [exact E|]. split; [exact Hns'|]. split; [left; exact HA'|].
        split; [|intros Hx; contradiction].
        intros (_ & Hs & _). destruct HA as (_ & _ & Hs'). rewrite Hs' in Hs. discriminate.
      + destruct (step_other_T m index r Hm Hnm Hdead Hns (or_intror HA)) as (r' & E & Hns' & HA').
        exists r'. split; [exact E|]. split; [exact Hns'|]. split; [left; exact HA'|].
        split; [|intros Hx; contradiction].
        intros (_ & Hs & _). destruct HA as (_ & Hs' & _). exfalso. rk.
      + destruct (step_other_S m index r Hm Hnm Hns HB) as (r' & E & Hns' & HB').
        exists r'. split; [exact E|]. split; [exact Hns'|]. split; [right; exact HB'|].
        split; intros _; exact HB'.
  Qed.

  Lemma root_loop3 : forall ms index r,
    incl ms (checked_moves g) -> NS (r_st r) -> (index = 0 /\ PhA0 r) \/ PhA1 r \/ PhB r ->
    exists r', root_loop g 2 ms index r = Done r' /\ NS (r_st r') /\
               (PhB r \/ (exists m, In m ms /\ mates g m) -> PhB r').
  Proof.
    induction ms as [|m rest IH]; intros index r Hincl Hns H.
    - rewrite root_loop_nil. exists r. split; [reflexivity|]. split; [exact Hns|].
      intros [HB | (m & [] & _)]. exact HB.
    - rewrite root_loop_cons.
      assert (Hm : In m (checked_moves g)) by (apply Hincl; now left).
      destruct (root_step3 m index r Hm Hns H) as (r1 & E1 & Hns1 & H1 & HBB & HmB).
      rewrite E1.
      destruct (IH (index + 1) r1) as (r' & E' & Hns' & HB').
      { intros x Hx. apply Hincl. now right. }
      { exact Hns1. }
      { right. exact H1. }
      exists r'. split; [exact E'|]. split; [exact Hns'|].
      intros [HB | (m0 & [<- | Hin] & Hmate)]; apply HB'.
      + left. now apply HBB.
      + left. now apply HmB.
      + right. exists m0. now split.
  Qed.

  Lemma root_3 st :
    NS st -> IterT 2 (s_tbl st) -> (2 <= length (checked_moves g))%nat ->
    (exists m, mates g m /\ In m (repetition_filter g (checked_moves g))) ->
    exists bm st', root g st 3 = (Done (Some bm, S_STAR, false), st') /\ mates g bm /\ NS st'.
  Proof.
    intros Hns HI Hlen (m & Hmate & Hflt).
    destruct (root_loop3 (root_sorted g (root_clear st)) 0 (mkR None (SCORE_MIN + 1) (root_clear st))
                (root_sorted_incl' g (root_clear st)) Hns)
      as (r' & El & Hns' & HB).
    { left. split; [reflexivity|]. split; [|reflexivity]. exact (IterT_TH _ _ HI). }
    assert (Hhit : root_hit (tfind (s_tbl st) (g_hash g)) 3 = None).
    { apply (root_hit_shallow (s_tbl st) 3 2); [|lia].
      intros en Hf. exact (proj1 (proj2 (HI _ _ Hf))). }
    rewrite (root_via_loop st 3 r' Hlen Hhit El). cbn [root_finish].
    destruct HB as (_ & Hs & bm & Eb & Hbm).
    { right. exists m. split; [|exact Hmate]. unfold root_sorted. apply sort_moves_in. exact Hflt. }
    rewrite Eb, Hs. exists bm. eexists. split; [reflexivity|]. split; [exact Hbm | exact Hns'].
  Qed.
End Root.

(* ---- the driver ------------------------------------------------------------------------------------------------ *)

Lemma fresh_NS t stop_at : stop_at < 0 -> NS (fresh_state t stop_at false).
Proof.
  intros H. unfold NS, fresh_state. cbn [s_running s_stop_at s_polls s_tableless].
  split; [reflexivity|]. split; [exact H|]. split; [lia | reflexivity].
Qed.

Definition LimitOK (limit : option Z) : Prop :=
  match limit with Some d => 3 <= d | None => True end.

(* the explicit no-collision hypothesis: the hash of a mated child differs from the hash of the root
   and from the hash of every child that is not mated *)
Definition NoCollision (g : game) : Prop :=
  forall m, mates g m ->
    g_hash (push g m) <> g_hash g /\
    forall m2, In m2 (checked_moves g) -> ~ mates g m2 -> g_hash (push g m) <> g_hash (push g m2).

(* the root's repetition filter removes no mating move *)
Definition FilterKeepsMates (g : game) : Prop :=
  forall m, mates g m -> In m (repetition_filter g (checked_moves g)).

Lemma NoCollision_HS g : NoCollision g -> forall m, mates g m -> ~ HS g (g_hash (push g m)).
Proof.
  intros H m Hm [E | (m2 & Hin & Hnm & E)].
  - exact (proj1 (H m Hm) E).
  - exact (proj2 (H m Hm) m2 Hin Hnm E).
Qed.

Lemma exit_test_low limit depth s :
  LimitOK limit -> depth <= 2 -> RK T_BOUND s -> exit_test limit depth false s = false.
Proof.
  intros HL Hd Hs. unfold exit_test.
  assert (E1 : (SCORE_MAX - EXIT_BAND_HIGH <? s) = false) by (apply Z.ltb_ge; unfold EXIT_BAND_HIGH; rk).
  assert (E2 : (s <? SCORE_MIN + EXIT_BAND_LOW) = false) by (apply Z.ltb_ge; unfold EXIT_BAND_LOW; rk).
  rewrite E1, E2. destruct limit as [d|]; [|reflexivity].
  cbn [LimitOK] in HL. assert (E : (d <=? depth) = false) by (apply Z.leb_gt; lia).
  rewrite E. reflexivity.
Qed.

Lemma exit_test_mate limit : exit_test limit 3 false S_STAR = true.
Proof. unfold exit_test. destruct limit as [d|]; [destruct (d <=? 3)|]; reflexivity. Qed.

Lemma exit_test_only limit depth s : exit_test limit depth true s = true.
Proof.
  unfold exit_test. destruct (match limit with Some d => d <=? depth | None => false end); reflexivity.
Qed.

Lemma driver_trace_step n g st depth md best score only st1 :
  depth <= 255 -> root g st (Z.to_nat depth) = (Done (best, score, only), st1) ->
  driver_trace (S n) g st depth md =
    mkIt depth st (IDone best score only) ::
    (if exit_test md depth only score then [] else driver_trace n g st1 (depth + 1) md).
Proof.
  intros Hd E. cbn [driver_trace].
  assert (E255 : (255 <? depth) = false) by (apply Z.ltb_ge; lia).
  rewrite E255, E. reflexivity.
Qed.

Lemma driver_loop_step n g st depth md found lines best score only st1 :
  depth <= 255 -> root g st (Z.to_nat depth) = (Done (best, score, only), st1) ->
  driver_loop (S n) g st depth md found lines =
    if exit_test md depth only score
    then mkD (lines ++ info_lines depth score (s_tbl st1) g) best st1 true
    else driver_loop n g st1 (depth + 1) md best (lines ++ info_lines depth score (s_tbl st1) g).
Proof.
  intros Hd E. cbn [driver_loop].
  assert (E255 : (255 <? depth) = false) by (apply Z.ltb_ge; lia).
  rewrite E255, E. reflexivity.
Qed.

Lemma starting_depth_fresh g : starting_depth tempty g = 1.
Proof. unfold starting_depth. rewrite tfind_tempty. reflexivity. Qed.

(* the three root calls of the run *)
Lemma three_iterations g stop_at :
  GB g -> (exists m, mates g m) -> FilterKeepsMates g -> NoCollision g -> stop_at < 0 ->
  (2 <= length (checked_moves g))%nat ->
  exists b1 s1 st1 b2 s2 st2 m' st3,
    root g (fresh_state tempty stop_at false) 1 = (Done (Some b1, s1, false), st1) /\
    root g st1 2 = (Done (Some b2, s2, false), st2) /\
    root g st2 3 = (Done (Some m', S_STAR, false), st3) /\
    RK T_BOUND s1 /\ RK T_BOUND s2 /\ mates g m'.
Proof.
  intros Hg (m & Hm) Hflt Hnc Hstop Hlen.
  assert (Hne : repetition_filter g (checked_moves g) <> []).
  { intros E. pose proof (Hflt m Hm) as Hin. rewrite E in Hin. destruct Hin. }
  destruct (root_low g Hg 1 (fresh_state tempty stop_at false) ltac:(lia) (fresh_NS tempty stop_at Hstop)
              (TableAll_empty _) Hlen Hne) as (b1 & s1 & st1 & E1 & Hs1 & Hns1 & HI1).
  destruct (root_low g Hg 2 st1 ltac:(lia) Hns1 HI1 Hlen Hne) as (b2 & s2 & st2 & E2 & Hs2 & Hns2 & HI2).
  destruct (root_3 g Hg (NoCollision_HS g Hnc) st2 Hns2 HI2 Hlen) as (m' & st3 & E3 & Hm' & _).
  { exists m. split; [exact Hm | exact (Hflt m Hm)]. }
  exists b1, s1, st1, b2, s2, st2, m', st3.
  split; [exact E1|]. split; [exact E2|]. split; [exact E3|]. split; [exact Hs1|]. split; [exact Hs2 | exact Hm'].
Qed.

(* the whole run: the iterations and the final record of the driver *)
Theorem C10_mate_in_one_run g limit stop_at :
  GB g -> (exists m, mates g m) -> LimitOK limit -> FilterKeepsMates g -> NoCollision g -> stop_at < 0 ->
  let st0 := fresh_state tempty stop_at false in
  (exists m', mates g m' /\ checked_moves g = [m'] /\
     driver_iterations g tempty limit stop_at false = [mkIt 1 st0 (IDone (Some m') 0 true)] /\
     driver g tempty limit stop_at false = mkD (info_lines 1 0 tempty g) (Some m') st0 true)
  \/
  (exists b1 s1 st1 b2 s2 st2 m' st3,
     mates g m' /\ RK T_BOUND s1 /\ RK T_BOUND s2 /\
     driver_iterations g tempty limit stop_at false =
       [mkIt 1 st0 (IDone (Some b1) s1 false); mkIt 2 st1 (IDone (Some b2) s2 false);
        mkIt 3 st2 (IDone (Some m') S_STAR false)] /\
     driver g tempty limit stop_at false =
       mkD (info_lines 1 s1 (s_tbl st1) g ++ info_lines 2 s2 (s_tbl st2) g ++ info_lines 3 S_STAR (s_tbl st3) g)
           (Some m') st3 true).
Proof.
  intros Hg Hex HL Hflt Hnc Hstop st0.
  unfold driver_iterations, driver. rewrite starting_depth_fresh. fold st0.
  change 256%nat with (S (S (S 253))). generalize 253%nat. intros n.
  destruct (checked_moves g) as [|x [|y l]] eqn:Ecm.
  - exfalso. destruct Hex as (m & Hin & _). rewrite Ecm in Hin. destruct Hin.
  - left. exists x.
    assert (Hx : mates g x).
    { destruct Hex as (m & Hm). pose proof (proj1 Hm) as Hin. rewrite Ecm in Hin.
      destruct Hin as [<- | []]. exact Hm. }
    assert (E : root g st0 (Z.to_nat 1) = (Done (Some x, 0, true), st0)) by (rewrite root_unfold, Ecm; reflexivity).
    split; [exact Hx|]. split; [reflexivity|]. split.
    + rewrite (driver_trace_step _ g st0 1 limit _ _ _ _ ltac:(lia) E), exit_test_only. reflexivity.
    + rewrite (driver_loop_step _ g st0 1 limit None [] _ _ _ _ ltac:(lia) E), exit_test_only. reflexivity.
  - right.
    destruct (three_iterations g stop_at Hg Hex Hflt Hnc Hstop) as
      (b1 & s1 & st1 & b2 & s2 & st2 & m' & st3 & E1 & E2 & E3 & Hs1 & Hs2 & Hm').
    { rewrite Ecm. cbn [length]. lia. }
    fold st0 in E1.
    exists b1, s1, st1, b2, s2, st2, m', st3.
    split; [exact Hm'|]. split; [exact Hs1|]. split; [exact Hs2|]. split.
    + rewrite (driver_trace_step _ g st0 1 limit _ _ _ _ ltac:(lia) E1), (exit_test_low limit 1 s1 HL ltac:(lia) Hs1).
      change (1 + 1) with 2.
      rewrite (driver_trace_step _ g st1 2 limit _ _ _ _ ltac:(lia) E2), (exit_test_low limit 2 s2 HL ltac:(lia) Hs2).
      change (2 + 1) with 3.
      rewrite (driver_trace_step _ g st2 3 limit _ _ _ _ ltac:(lia) E3), exit_test_mate. reflexivity.
    + rewrite (driver_loop_step _ g st0 1 limit None [] _ _ _ _ ltac:(lia) E1), (exit_test_low limit 1 s1 HL ltac:(lia) Hs1).
      change (1 + 1) with 2.
      rewrite (driver_loop_step _ g st1 2 limit _ _ _ _ _ _ ltac:(lia) E2), (exit_test_low limit 2 s2 HL ltac:(lia) Hs2).
      change (2 + 1) with 3.
      rewrite (driver_loop_step _ g st2 3 limit _ _ _ _ _ _ ltac:(lia) E3), exit_test_mate.
      rewrite app_nil_l, <- app_assoc. reflexivity.
Qed.

(* C10: a mating move is announced *)
Theorem C10_mate_in_one_found g limit stop_at :
  GB g -> (exists m, mates g m) -> LimitOK limit -> FilterKeepsMates g -> NoCollision g -> stop_at < 0 ->
  exists m', d_move (driver g tempty limit stop_at false) = Some m' /\ mates g m'.
Proof.
  intros Hg Hex HL Hflt Hnc Hstop.
  destruct (C10_mate_in_one_run g limit stop_at Hg Hex HL Hflt Hnc Hstop)
    as [(m' & Hm' & _ & _ & ->) | (b1 & s1 & st1 & b2 & s2 & st2 & m' & st3 & Hm' & _ & _ & _ & ->)];
    exists m'; (split; [reflexivity | exact Hm']).
Qed.

(* C10: the search stops by itself: either the only-move shortcut at depth 1, or the iterations are
   exactly 1, 2, 3, the last one announcing the mating move with score 32667; nothing is aborted, and
   the last printed block is that of depth 3 with "score cp 32667" *)
Theorem C10_mate_in_one_stops g limit stop_at :
  GB g -> (exists m, mates g m) -> LimitOK limit -> FilterKeepsMates g -> NoCollision g -> stop_at < 0 ->
  let tr := driver_iterations g tempty limit stop_at false in
  let res := driver g tempty limit stop_at false in
  (exists m', mates g m' /\ checked_moves g = [m'] /\
     map it_depth tr = [1] /\ map it_end tr = [IDone (Some m') 0 true] /\
     d_lines res = info_lines 1 0 tempty g)
  \/
  (exists b1 s1 b2 s2 m' pre,
     mates g m' /\ - T_BOUND <= s1 <= T_BOUND /\ - T_BOUND <= s2 <= T_BOUND /\
     map it_depth tr = [1; 2; 3] /\
     map it_end tr = [IDone (Some b1) s1 false; IDone (Some b2) s2 false; IDone (Some m') S_STAR false] /\
     d_lines res = pre ++ info_lines 3 S_STAR (s_tbl (d_st res)) g).
Proof.
  intros Hg Hex HL Hflt Hnc Hstop. cbv zeta.
  destruct (C10_mate_in_one_run g limit stop_at Hg Hex HL Hflt Hnc Hstop)
    as [(m' & Hm' & Ecm & -> & ->) | (b1 & s1 & st1 & b2 & s2 & st2 & m' & st3 & Hm' & Hs1 & Hs2 & -> & ->)].
  - left. exists m'. split; [exact Hm'|]. split; [exact Ecm|]. repeat split.
  - right. exists b1, s1, b2, s2, m', (info_lines 1 s1 (s_tbl st1) g ++ info_lines 2 s2 (s_tbl st2) g).
    cbn [map it_depth it_end d_lines d_st]. rewrite <- app_assoc.
    split; [exact Hm'|]. split; [exact Hs1|]. split; [exact Hs2|]. repeat split.
Qed.

(* ---- the hypotheses as closed boolean checks ------------------------------------------------------------------ *)

Definition mated_b (g : game) : bool :=
  match checked_moves g with [] => in_check_model g | _ :: _ => false end.

Lemma mated_b_mates g m : In m (checked_moves g) -> (mated_b (push g m) = true <-> mates g m).
Proof.
  intros Hin. unfold mated_b, mates. split.
  - intros H. destruct (checked_moves (push g m)) as [|x l]; [|discriminate]. repeat split; assumption.
  - intros (_ & -> & H). exact H.
Qed.

Definition mate_exists_b (g : game) : bool := existsb (fun m => mated_b (push g m)) (checked_moves g).

Definition filter_keeps_mates_b (g : game) : bool :=
  forallb (fun m => negb (mated_b (push g m)) ||
                    existsb (move_eqb m) (repetition_filter g (checked_moves g))) (checked_moves g).

Definition no_collision_b (g : game) : bool :=
  forallb (fun m =>
    negb (mated_b (push g m)) ||
    (negb (g_hash (push g m) =? g_hash g)%N &&
     forallb (fun m2 => mated_b (push g m2) || negb (g_hash (push g m) =? g_hash (push g m2))%N)
             (checked_moves g)))
  (checked_moves g).

Lemma mate_exists_b_ok g : mate_exists_b g = true -> exists m, mates g m.
Proof.
  unfold mate_exists_b. intros H. apply existsb_exists in H. destruct H as (m & Hin & Hm).
  exists m. now apply (mated_b_mates g m Hin).
Qed.

Lemma filter_keeps_mates_b_ok g : filter_keeps_mates_b g = true -> FilterKeepsMates g.
Proof.
  unfold filter_keeps_mates_b. intros H m Hm. rewrite forallb_forall in H.
  specialize (H m (proj1 Hm)). apply Bool.orb_true_iff in H. destruct H as [H|H].
  - apply (mated_b_mates g m (proj1 Hm)) in Hm. rewrite Hm in H. discriminate.
  - apply existsb_exists in H. destruct H as (x & Hin & Hx).
    apply TextProofs.move_eqb_eq in Hx. subst x. exact Hin.
Qed.

Lemma no_collision_b_ok g : no_collision_b g = true -> NoCollision g.
Proof.
  unfold no_collision_b. intros H m Hm. rewrite forallb_forall in H.
  specialize (H m (proj1 Hm)). apply Bool.orb_true_iff in H. destruct H as [H|H].
  - apply (mated_b_mates g m (proj1 Hm)) in Hm. rewrite Hm in H. discriminate.
  - apply Bool.andb_true_iff in H. destruct H as [H1 H2]. split.
    + apply Bool.negb_true_iff, N.eqb_neq in H1. exact H1.
    + intros m2 Hin Hnm. rewrite forallb_forall in H2. specialize (H2 m2 Hin).
      apply Bool.orb_true_iff in H2. destruct H2 as [H2|H2].
      * exfalso. apply Hnm. now apply (mated_b_mates g m2 Hin).
      * apply Bool.negb_true_iff, N.eqb_neq in H2. exact H2.
Qed.

(* no repetition filter at all while fewer than five moves are recorded (e.g. after "position fen") *)
Lemma FilterKeepsMates_short g : (length (g_moves g) < 5)%nat -> FilterKeepsMates g.
Proof.
  intros H m Hm. unfold repetition_filter.
  destruct (g_moves g) as [|m1 [|m2 [|m3 [|m4 [|m5 t]]]]]; try exact (proj1 Hm).
  cbn [length] in H. lia.
Qed.

Corollary C10_mate_in_one_checked g limit stop_at :
  GB g -> mate_exists_b g = true -> filter_keeps_mates_b g = true -> no_collision_b g = true ->
  LimitOK limit -> stop_at < 0 ->
  exists m', d_move (driver g tempty limit stop_at false) = Some m' /\ mates g m'.
Proof.
  intros Hg H1 H2 H3 HL Hs.
  apply C10_mate_in_one_found; try assumption;
    [now apply mate_exists_b_ok | now apply filter_keeps_mates_b_ok | now apply no_collision_b_ok].
Qed.

(* ---- instances: the hypotheses are satisfiable ----------------------------------------------------------------- *)

From Coq Require Import String Ascii.
Open Scope string_scope.
Open Scope Z_scope.

(* back-rank mates: Ra1-a8 (sixteen legal moves) and Qe1xe8 *)
Definition BACK_RANK_R : game := imported (txt "6k1/5ppp/8/8/8/8/8/R3K3 w Q - 0 1").
Definition BACK_RANK_Q : game := imported (txt "4r1k1/6pp/8/8/8/8/8/K3Q3 w - - 0 1").

Definition Ra8 : Move := Normal (mkPiece Rook White) (0, 0) (7, 0) None.
Definition Qxe8 : Move := Normal (mkPiece Queen White) (0, 4) (7, 4) (Some (mkPiece Rook Black)).

Example back_rank_r_good : GB BACK_RANK_R.
Proof.
  split.
  - apply legal_reachable_good. apply (lr_import (txt "6k1/5ppp/8/8/8/8/8/R3K3 w Q - 0 1")); vm_compute; reflexivity.
  - unfold Bounded, BOUND. split; vm_compute; discriminate.
Qed.

Example back_rank_q_good : GB BACK_RANK_Q.
Proof.
  split.
  - apply legal_reachable_good. apply (lr_import (txt "4r1k1/6pp/8/8/8/8/8/K3Q3 w - - 0 1")); vm_compute; reflexivity.
  - unfold Bounded, BOUND. split; vm_compute; discriminate.
Qed.

Example back_rank_r_hyps :
  mate_exists_b BACK_RANK_R = true /\ filter_keeps_mates_b BACK_RANK_R = true /\ no_collision_b BACK_RANK_R = true /\
  mated_b (push BACK_RANK_R Ra8) = true /\ List.length (checked_moves BACK_RANK_R) = 16%nat.
Proof. vm_compute. repeat split; reflexivity. Qed.

Example back_rank_q_hyps :
  mate_exists_b BACK_RANK_Q = true /\ filter_keeps_mates_b BACK_RANK_Q = true /\ no_collision_b BACK_RANK_Q = true /\
  mated_b (push BACK_RANK_Q Qxe8) = true.
Proof. vm_compute. repeat split; reflexivity. Qed.

(* from the theorem: for every limit >= 3 or none, a mating move is announced *)
Example back_rank_r_mates limit :
  LimitOK limit ->
  exists m', d_move (driver BACK_RANK_R tempty limit (-1) false) = Some m' /\ mates BACK_RANK_R m'.
Proof.
  intros HL. destruct back_rank_r_hyps as (H1 & H2 & H3 & _).
  apply C10_mate_in_one_checked; try assumption; [exact back_rank_r_good | lia].
Qed.

Example back_rank_q_mates limit :
  LimitOK limit ->
  exists m', d_move (driver BACK_RANK_Q tempty limit (-1) false) = Some m' /\ mates BACK_RANK_Q m'.
Proof.
  intros HL. destruct back_rank_q_hyps as (H1 & H2 & H3 & _).
  apply C10_mate_in_one_checked; try assumption; [exact back_rank_q_good | lia].
Qed.

(* by evaluation: which move, which iterations, which scores *)
Example back_rank_r_run :
  d_move (driver BACK_RANK_R tempty (Some 3) (-1) false) = Some Ra8 /\
  d_move (driver BACK_RANK_R tempty None (-1) false) = Some Ra8 /\
  map it_depth (driver_iterations BACK_RANK_R tempty None (-1) false) = [1; 2; 3] /\
  (exists b1 s1 b2 s2,
     map it_end (driver_iterations BACK_RANK_R tempty None (-1) false) =
       [IDone b1 s1 false; IDone b2 s2 false; IDone (Some Ra8) 32667 false]) /\
  d_move (driver BACK_RANK_Q tempty (Some 3) (-1) false) = Some Qxe8 /\
  d_move (driver BACK_RANK_Q tempty None (-1) false) = Some Qxe8.
Proof.
  vm_compute. repeat split; try reflexivity.
  eexists. eexists. eexists. eexists. reflexivity.
Qed.

(* the limit hypothesis in the other usual form *)
Lemma LimitOK_iff limit : LimitOK limit <-> (limit = None \/ exists d, limit = Some d /\ 3 <= d).
Proof.
  split.
  - destruct limit as [d|]; cbn [LimitOK]; intros H; [right; exists d; now split | now left].
  - intros [-> | (d & -> & H)]; cbn [LimitOK]; [exact I | exact H].
Qed.


(* ---- the filter hypothesis holds for every game reached by legal play ----------------------------------------

   The repaired filter fires only on a record m1 :: m2 :: m3 :: m4 :: m5 :: _ (most recent first) with
   m1 = m5, m2 the reversal of m4, m3 the reversal of m5, all quiet Normal moves.  The game g was then
   reached as  y --m4--> g3 --m3--> g2 --m2--> g1 --m1--> g  by checked moves: the four moves cancel, so g
   and y have the same board, side to move and king squares.  Hence [push g m4] and g3 = [push_history y m4]
   have the same board, side, king squares and en passant file; if the side to move is in check there,
   no castling move is generated on either side, so both have the same checked moves.  m3 was a checked
   move of g3: [push g m4] is no checkmate, m4 is no mating move, and the filter removes nothing else. *)

From Chess Require Import Proofs.FenImport1 Proofs.TextProofs Proofs.LegalMoves.

Lemma push_g_moves g m : g_moves (push g m) = g_moves g.
Proof. rewrite push_eq, pf_moves. apply pg_moves. Qed.

Lemma update_phase_moves g : g_moves (update_phase g) = g_moves g.
Proof.
  rewrite update_phase_eq. destruct (negb (g_endgame g) && is_endgame g); reflexivity.
Qed.

Lemma push_history_moves g m : g_moves (push_history g m) = m :: g_moves g.
Proof. unfold push_history. rewrite push_g_moves, update_phase_moves. reflexivity. Qed.

Lemma push_history_board g m : g_board (push_history g m) = PushPop.push_board (g_board g) m.
Proof.
  unfold push_history. rewrite PushPop.push_board_eq.
  destruct (push_history_core g m) as (-> & _). reflexivity.
Qed.

Lemma push_g_player g m : g_player (push g m) = other (g_player g).
Proof. rewrite push_eq, pf_player, pg_player. reflexivity. Qed.

Lemma push_history_player g m : g_player (push_history g m) = other (g_player g).
Proof.
  unfold push_history. rewrite push_g_player.
  destruct (push_history_core g m) as (_ & -> & _). reflexivity.
Qed.

(* the last recorded move of a reachable game was a checked move of a reachable game *)
Lemma reachable_last g m rest :
  legal_reachable g -> g_moves g = m :: rest ->
  exists g', legal_reachable g' /\ In m (checked_moves g') /\ g = push_history g' m /\ g_moves g' = rest.
Proof.
  intros H. destruct H as [s g Hi Hs | g' m' Hr Hin]; intros E.
  - destruct (import_rule_easy s g Hi) as (_ & _ & Hm & _). congruence.
  - rewrite push_history_moves in E. injection E as E1 E2. subst m'. exists g'. repeat split; assumption.
Qed.

Lemma is_reversal_inv a b :
  is_reversal a b = true -> exists pc s e, a = Normal pc s e None /\ b = Normal pc e s None.
Proof.
  unfold is_reversal. destruct a as [p1 s1 e1 [c1|] | | | | ]; try discriminate.
  destruct b as [p2 s2 e2 [c2|] | | | | ]; try discriminate.
  intros H. apply Bool.andb_true_iff in H. destruct H as [H H3].
  apply Bool.andb_true_iff in H. destruct H as [H1 H2].
  apply piece_eqb_eq in H1. apply pos_eqb_eq in H2, H3. subst.
  exists p2, e2, s2. split; reflexivity.
Qed.

(* two quiet moves and their reversals restore the board *)
Lemma four_ply_board (B : board) pa sa ea pb sb eb :
  wf_grid B -> valid sa -> valid ea -> valid sb -> valid eb ->
  bget B sa = Some pa -> bget B ea = None ->
  bget (bset (bset B sa None) ea (Some pa)) sb = Some pb ->
  bget (bset (bset B sa None) ea (Some pa)) eb = None ->
  bget (bset (bset (bset (bset B sa None) ea (Some pa)) sb None) eb (Some pb)) ea = Some pa ->
  bget (bset (bset (bset (bset B sa None) ea (Some pa)) sb None) eb (Some pb)) sa = None ->
  bset (bset (bset (bset (bset (bset (bset (bset B sa None) ea (Some pa)) sb None) eb (Some pb))
                               ea None) sa (Some pa)) eb None) sb (Some pb) = B.
Proof.
  intros Hwf Vsa Vea Vsb Veb H1 H2 H3 H4 H5 H6.
  rewrite !bget_bset in H3, H4, H5, H6 by (try wf_tac; assumption).
  assert (F1 : sa <> ea) by congruence.
  assert (F2 : ea <> eb).
  { intros E. apply pos_eqb_eq in E. rewrite E in H4. discriminate. }
  assert (F3 : sa <> sb).
  { intros E. subst sb. destruct (pos_eqb ea sa) eqn:E1; [apply pos_eqb_eq in E1; congruence|].
    rewrite (proj2 (pos_eqb_eq sa sa) eq_refl) in H3. discriminate. }
  assert (F4 : sb <> eb) by (intros E; subst eb; congruence).
  assert (F5 : sb <> ea).
  { intros E. subst sb. destruct (pos_eqb eb ea) eqn:E1; [apply pos_eqb_eq in E1; congruence|].
    rewrite (proj2 (pos_eqb_eq ea ea) eq_refl) in H5. discriminate. }
  assert (F6 : eb <> sa).
  { intros E. subst eb. rewrite (proj2 (pos_eqb_eq sa sa) eq_refl) in H6. discriminate. }
  assert (N1 : pos_eqb ea sb = false) by (apply PushPop.pos_eqb_neq; congruence).
  assert (N2 : pos_eqb sa sb = false) by (apply PushPop.pos_eqb_neq; congruence).
  assert (N3 : pos_eqb ea eb = false) by (apply PushPop.pos_eqb_neq; congruence).
  assert (N4 : pos_eqb sa eb = false) by (apply PushPop.pos_eqb_neq; congruence).
  rewrite N1, N2 in H3. rewrite N3, N4 in H4.
  apply board_ext; [wf_tac | exact Hwf |]. intros q Vq.
  rewrite !bget_bset by (try wf_tac; assumption).
  pos_cases; congruence.
Qed.

(* the view of a game on which its move lists depend *)
Definition same_view (X Y : game) : Prop :=
  g_board X = g_board Y /\ g_player X = g_player Y /\ (forall c, king_pos X c = king_pos Y c) /\
  st_ep (gstate_of X) = st_ep (gstate_of Y).

Section View.
  Variables X Y : game.
  Hypothesis HV : same_view X Y.
  Hypothesis HC : castling_moves X = castling_moves Y.

  Let Hb : g_board X = g_board Y := proj1 HV.
  Let Hp : g_player X = g_player Y := proj1 (proj2 HV).
  Let Hk : forall c, king_pos X c = king_pos Y c := proj1 (proj2 (proj2 HV)).
  Let Hep : st_ep (gstate_of X) = st_ep (gstate_of Y) := proj2 (proj2 (proj2 HV)).

  Lemma ray_moves_view self p d : forall fuel x, ray_moves fuel X self p d x = ray_moves fuel Y self p d x.
  Proof.
    induction fuel as [|f IH]; intros x; cbn [ray_moves]; [reflexivity|].
    destruct (add p (scale x d)) as [np|]; [|reflexivity].
    unfold gget. rewrite Hb, Hp. destruct (bget (g_board Y) np); [reflexivity|].
    f_equal. apply IH.
  Qed.

  Lemma piece_moves_view self p : piece_moves X self p = piece_moves Y self p.
  Proof.
    unfold piece_moves. destruct (pk self);
      try (unfold slider_moves; apply flat_map_ext; intros d; apply ray_moves_view).
    - unfold knight_moves, own, gget. rewrite Hb, Hp. reflexivity.
    - unfold pawn_moves, gget. rewrite Hb, Hp, Hep. reflexivity.
    - unfold king_moves. rewrite HC. unfold king_steps, own, gget. rewrite Hb, Hp, Hk. reflexivity.
  Qed.

  Lemma pseudo_moves_all_view : pseudo_moves_all X = pseudo_moves_all Y.
  Proof.
    unfold pseudo_moves_all. apply flat_map_ext. intros p. unfold gget. rewrite Hb, Hp.
    destruct (bget (g_board Y) p) as [pc|]; [|reflexivity].
    destruct (color_eqb (po pc) (g_player Y)); [apply piece_moves_view | reflexivity].
  Qed.

  Lemma king_exists_view c : king_exists X c = king_exists Y c.
  Proof. unfold king_exists, gget. rewrite Hb, Hk. reflexivity. Qed.

  Lemma legal_after_view m : legal_after X m = legal_after Y m.
  Proof.
    rewrite !legal_after_eq, Hb, Hp.
    assert (E : king_pos (push_game X m) (g_player Y) = king_pos (push_game Y m) (g_player Y)).
    { rewrite !pg_kings, Hp. destruct m; rewrite ?Hk; reflexivity. }
    rewrite E. reflexivity.
  Qed.

  Lemma checked_moves_view : checked_moves X = checked_moves Y.
  Proof.
    unfold checked_moves, pseudo_moves. rewrite king_exists_view, Hp.
    destruct (king_exists Y (g_player Y)); [|reflexivity]. cbv zeta.
    unfold is_targeted. rewrite Hb, Hk, pseudo_moves_all_view.
    apply filter_ext. intros m. rewrite legal_after_view. reflexivity.
  Qed.
End View.

(* no castling move is generated while the side to move is in check *)
Lemma castling_moves_in_check g :
  RuleInv g -> king_exists g (g_player g) = true ->
  is_targeted g (king_pos g (g_player g)) (g_player g) = true -> castling_moves g = [].
Proof.
  intros R Hke Ht. destruct (ri_castle g R (g_player g) Hke) as [Hks Hqs].
  assert (Hhome : bget (g_board g) (home_row (g_player g), 4) = Some (mkPiece King (g_player g)) ->
                  is_targeted g (home_row (g_player g), 4) (g_player g) = true).
  { intros Hking. rewrite <- (ri_kings g R (home_row (g_player g), 4) (g_player g)); [exact Ht | | exact Hking].
    apply home_row_valid. lia. }
  unfold castling_moves. cbv zeta.
  destruct (g_player g); cbv iota in Hks, Hqs.
  - destruct (st_wk (gstate_of g)); destruct (st_wq (gstate_of g));
      try rewrite (Hhome (proj1 (Hks eq_refl))); try rewrite (Hhome (proj1 (Hqs eq_refl)));
      cbn [negb andb]; rewrite ?Bool.andb_false_r; reflexivity.
  - destruct (st_bk (gstate_of g)); destruct (st_bq (gstate_of g));
      try rewrite (Hhome (proj1 (Hks eq_refl))); try rewrite (Hhome (proj1 (Hqs eq_refl)));
      cbn [negb andb]; rewrite ?Bool.andb_false_r; reflexivity.
Qed.

(* the en passant file after a Normal move depends on the board and the move only *)
Lemma revoke_ep st cap e : st_ep (revoke_captured st cap e) = st_ep st.
Proof.
  unfold revoke_captured.
  repeat match goal with |- context [if ?c then _ else _] => destruct c end; reflexivity.
Qed.

Lemma normal_st1_ep g pc s : st_ep (normal_st1 g pc s) = 8.
Proof.
  unfold normal_st1, rook_from, clear_rights.
  repeat match goal with |- context [if ?c then _ else _] => destruct c end;
    try reflexivity; destruct (g_player g); reflexivity.
Qed.

Lemma push_normal_view g y pc s e cap :
  g_board g = g_board y -> g_player g = g_player y -> (forall c, king_pos g c = king_pos y c) ->
  same_view (push g (Normal pc s e cap)) (push y (Normal pc s e cap)).
Proof.
  intros Hb Hp Hk. unfold same_view.
  split; [rewrite !PushPop.push_board_eq, Hb; reflexivity|].
  split; [rewrite !push_g_player, Hp; reflexivity|].
  split.
  - intros c. rewrite !push_kings_eq, !pg_kings, Hp, !Hk. reflexivity.
  - rewrite !push_normal, !pf_gstate. unfold ep_step, gget.
    change (normal_game g pc s e) with (push_game g (Normal pc s e cap)).
    change (normal_game y pc s e) with (push_game y (Normal pc s e cap)).
    rewrite !pg_board, Hb.
    repeat match goal with |- context [if ?c then _ else _] => destruct c end;
      cbn [set_ep st_ep]; rewrite ?revoke_ep, ?normal_st1_ep; reflexivity.
Qed.

(* the cached king squares are determined by the board *)
Lemma kings_same g y :
  LegalInv g -> LegalInv y -> g_board g = g_board y -> forall c, king_pos g c = king_pos y c.
Proof.
  intros Lg Ly Hb c. pose proof (LegalInv_repinv y Ly) as Ry.
  assert (Hke : king_exists y c = true) by (destruct (LegalInv_kings y Ly); destruct c; assumption).
  pose proof (kingsinv_king y c (LegalInv_kingsinv y Ly) Hke) as Hking.
  rewrite <- Hb in Hking.
  exact (ri_kings g (proj2 (LegalInv_repinv g Lg)) (king_pos y c) c (king_pos_valid y c Ry) Hking).
Qed.

Lemma normal_gen_ok g pc s e :
  LegalInv g -> In (Normal pc s e None) (checked_moves g) ->
  valid s /\ valid e /\ bget (g_board g) s = Some pc /\ bget (g_board g) e = None.
Proof.
  intros L Hin. pose proof (gen_ok_checked g _ (LegalInv_repinv g L) Hin) as G. unfold gen_ok in G. cbv zeta in G.
  destruct G as (H1 & H2 & _ & H4 & H5 & _).
  split; [exact H1|]. split; [exact H2|]. split; [exact H4 | exact H5].
Qed.

Theorem filter_fires_not_mate g m1 m2 m3 m4 m5 rest :
  legal_reachable g -> g_moves g = m1 :: m2 :: m3 :: m4 :: m5 :: rest ->
  move_eqb m1 m5 && is_reversal m4 m2 && is_reversal m5 m3 = true -> ~ mates g m4.
Proof.
  intros Hr Hm Hf Hmate.
  apply Bool.andb_true_iff in Hf. destruct Hf as [Hf H3].
  apply Bool.andb_true_iff in Hf. destruct Hf as [H1 H2].
  apply move_eqb_eq in H1. subst m5.
  destruct (is_reversal_inv _ _ H2) as (pa & sa & ea & -> & ->).
  destruct (is_reversal_inv _ _ H3) as (pb & eb & sb & -> & ->).
  destruct (reachable_last g _ _ Hr Hm) as (g1 & Hr1 & Hin1 & Eg & Hm1).
  destruct (reachable_last g1 _ _ Hr1 Hm1) as (g2 & Hr2 & Hin2 & Eg1 & Hm2).
  destruct (reachable_last g2 _ _ Hr2 Hm2) as (g3 & Hr3 & Hin3 & Eg2 & Hm3).
  destruct (reachable_last g3 _ _ Hr3 Hm3) as (y & Hry & Hin4 & Eg3 & _).
  pose proof (legal_reachable_legalinv g Hr) as Lg.
  pose proof (legal_reachable_legalinv g2 Hr2) as L2.
  pose proof (legal_reachable_legalinv g3 Hr3) as L3.
  pose proof (legal_reachable_legalinv y Hry) as Ly.
  destruct (normal_gen_ok y _ _ _ Ly Hin4) as (Vsa & Vea & A1 & A2).
  destruct (normal_gen_ok g3 _ _ _ L3 Hin3) as (Vsb & Veb & A3 & A4).
  destruct (normal_gen_ok g2 _ _ _ L2 Hin2) as (_ & _ & A5 & A6).
  assert (B3 : g_board g3 = bset (bset (g_board y) sa None) ea (Some pa)).
  { rewrite Eg3, push_history_board. reflexivity. }
  assert (B2 : g_board g2 = bset (bset (g_board g3) sb None) eb (Some pb)).
  { rewrite Eg2, push_history_board. reflexivity. }
  assert (B1 : g_board g1 = bset (bset (g_board g2) ea None) sa (Some pa)).
  { rewrite Eg1, push_history_board. reflexivity. }
  assert (B0 : g_board g = bset (bset (g_board g1) eb None) sb (Some pb)).
  { rewrite Eg, push_history_board. reflexivity. }
  assert (Hb : g_board g = g_board y).
  { rewrite B0, B1, B2, B3. rewrite B3 in A3, A4. rewrite B2, B3 in A5, A6.
    apply four_ply_board; try assumption. apply (ci_board y (proj1 (LegalInv_repinv y Ly))). }
  assert (Hp : g_player g = g_player y).
  { rewrite Eg, push_history_player, Eg1, push_history_player, Eg2, push_history_player,
      Eg3, push_history_player, !other_other. reflexivity. }
  pose proof (kings_same g y Lg Ly Hb) as Hk.
  (* the game before m4, as push_history sees it *)
  set (y' := update_phase (with_moves y (Normal pa sa ea None :: g_moves y))) in *.
  assert (E3 : g3 = push y' (Normal pa sa ea None)) by exact Eg3.
  destruct (push_history_core y (Normal pa sa ea None)) as (Cb & Cp & _ & Ck). fold y' in Cb, Cp, Ck.
  assert (HV : same_view (push g (Normal pa sa ea None)) g3).
  { rewrite E3. apply push_normal_view.
    - now rewrite Cb.
    - now rewrite Cp.
    - intros c. now rewrite Ck. }
  destruct Hmate as (Hin & Hdead & Hchk).
  set (X := push g (Normal pa sa ea None)) in *.
  pose proof (legalinv_push g _ Lg Hin) as LX. fold X in LX.
  destruct LX as ((RX & KX) & KeX & _).
  assert (TX : is_targeted X (king_pos X (g_player X)) (g_player X) = true).
  { unfold in_check_model in Hchk. rewrite KeX in Hchk. cbn [andb] in Hchk.
    rewrite Bool.negb_involutive in Hchk. exact Hchk. }
  assert (CX : castling_moves X = []) by (apply castling_moves_in_check; [apply RX | exact KeX | exact TX]).
  assert (C3 : castling_moves g3 = []).
  { destruct L3 as ((R3 & _) & Ke3 & _). apply castling_moves_in_check; [apply R3 | exact Ke3 |].
    destruct HV as (Vb & Vp & Vk & _). unfold is_targeted in *. rewrite <- Vb, <- Vp, <- Vk. exact TX. }
  assert (E : checked_moves X = checked_moves g3).
  { apply checked_moves_view; [exact HV | now rewrite CX, C3]. }
  rewrite Hdead in E. rewrite <- E in Hin3. destruct Hin3.
Qed.

Lemma remove_last_or {A} (l : list A) d y :
  In y l -> y = last l d \/ In y (remove_last l).
Proof.
  induction l as [|a t IH]; intros H; [destruct H|].
  destruct t as [|b t'].
  - destruct H as [<- | []]. left. reflexivity.
  - destruct H as [<- | H].
    + right. left. reflexivity.
    + destruct (IH H) as [E | Hin].
      * left. exact E.
      * right. right. exact Hin.
Qed.

Lemma replace_first_keeps x d : forall ms r y,
  replace_first ms x (last ms d) = Some r -> In y ms -> y <> x -> In y r.
Proof.
  induction ms as [|m t IH]; intros r y H Hin Hne; [discriminate|].
  cbn [replace_first] in H. destruct (move_eqb x m) eqn:E.
  - apply move_eqb_eq in E. subst m. destruct Hin as [<- | Hin]; [congruence|].
    destruct t as [|b t']; [destruct Hin|]. injection H as <-.
    change (last (x :: b :: t') d) with (last (b :: t') d).
    destruct (remove_last_or (b :: t') d y Hin) as [-> | Hr]; [left; reflexivity | right; exact Hr].
  - destruct t as [|b t'].
    + cbn [replace_first option_map] in H. discriminate.
    + change (last (m :: b :: t') d) with (last (b :: t') d) in H.
      destruct (replace_first (b :: t') x (last (b :: t') d)) as [r'|] eqn:Er; cbn [option_map] in H;
        [|discriminate].
      injection H as <-. destruct Hin as [<- | Hin]; [left; reflexivity|].
      right. apply (IH r' y eq_refl Hin Hne).
Qed.

Lemma swap_remove_keeps ms x y : In y ms -> y <> x -> In y (swap_remove_move ms x).
Proof.
  intros Hin Hne. unfold swap_remove_move.
  destruct (replace_first ms x (last ms x)) as [r|] eqn:E; [|exact Hin].
  exact (replace_first_keeps x x ms r y E Hin Hne).
Qed.

(* the filter hypothesis of the C10 theorems, for every game reached by legal play *)
Theorem filter_keeps_mates_reachable g : legal_reachable g -> FilterKeepsMates g.
Proof.
  intros Hr m Hm. unfold repetition_filter.
  destruct (g_moves g) as [|m1 [|m2 [|m3 [|m4 [|m5 rest]]]]] eqn:Egm; try exact (proj1 Hm).
  destruct (move_eqb m1 m5 && is_reversal m4 m2 && is_reversal m5 m3) eqn:Ef; [|exact (proj1 Hm)].
  apply swap_remove_keeps; [exact (proj1 Hm)|].
  intros ->. exact (filter_fires_not_mate g m1 m2 m3 m4 m5 rest Hr Egm Ef Hm).
Qed.

(* C10 for every game of bounded material reached by legal play: no hypothesis on the filter *)
Theorem C10_mate_in_one_reachable g limit stop_at :
  legal_reachable g -> Bounded g -> (exists m, mates g m) -> LimitOK limit -> NoCollision g -> stop_at < 0 ->
  exists m', d_move (driver g tempty limit stop_at false) = Some m' /\ mates g m'.
Proof.
  intros Hr Hb Hex HL Hnc Hs.
  apply C10_mate_in_one_found; try assumption.
  - split; [now apply legal_reachable_good | exact Hb].
  - now apply filter_keeps_mates_reachable.
Qed.

Theorem C10_mate_in_one_stops_reachable g limit stop_at :
  legal_reachable g -> Bounded g -> (exists m, mates g m) -> LimitOK limit -> NoCollision g -> stop_at < 0 ->
  let tr := driver_iterations g tempty limit stop_at false in
  let res := driver g tempty limit stop_at false in
  (exists m', mates g m' /\ checked_moves g = [m'] /\
     map it_depth tr = [1] /\ map it_end tr = [IDone (Some m') 0 true] /\
     d_lines res = info_lines 1 0 tempty g)
  \/
  (exists b1 s1 b2 s2 m' pre,
     mates g m' /\ - T_BOUND <= s1 <= T_BOUND /\ - T_BOUND <= s2 <= T_BOUND /\
     map it_depth tr = [1; 2; 3] /\
     map it_end tr = [IDone (Some b1) s1 false; IDone (Some b2) s2 false; IDone (Some m') S_STAR false] /\
     d_lines res = pre ++ info_lines 3 S_STAR (s_tbl (d_st res)) g).
Proof.
  intros Hr Hb Hex HL Hnc Hs.
  apply C10_mate_in_one_stops; try assumption.
  - split; [now apply legal_reachable_good | exact Hb].
  - now apply filter_keeps_mates_reachable.
Qed.

(* ---- the records on which the unrepaired filter removed the only mating move ------------------------------------

   Before the repair "the root's repetition filter also requires the last four plies to be two quiet
   moves and their reversals" the filter fired on  m1 = m5 /\ m4 quiet  alone.  On the record
     position fen 6k1/7p/8/3R2R1/8/8/B7/K7 b - - 0 1 moves g8h8 g5g8 h8g8 d5g5 g8h8
   (the first Rg5-g8 was captured, the second rook took its place on g5 and opened the diagonal a2-g8)
   it removed Rg5-g8, the only mating move, and the engine played g5h5.  With the repaired filter
   h8g8 is a capture, no reversal of g8h8: the filter does not fire and the mate is played.  The same
   for the record with a capturing m4,
     position fen 5rk1/6pp/8/8/8/8/5r2/K3Q3 b - - 0 1 moves f8e8 e1e8 f2f8 e8e1 f8e8. *)

Fixpoint playable_b (ms : list Move) (g : game) : bool :=
  match ms with
  | [] => true
  | m :: t => existsb (move_eqb m) (checked_moves g) && playable_b t (push_history g m)
  end.

Lemma played_moves g0 : forall ms g,
  played_from g0 g -> playable_b ms g = true -> played_from g0 (fold_left push_history ms g).
Proof.
  induction ms as [|m t IH]; intros g Hp H; cbn [fold_left]; [exact Hp|].
  cbn [playable_b] in H. apply Bool.andb_true_iff in H. destruct H as [H1 H2].
  apply IH; [|exact H2]. apply pf_hist; [exact Hp|]. now apply existsb_move_eqb.
Qed.

Lemma reachable_moves : forall ms g,
  legal_reachable g -> playable_b ms g = true -> legal_reachable (fold_left push_history ms g).
Proof.
  induction ms as [|m t IH]; intros g Hr H; cbn [fold_left]; [exact Hr|].
  cbn [playable_b] in H. apply Bool.andb_true_iff in H. destruct H as [H1 H2].
  apply IH; [|exact H2]. apply lr_hist; [exact Hr|]. now apply existsb_move_eqb.
Qed.

Definition REC1_P0 : game := imported (txt "6k1/7p/8/3R2R1/8/8/B7/K7 b - - 0 1").
Definition REC1_MOVES : list Move :=
  [ Normal (mkPiece King Black) (7, 6) (7, 7) None;                          (* g8h8 *)
    Normal (mkPiece Rook White) (4, 6) (7, 6) None;                          (* g5g8 *)
    Normal (mkPiece King Black) (7, 7) (7, 6) (Some (mkPiece Rook White));   (* h8g8 *)
    Normal (mkPiece Rook White) (4, 3) (4, 6) None;                          (* d5g5 *)
    Normal (mkPiece King Black) (7, 6) (7, 7) None ].                        (* g8h8 *)
Definition REC1 : game := fold_left push_history REC1_MOVES REC1_P0.
Definition Rg5g8 : Move := Normal (mkPiece Rook White) (4, 6) (7, 6) None.

Definition REC2_P0 : game := imported (txt "5rk1/6pp/8/8/8/8/5r2/K3Q3 b - - 0 1").
Definition REC2_MOVES : list Move :=
  [ Normal (mkPiece Rook Black) (7, 5) (7, 4) None;                           (* f8e8 *)
    Normal (mkPiece Queen White) (0, 4) (7, 4) (Some (mkPiece Rook Black));   (* e1e8 *)
    Normal (mkPiece Rook Black) (1, 5) (7, 5) None;                           (* f2f8 *)
    Normal (mkPiece Queen White) (7, 4) (0, 4) None;                          (* e8e1 *)
    Normal (mkPiece Rook Black) (7, 5) (7, 4) None ].                         (* f8e8 *)
Definition REC2 : game := fold_left push_history REC2_MOVES REC2_P0.
Definition Qe1e8 : Move := Normal (mkPiece Queen White) (0, 4) (7, 4) (Some (mkPiece Rook Black)).

Example rec1_reachable : legal_reachable REC1 /\ Bounded REC1.
Proof.
  assert (H0 : legal_reachable REC1_P0)
    by (apply (lr_import (txt "6k1/7p/8/3R2R1/8/8/B7/K7 b - - 0 1")); vm_compute; reflexivity).
  split.
  - apply reachable_moves; [exact H0 | vm_compute; reflexivity].
  - apply (bounded_reachable REC1_P0 REC1).
    + now apply legal_reachable_good.
    + unfold Bounded, BOUND. split; vm_compute; discriminate.
    + apply played_moves; [apply pf_refl | vm_compute; reflexivity].
Qed.

Example rec2_reachable : legal_reachable REC2 /\ Bounded REC2.
Proof.
  assert (H0 : legal_reachable REC2_P0)
    by (apply (lr_import (txt "5rk1/6pp/8/8/8/8/5r2/K3Q3 b - - 0 1")); vm_compute; reflexivity).
  split.
  - apply reachable_moves; [exact H0 | vm_compute; reflexivity].
  - apply (bounded_reachable REC2_P0 REC2).
    + now apply legal_reachable_good.
    + unfold Bounded, BOUND. split; vm_compute; discriminate.
    + apply played_moves; [apply pf_refl | vm_compute; reflexivity].
Qed.

(* by evaluation: the only mating move, kept by the filter, played at depth 3 and without limit *)
Example repaired_record_mates :
  filter (fun m => mated_b (push REC1 m)) (checked_moves REC1) = [Rg5g8] /\
  existsb (move_eqb Rg5g8) (repetition_filter REC1 (checked_moves REC1)) = true /\
  mate_exists_b REC1 = true /\ filter_keeps_mates_b REC1 = true /\ no_collision_b REC1 = true /\
  d_move (driver REC1 tempty (Some 3) (-1) false) = Some Rg5g8 /\
  d_move (driver REC1 tempty None (-1) false) = Some Rg5g8 /\
  map it_depth (driver_iterations REC1 tempty None (-1) false) = [1; 2; 3].
Proof. vm_compute. repeat split; reflexivity. Qed.

Example repaired_capture_record_mates :
  filter (fun m => mated_b (push REC2 m)) (checked_moves REC2) = [Qe1e8] /\
  existsb (move_eqb Qe1e8) (repetition_filter REC2 (checked_moves REC2)) = true /\
  mate_exists_b REC2 = true /\ filter_keeps_mates_b REC2 = true /\ no_collision_b REC2 = true /\
  d_move (driver REC2 tempty (Some 3) (-1) false) = Some Qe1e8 /\
  d_move (driver REC2 tempty None (-1) false) = Some Qe1e8 /\
  map it_depth (driver_iterations REC2 tempty None (-1) false) = [1; 2; 3].
Proof. vm_compute. repeat split; reflexivity. Qed.

(* from the theorems: no hypothesis on the filter is needed on these reachable records *)
Example repaired_record_mates_thm limit :
  LimitOK limit ->
  exists m', d_move (driver REC1 tempty limit (-1) false) = Some m' /\ mates REC1 m'.
Proof.
  intros HL. destruct repaired_record_mates as (_ & _ & H1 & _ & H3 & _).
  destruct rec1_reachable as [Hr Hb].
  apply C10_mate_in_one_reachable; try assumption;
    [now apply mate_exists_b_ok | now apply no_collision_b_ok | lia].
Qed.

Example repaired_capture_record_mates_thm limit :
  LimitOK limit ->
  exists m', d_move (driver REC2 tempty limit (-1) false) = Some m' /\ mates REC2 m'.
Proof.
  intros HL. destruct repaired_capture_record_mates as (_ & _ & H1 & _ & H3 & _).
  destruct rec2_reachable as [Hr Hb].
  apply C10_mate_in_one_reachable; try assumption;
    [now apply mate_exists_b_ok | now apply no_collision_b_ok | lia].
Qed.

Print Assumptions quiescence_tight.
Print Assumptions depth1_tight.
Print Assumptions node2_K.
Print Assumptions root_3.
Print Assumptions C10_mate_in_one_run.
Print Assumptions C10_mate_in_one_found.
Print Assumptions C10_mate_in_one_stops.
Print Assumptions C10_mate_in_one_checked.
Print Assumptions back_rank_r_mates.
Print Assumptions back_rank_q_mates.
Print Assumptions back_rank_r_run.
Print Assumptions filter_fires_not_mate.
Print Assumptions filter_keeps_mates_reachable.
Print Assumptions C10_mate_in_one_reachable.
Print Assumptions C10_mate_in_one_stops_reachable.
Print Assumptions repaired_record_mates.
Print Assumptions repaired_capture_record_mates.
Print Assumptions repaired_record_mates_thm.
Print Assumptions repaired_capture_record_mates_thm.
