(* Reachable games: everything the engine can hold in memory, starting from a sane imported
   position and playing generated moves, satisfies the representation invariant. This is the
   induction over operation sequences that lifts the one-step lemmas to "every reachable game". *)
From Chess Require Import Model.Text Spec.Rules Spec.FenSpec Proofs.Grid Proofs.Inv Proofs.Abs Proofs.GenOk
  Proofs.PushPop Proofs.PushPop2 Proofs.FenImport1 Proofs.FenImport2.

(* [legal_reachable]: a sane imported position followed by legal (checked) moves played into
   the game record, as `position ... moves ...` and self-play do.
   [search_reachable]: additionally any generated move (checked or not) pushed on top, as the
   search does - including moves that expose the own king or capture the enemy king. *)
Inductive legal_reachable : game -> Prop :=
| lr_import s g : import s = Ok g -> sane (abs g) = true -> legal_reachable g
| lr_hist g m : legal_reachable g -> In m (checked_moves g) -> legal_reachable (push_history g m).

Inductive search_reachable : game -> Prop :=
| sr_legal g : legal_reachable g -> search_reachable g
| sr_push g m : search_reachable g -> In m (pseudo_moves g) -> search_reachable (push g m).

Definition Good (g : game) : Prop := RepInv g /\ KingsInv g.

Lemma import_good s g : import s = Ok g -> sane (abs g) = true -> Good g.
Proof.
  intros Hi Hs. split; [exact (import_rep_inv s g Hi Hs)|].
  destruct (import_rule_easy s g Hi) as (_ & _ & _ & _ & _ & _ & Hw & Hb).
  apply KingsInv_intro; assumption.
Qed.

Lemma good_push g m : Good g -> In m (pseudo_moves g) -> Good (push g m).
Proof.
  intros [Hr Hk] Hin. split.
  - apply push_repinv; auto using gen_ok_pseudo, gen_ok_x_pseudo.
  - apply push_kingsinv; auto using gen_ok_pseudo, gen_ok_x_pseudo. exact (pseudo_king g m Hin).
Qed.

Lemma good_push_history g m : Good g -> In m (checked_moves g) -> Good (push_history g m).
Proof.
  intros [Hr Hk] Hin. split.
  - apply push_history_repinv; auto using gen_ok_checked, gen_ok_x_checked.
  - apply push_history_kingsinv; auto using gen_ok_checked, gen_ok_x_checked. exact (checked_king g m Hin).
Qed.

Theorem legal_reachable_good g : legal_reachable g -> Good g.
Proof.
  induction 1 as [s g Hi Hs | g m _ IH Hin]; [exact (import_good s g Hi Hs) | exact (good_push_history g m IH Hin)].
Qed.

Theorem search_reachable_good g : search_reachable g -> Good g.
Proof.
  induction 1 as [g H | g m _ IH Hin]; [exact (legal_reachable_good g H) | exact (good_push g m IH Hin)].
Qed.

(* along any list of generated moves *)
Fixpoint playable (g : game) (ms : list Move) : Prop :=
  match ms with
  | [] => True
  | m :: t => In m (pseudo_moves g) /\ playable (push g m) t
  end.

Theorem search_reachable_fold g ms :
  search_reachable g -> playable g ms -> search_reachable (fold_left push ms g).
Proof.
  revert g. induction ms as [|m t IH]; intros g Hg Hp; cbn [fold_left]; [exact Hg|].
  destruct Hp as [Hin Hp]. apply IH; [now apply sr_push | exact Hp].
Qed.

(* non-vacuity: the start position and Kiwipete are reachable (sane imports) *)
Example start_reachable : legal_reachable START.
Proof. apply (lr_import START_FEN); vm_compute; reflexivity. Qed.
Example kiwipete_reachable : legal_reachable KIWIPETE.
Proof. apply (lr_import KIWIPETE_FEN); vm_compute; reflexivity. Qed.
