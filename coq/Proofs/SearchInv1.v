(* Structural invariants of the search model (Model/Search.v), part 1:
   unfolding equations, the generic invariant principle, table soundness (C06). *)
From Coq Require Import Lia Permutation FSets.FMapPositive.
From Chess Require Import Model.Search.

Open Scope Z_scope.

(* ---- named versions of the two move loops ------------------------------------------------- *)

Definition nrec := game -> sstate -> Z -> Z -> Z -> outcome Z * sstate.

Definition node_cutoff (real remaining : Z) (l : lstate) (m : Move) : lstate :=
  let st := l_st l in
  let st := with_killers st (zupd (s_killers st) real (Some m)) in
  let st := with_hist st (history_update (s_hist st) m remaining) in
  mkL (l_alpha l) (l_best l) (l_bscore l) st.

Definition node_step (rec : nrec) (g : game) (real beta : Z) (m : Move) (index : Z) (l : lstate)
  : outcome lstate :=
  let g1 := push g m in
  if index <=? PVS_FULL_WINDOW_LAST_INDEX then
    match rec g1 (l_st l) (real + 1) (- beta) (- l_alpha l) with
    | (Done s, st1) =>
        let score := - s in
        let '(bm, bs) := if l_bscore l <? score then (Some m, score) else (l_best l, l_bscore l) in
        Done (mkL (Z.max (l_alpha l) score) bm bs st1)
    | (Aborted sa, _) => Aborted sa
    | (OutOfFuel, _) => OutOfFuel
    end
  else
    match rec g1 (l_st l) (real + 1) (- l_alpha l - 1) (- l_alpha l) with
    | (Done s, st1) =>
        let test := - s in
        if l_bscore l <? test then
          match rec g1 st1 (real + 1) (- beta) (- test) with
          | (Done s2, st2) =>
              let score := - s2 in
              Done (mkL (Z.max (l_alpha l) score) (Some m) score st2)
          | (Aborted sa, _) => Aborted sa
          | (OutOfFuel, _) => OutOfFuel
          end
        else Done (mkL (l_alpha l) (l_best l) (l_bscore l) st1)
    | (Aborted sa, _) => Aborted sa
    | (OutOfFuel, _) => OutOfFuel
    end.

Definition node_loop (rec : nrec) (g : game) (real beta remaining : Z)
  : list Move -> Z -> lstate -> outcome lstate :=
  fix loop (ms : list Move) (index : Z) (l : lstate) : outcome lstate :=
  match ms with
  | [] => Done l
  | m :: rest =>
      match node_step rec g real beta m index l with
      | Done l' =>
          if beta <=? l_alpha l' then Done (node_cutoff real remaining l' m)
          else loop rest (index + 1) l'
      | Aborted sa => Aborted sa
      | OutOfFuel => OutOfFuel
      end
  end.

Definition entry_pv (e : option entry) : option Move :=
  match e with Some en => e_pv en | None => None end.

(* the table entry a node at ply [real] sees: mate scores recounted from the root (fix: score_from_table) *)
Definition node_entry (g : game) (st : sstate) (real : Z) : option entry :=
  option_map (entry_from_table real) (tfind (s_tbl st) (g_hash g)).

Lemma entry_pv_from_table real e : entry_pv (option_map (entry_from_table real) e) = entry_pv e.
Proof. destruct e; reflexivity. Qed.

Definition node_sorted_of (moves : list Move) (g : game) (st : sstate) (real : Z) : list Move :=
  sort_moves (fun m => move_score m (entry_pv (node_entry g st real))
                                  (znth (s_killers st) real None) (s_hist st)) moves.
Definition node_sorted (g : game) (st : sstate) (real : Z) : list Move :=
  node_sorted_of (checked_moves g) g st real.

Definition node_flag (l : lstate) (alpha beta : Z) : ntype :=
  if l_bscore l <=? alpha then UpperBound else if beta <=? l_bscore l then LowerBound else Exact.

Definition node_finish (g : game) (st : sstate) (real remaining alpha beta : Z) (res : outcome lstate)
  : outcome Z * sstate :=
  match res with
  | Done l =>
      let ne := mkEntry (score_to_table (l_bscore l) real) (l_best l) remaining (node_flag l alpha beta) in
      let st' := l_st l in
      (Done (l_alpha l), with_tbl st' (store_node (s_tbl st') (g_hash g) ne))
  | Aborted sa => (Aborted sa, sa)
  | OutOfFuel => (OutOfFuel, st)
  end.

(* the body of [node] after the poll, for remaining depth >= 2 *)
Definition node_deep (r : nat) (g : game) (st : sstate) (real alpha beta : Z) : outcome Z * sstate :=
  match checked_moves g with
  | [] => (Done (no_move_score g MATE_OFFSET_NODE real), st)
  | moves =>
      node_finish g st real (Z.of_nat (S (S r))) alpha beta
        (node_loop (node (S r)) g real beta (Z.of_nat (S (S r))) (node_sorted_of moves g st real) 0
                   (mkL alpha None SCORE_MIN st))
  end.

Definition node_body (rem : nat) (g : game) (st : sstate) (real alpha beta : Z) : outcome Z * sstate :=
  match probe (node_entry g st real) (Z.of_nat rem) alpha beta with
  | Some s => (Done s, st)
  | None =>
      match rem with
      | O => (lift (quiescence QFUEL g alpha beta real), st)
      | S O => (lift (depth1 g alpha beta real), st)
      | S (S r) => node_deep r g st real alpha beta
      end
  end.

Lemma node_unfold : forall rem g st real alpha beta,
  node rem g st real alpha beta =
  if negb (s_running (poll st)) then (Aborted (poll st), poll st)
  else node_body rem g (poll st) real alpha beta.
Proof.
  intros rem g st real alpha beta.
  destruct rem as [|[|r]]; reflexivity.
Qed.

Lemma node_deep_eq : forall r g st real alpha beta,
  node_deep r g st real alpha beta =
  match checked_moves g with
  | [] => (Done (no_move_score g MATE_OFFSET_NODE real), st)
  | _ =>
      node_finish g st real (Z.of_nat (S (S r))) alpha beta
        (node_loop (node (S r)) g real beta (Z.of_nat (S (S r))) (node_sorted g st real) 0
                   (mkL alpha None SCORE_MIN st))
  end.
Proof.
  intros. unfold node_deep, node_sorted. destruct (checked_moves g); reflexivity.
Qed.

Lemma node_loop_nil : forall rec g real beta remaining index l,
  node_loop rec g real beta remaining [] index l = Done l.
Proof. reflexivity. Qed.

Lemma node_loop_cons : forall rec g real beta remaining m rest index l,
  node_loop rec g real beta remaining (m :: rest) index l =
  match node_step rec g real beta m index l with
  | Done l' =>
      if beta <=? l_alpha l' then Done (node_cutoff real remaining l' m)
      else node_loop rec g real beta remaining rest (index + 1) l'
  | Aborted sa => Aborted sa
  | OutOfFuel => OutOfFuel
  end.
Proof. reflexivity. Qed.

(* ---- the root ------------------------------------------------------------------------------- *)

Definition root_step (g : game) (rem' : nat) (m : Move) (index : Z) (r : rstate) : outcome rstate :=
  let g1 := push g m in
  if index <=? ROOT_FULL_WINDOW_LAST_INDEX then
    match node rem' g1 (r_st r) 1 (SCORE_MIN + 1) (- r_bscore r) with
    | (Done s, st1) =>
        let score := - s in
        if r_bscore r <? score then Done (mkR (Some m) score st1)
        else Done (mkR (r_best r) (r_bscore r) st1)
    | (Aborted sa, _) => Aborted sa
    | (OutOfFuel, _) => OutOfFuel
    end
  else
    match node rem' g1 (r_st r) 1 (- r_bscore r - 1) (- r_bscore r) with
    | (Done s, st1) =>
        let score := - s in
        if r_bscore r <? score then
          match node rem' g1 st1 1 (SCORE_MIN + 1) (- score) with
          | (Done s2, st2) => Done (mkR (Some m) (- s2) st2)
          | (Aborted sa, _) => Aborted sa
          | (OutOfFuel, _) => OutOfFuel
          end
        else Done (mkR (r_best r) (r_bscore r) st1)
    | (Aborted sa, _) => Aborted sa
    | (OutOfFuel, _) => OutOfFuel
    end.

Definition root_loop (g : game) (rem' : nat) : list Move -> Z -> rstate -> outcome rstate :=
  fix loop (ms : list Move) (index : Z) (r : rstate) : outcome rstate :=
  match ms with
  | [] => Done r
  | m :: rest =>
      match root_step g rem' m index r with
      | Done r' => loop rest (index + 1) r'
      | Aborted sa => Aborted sa
      | OutOfFuel => OutOfFuel
      end
  end.

Lemma root_loop_nil : forall g rem' index r, root_loop g rem' [] index r = Done r.
Proof. reflexivity. Qed.

Lemma root_loop_cons : forall g rem' m rest index r,
  root_loop g rem' (m :: rest) index r =
  match root_step g rem' m index r with
  | Done r' => root_loop g rem' rest (index + 1) r'
  | Aborted sa => Aborted sa
  | OutOfFuel => OutOfFuel
  end.
Proof. reflexivity. Qed.

Definition root_hit (e : option entry) (depth : nat) : option entry :=
  match e with
  | Some en => if (Z.of_nat depth <=? e_depth en) && match e_flag en with Exact => true | _ => false end
               then Some en else None
  | None => None
  end.

Definition root_sorted (g : game) (st : sstate) : list Move :=
  sort_moves (fun m => move_score m (entry_pv (tfind (s_tbl st) (g_hash g))) None (s_hist st))
             (repetition_filter g (checked_moves g)).

Definition root_finish (g : game) (st : sstate) (depth : nat) (res : outcome rstate)
  : outcome (option Move * Z * bool) * sstate :=
  match res with
  | Done r =>
      let ne := mkEntry (r_bscore r) (r_best r) (Z.of_nat depth) Exact in
      let st' := r_st r in
      (Done (r_best r, r_bscore r, false),
       match r_best r with
       | Some _ => with_tbl st' (store_root (s_tbl st') (g_hash g) ne)
       | None => st'
       end)
  | Aborted sa => (Aborted sa, sa)
  | OutOfFuel => (OutOfFuel, st)
  end.

Definition root_clear (st : sstate) : sstate := with_killers st (repeat None (Z.to_nat KILLER_SLOTS)).

Definition root_main (g : game) (st : sstate) (depth : nat) : outcome (option Move * Z * bool) * sstate :=
  let st0 := root_clear st in
  match root_hit (tfind (s_tbl st0) (g_hash g)) depth with
  | Some en => (Done (e_pv en, e_score en, false), st0)
  | None =>
      root_finish g st0 depth
        (root_loop g (pred depth) (root_sorted g st0) 0 (mkR None (SCORE_MIN + 1) st0))
  end.

Lemma root_unfold : forall g st depth,
  root g st depth =
  match checked_moves g with
  | [m] => (Done (Some m, 0, true), st)
  | _ => root_main g st depth
  end.
Proof. reflexivity. Qed.

(* ---- sorting is a permutation --------------------------------------------------------------- *)

Lemma insert_by_key_perm : forall k m l, Permutation (insert_by_key k m l) ((k, m) :: l).
Proof.
  intros k m l. induction l as [|[k' m'] t IH]; cbn [insert_by_key].
  - apply Permutation_refl.
  - destruct (k <=? k').
    + apply Permutation_refl.
    + eapply perm_trans; [apply perm_skip, IH | apply perm_swap].
Qed.

Lemma sort_moves_perm : forall key ms, Permutation (sort_moves key ms) ms.
Proof.
  intros key ms. unfold sort_moves. induction ms as [|m t IH]; cbn [fold_right map].
  - apply Permutation_refl.
  - eapply perm_trans.
    + apply Permutation_map. apply insert_by_key_perm.
    + cbn [map snd]. apply perm_skip, IH.
Qed.

Lemma sort_moves_in : forall key ms m, In m (sort_moves key ms) <-> In m ms.
Proof.
  intros key ms m. split; intro H.
  - eapply Permutation_in; [apply sort_moves_perm | exact H].
  - eapply Permutation_in; [apply Permutation_sym, sort_moves_perm | exact H].
Qed.

Lemma sort_moves_nil : forall key ms, sort_moves key ms = [] -> ms = [].
Proof.
  intros key ms H. pose proof (sort_moves_perm key ms) as HP. rewrite H in HP.
  apply Permutation_nil in HP. exact HP.
Qed.

(* ---- the repetition filter only removes moves ------------------------------------------------- *)

Lemma remove_last_incl : forall (A : Type) (l : list A), incl (remove_last l) l.
Proof.
  intros A l. induction l as [|x t IH]; [apply incl_refl|].
  cbn [remove_last]. destruct t as [|y t']; [apply incl_nil_l|].
  apply incl_cons; [left; reflexivity|]. apply incl_tl. exact IH.
Qed.

Lemma replace_first_incl : forall ms x lastm r,
  replace_first ms x lastm = Some r -> forall y, In y r -> y = lastm \/ In y ms.
Proof.
  induction ms as [|m t IH]; intros x lastm r H y Hy; cbn [replace_first] in H; [discriminate|].
  destruct (move_eqb x m).
  - injection H as <-. destruct t as [|m' t']; [destruct Hy|].
    destruct Hy as [<-|Hy]; [left; reflexivity|].
    right. right. apply (remove_last_incl _ (m' :: t')). exact Hy.
  - destruct (replace_first t x lastm) as [r'|] eqn:E; cbn [option_map] in H; [|discriminate].
    injection H as <-. destruct Hy as [<-|Hy]; [right; left; reflexivity|].
    destruct (IH _ _ _ E _ Hy) as [->|Hin]; [left; reflexivity|right; right; exact Hin].
Qed.

Lemma replace_first_some_nonnil : forall ms x lastm r, replace_first ms x lastm = Some r -> ms <> [].
Proof. intros [|m t] x lastm r H; [discriminate|discriminate]. Qed.

Lemma last_in : forall (A : Type) (l : list A) d, l <> [] -> In (last l d) l.
Proof.
  intros A l d. induction l as [|x t IH]; intro H; [congruence|].
  destruct t as [|y t']; [left; reflexivity|].
  right. apply IH. discriminate.
Qed.

Lemma swap_remove_move_incl : forall ms x, incl (swap_remove_move ms x) ms.
Proof.
  intros ms x y Hy. unfold swap_remove_move in Hy.
  destruct (replace_first ms x (last ms x)) as [r|] eqn:E; [|exact Hy].
  destruct (replace_first_incl _ _ _ _ E _ Hy) as [->|Hin]; [|exact Hin].
  apply last_in. eapply replace_first_some_nonnil; eassumption.
Qed.

Lemma repetition_filter_incl : forall g ms, incl (repetition_filter g ms) ms.
Proof.
  intros g ms. unfold repetition_filter.
  destruct (g_moves g) as [|m1 [|m2 [|m3 [|m4 [|m5 t]]]]]; try apply incl_refl.
  destruct (move_eqb m1 m5 && is_reversal m4 m2 && is_reversal m5 m3); [apply swap_remove_move_incl | apply incl_refl].
Qed.

(* ---- the generic invariant principle ---------------------------------------------------------- *)

Definition omove_in (o : option Move) (ms : list Move) : Prop :=
  match o with Some m => In m ms | None => True end.

Section Generic.
  Variable Good : game -> Prop.
  Hypothesis Good_push : forall g m, Good g -> In m (checked_moves g) -> Good (push g m).

  (* [A rem real]: invariant of the arguments of every call of [node];
     [P]: invariant of the running state; [Qa]: what holds of the state returned with [Aborted] *)
  Variable A : nat -> Z -> Prop.
  Variables P Qa : sstate -> Prop.
  Hypothesis A_step : forall r real, A (S (S r)) real -> A (S r) (real + 1).
  Hypothesis P_poll : forall st, P st -> if s_running (poll st) then P (poll st) else Qa (poll st).
  Hypothesis P_killers : forall rem real st m,
    A rem real -> P st -> P (with_killers st (zupd (s_killers st) real (Some m))).
  Hypothesis P_hist : forall rem real st m,
    A rem real -> P st -> P (with_hist st (history_update (s_hist st) m (Z.of_nat rem))).
  Hypothesis P_store : forall rem real g st sc ob fl,
    A rem real -> Good g -> P st -> omove_in ob (checked_moves g) ->
    P (with_tbl st (store_node (s_tbl st) (g_hash g) (mkEntry sc ob (Z.of_nat rem) fl))).

  Definition node_post (r : outcome Z * sstate) : Prop :=
    match r with
    | (Done _, st') => P st'
    | (Aborted sa, st') => st' = sa /\ Qa sa
    | (OutOfFuel, st') => P st'
    end.

  Definition loop_post (ms : list Move) (o : outcome lstate) : Prop :=
    match o with
    | Done l => P (l_st l) /\ omove_in (l_best l) ms
    | Aborted sa => Qa sa
    | OutOfFuel => True
    end.

  Section Loop.
    Variable rec : nrec.
    Variable r : nat.
    Hypothesis rec_ok : forall g st real a b, A (S r) real -> Good g -> P st -> node_post (rec g st real a b).
    Variable g : game.
    Variables real beta : Z.
    Hypothesis HA : A (S (S r)) real.
    Hypothesis Hg : Good g.

    Lemma node_step_inv : forall m index l,
      In m (checked_moves g) -> P (l_st l) -> omove_in (l_best l) (checked_moves g) ->
      loop_post (checked_moves g) (node_step rec g real beta m index l).
    Proof.
      intros m index l Hm HP Hb. unfold node_step.
      assert (Hg1 : Good (push g m)) by (apply Good_push; assumption).
      assert (HA1 : A (S r) (real + 1)) by (apply A_step; exact HA).
      destruct (index <=? PVS_FULL_WINDOW_LAST_INDEX).
      - pose proof (rec_ok (push g m) (l_st l) (real + 1) (- beta) (- l_alpha l) HA1 Hg1 HP) as H1.
        destruct (rec (push g m) (l_st l) (real + 1) (- beta) (- l_alpha l)) as [[s|sa|] st1];
          cbn [node_post] in H1.
        + destruct (l_bscore l <? - s); cbn [loop_post l_st l_best omove_in]; split; assumption.
        + cbn [loop_post]. apply H1.
        + exact I.
      - pose proof (rec_ok (push g m) (l_st l) (real + 1) (- l_alpha l - 1) (- l_alpha l) HA1 Hg1 HP) as H1.
        destruct (rec (push g m) (l_st l) (real + 1) (- l_alpha l - 1) (- l_alpha l)) as [[s|sa|] st1];
          cbn [node_post] in H1.
        + destruct (l_bscore l <? - s).
          * pose proof (rec_ok (push g m) st1 (real + 1) (- beta) (- - s) HA1 Hg1 H1) as H2.
            destruct (rec (push g m) st1 (real + 1) (- beta) (- - s)) as [[s2|sa2|] st2];
              cbn [node_post] in H2.
            -- cbn [loop_post l_st l_best omove_in]. split; assumption.
            -- cbn [loop_post]. apply H2.
            -- exact I.
          * cbn [loop_post l_st l_best]. split; assumption.
        + cbn [loop_post]. apply H1.
        + exact I.
    Qed.

    Lemma node_loop_inv : forall ms index l,
      incl ms (checked_moves g) -> P (l_st l) -> omove_in (l_best l) (checked_moves g) ->
      loop_post (checked_moves g) (node_loop rec g real beta (Z.of_nat (S (S r))) ms index l).
    Proof.
      induction ms as [|m rest IH]; intros index l Hincl HP Hb.
      - rewrite node_loop_nil. cbn [loop_post]. split; assumption.
      - rewrite node_loop_cons.
        assert (Hm : In m (checked_moves g)) by (apply Hincl; left; reflexivity).
        pose proof (node_step_inv m index l Hm HP Hb) as Hs.
        destruct (node_step rec g real beta m index l) as [l'|sa|]; cbn [loop_post] in Hs.
        + destruct Hs as [HP' Hb'].
          destruct (beta <=? l_alpha l').
          * cbn [loop_post]. unfold node_cutoff. cbn [l_st l_best]. split; [|exact Hb'].
            pose proof (P_killers _ _ (l_st l') m HA HP') as HK.
            pose proof (P_hist _ _ _ m HA HK) as HH.
            exact HH.
          * apply IH; [|assumption|assumption].
            intros x Hx. apply Hincl. right. exact Hx.
        + exact Hs.
        + exact I.
    Qed.
  End Loop.

  Theorem node_inv : forall rem g st real a b,
    A rem real -> Good g -> P st -> node_post (node rem g st real a b).
  Proof.
    induction rem as [|rem IH]; intros g st real a b HA Hg HP; rewrite node_unfold;
      pose proof (P_poll st HP) as Hpoll;
      (destruct (s_running (poll st)); cbn [negb]; [|cbn [node_post]; split; [reflexivity|exact Hpoll]]);
      unfold node_body; (destruct (probe _ _ _ _); [exact Hpoll|]).
    - destruct (quiescence QFUEL g a b real); exact Hpoll.
    - destruct rem as [|r].
      + destruct (depth1 g a b real); exact Hpoll.
      + rewrite node_deep_eq. destruct (checked_moves g) as [|m0 ms0] eqn:Ecm; [exact Hpoll|].
        assert (Hincl : incl (node_sorted g (poll st) real) (checked_moves g)).
        { intros x Hx. unfold node_sorted, node_sorted_of in Hx. apply sort_moves_in in Hx. exact Hx. }
        pose proof (node_loop_inv (node (S r)) r (IH) g real b HA Hg
                      (node_sorted g (poll st) real) 0 (mkL a None SCORE_MIN (poll st)) Hincl Hpoll I) as HL.
        destruct (node_loop _ _ _ _ _ _ _ _) as [l|sa|]; cbn [loop_post] in HL; cbn [node_finish node_post].
        * destruct HL as [HP' Hb']. eapply P_store; eassumption.
        * split; [reflexivity|exact HL].
        * exact Hpoll.
  Qed.

  (* ---- root ---- *)
  Hypothesis P_clear : forall st, P st -> P (root_clear st).
  Hypothesis P_store_root : forall depth g st sc ob,
    A (pred depth) 1 -> Good g -> P st -> omove_in ob (checked_moves g) ->
    P (with_tbl st (store_root (s_tbl st) (g_hash g) (mkEntry sc ob (Z.of_nat depth) Exact))).

  (* where the move announced by a completed root call comes from *)
  Definition root_best_ok (g : game) (st : sstate) (depth : nat) (best : option Move) : Prop :=
    omove_in best (checked_moves g) \/
    exists en, tfind (s_tbl st) (g_hash g) = Some en /\ e_flag en = Exact /\
               Z.of_nat depth <= e_depth en /\ best = e_pv en.

  Definition root_post (g : game) (st : sstate) (depth : nat)
             (r : outcome (option Move * Z * bool) * sstate) : Prop :=
    match r with
    | (Done (best, _, _), st') => P st' /\ root_best_ok g st depth best
    | (Aborted sa, st') => st' = sa /\ Qa sa
    | (OutOfFuel, st') => P st'
    end.

  Definition rloop_post (ms : list Move) (o : outcome rstate) : Prop :=
    match o with
    | Done r => P (r_st r) /\ omove_in (r_best r) ms
    | Aborted sa => Qa sa
    | OutOfFuel => True
    end.

  Lemma root_step_inv : forall g rem' m index r,
    A rem' 1 -> Good g -> In m (checked_moves g) -> P (r_st r) -> omove_in (r_best r) (checked_moves g) ->
    rloop_post (checked_moves g) (root_step g rem' m index r).
  Proof.
    intros g rem' m index r HA Hg Hm HP Hb. unfold root_step.
    assert (Hg1 : Good (push g m)) by (apply Good_push; assumption).
    destruct (index <=? ROOT_FULL_WINDOW_LAST_INDEX).
    - pose proof (node_inv rem' (push g m) (r_st r) 1 (SCORE_MIN + 1) (- r_bscore r) HA Hg1 HP) as H1.
      destruct (node rem' (push g m) (r_st r) 1 (SCORE_MIN + 1) (- r_bscore r)) as [[s|sa|] st1];
        cbn [node_post] in H1.
      + destruct (r_bscore r <? - s); cbn [rloop_post r_st r_best omove_in]; split; assumption.
      + apply H1.
      + exact I.
    - pose proof (node_inv rem' (push g m) (r_st r) 1 (- r_bscore r - 1) (- r_bscore r) HA Hg1 HP) as H1.
      destruct (node rem' (push g m) (r_st r) 1 (- r_bscore r - 1) (- r_bscore r)) as [[s|sa|] st1];
        cbn [node_post] in H1.
      + destruct (r_bscore r <? - s).
        * pose proof (node_inv rem' (push g m) st1 1 (SCORE_MIN + 1) (- - s) HA Hg1 H1) as H2.
          destruct (node rem' (push g m) st1 1 (SCORE_MIN + 1) (- - s)) as [[s2|sa2|] st2];
            cbn [node_post] in H2.
          -- cbn [rloop_post r_st r_best omove_in]. split; assumption.
          -- apply H2.
          -- exact I.
        * cbn [rloop_post r_st r_best]. split; assumption.
      + apply H1.
      + exact I.
  Qed.

  Lemma root_loop_inv : forall g rem' ms index r,
    A rem' 1 -> Good g -> incl ms (checked_moves g) -> P (r_st r) -> omove_in (r_best r) (checked_moves g) ->
    rloop_post (checked_moves g) (root_loop g rem' ms index r).
  Proof.
    intros g rem'. induction ms as [|m rest IH]; intros index r HA Hg Hincl HP Hb.
    - rewrite root_loop_nil. split; assumption.
    - rewrite root_loop_cons.
      assert (Hm : In m (checked_moves g)) by (apply Hincl; left; reflexivity).
      pose proof (root_step_inv g rem' m index r HA Hg Hm HP Hb) as Hs.
      destruct (root_step g rem' m index r) as [r'|sa|]; cbn [rloop_post] in Hs.
      + destruct Hs as [HP' Hb']. apply IH; try assumption.
        intros x Hx. apply Hincl. right. exact Hx.
      + exact Hs.
      + exact I.
  Qed.

  Lemma root_sorted_incl : forall g st, incl (root_sorted g st) (checked_moves g).
  Proof.
    intros g st x Hx. unfold root_sorted in Hx. apply sort_moves_in in Hx.
    apply (repetition_filter_incl g _ x Hx).
  Qed.

  Lemma root_hit_some : forall e depth en,
    root_hit e depth = Some en -> e = Some en /\ e_flag en = Exact /\ Z.of_nat depth <= e_depth en.
  Proof.
    intros e depth en H. unfold root_hit in H. destruct e as [en'|]; [|discriminate].
    destruct (Z.of_nat depth <=? e_depth en') eqn:Ed; cbn [andb] in H; [|discriminate].
    destruct (e_flag en') eqn:Ef; try discriminate.
    injection H as <-. repeat split; try assumption. apply Z.leb_le. exact Ed.
  Qed.

  Lemma root_main_inv : forall g st depth,
    A (pred depth) 1 -> Good g -> P st -> root_post g st depth (root_main g st depth).
  Proof.
    intros g st depth HA Hg HP. unfold root_main. cbv zeta.
    pose proof (P_clear st HP) as HP0.
    destruct (root_hit (tfind (s_tbl (root_clear st)) (g_hash g)) depth) as [en|] eqn:Eh.
    - cbn [root_post]. split; [exact HP0|]. right. exists en.
      apply root_hit_some in Eh. destruct Eh as (E1 & E2 & E3).
      repeat split; assumption.
    - pose proof (root_loop_inv g (pred depth) (root_sorted g (root_clear st)) 0
                    (mkR None (SCORE_MIN + 1) (root_clear st)) HA Hg (root_sorted_incl _ _) HP0 I) as HL.
      destruct (root_loop _ _ _ _ _) as [r|sa|]; cbn [rloop_post] in HL; cbn [root_finish root_post].
      + destruct HL as [HP' Hb']. split; [|left; exact Hb'].
        destruct (r_best r) as [bm|] eqn:Ebm; [|exact HP'].
        rewrite <- Ebm. apply P_store_root; try assumption. rewrite Ebm. exact Hb'.
      + split; [reflexivity|exact HL].
      + exact HP0.
  Qed.

  Theorem root_inv : forall g st depth,
    A (pred depth) 1 -> Good g -> P st -> root_post g st depth (root g st depth).
  Proof.
    intros g st depth HA Hg HP. rewrite root_unfold.
    destruct (checked_moves g) as [|m [|m' t]] eqn:Ecm.
    - apply root_main_inv; assumption.
    - cbn [root_post]. split; [exact HP|]. left. cbn [omove_in]. rewrite Ecm. left. reflexivity.
    - apply root_main_inv; assumption.
  Qed.

  (* ---- driver ---- *)
  Hypothesis A_root : forall depth, depth <= 255 -> A (pred (Z.to_nat depth)) 1.

  Section Driver.
    Variable g : game.
    Hypothesis Hg : Good g.
    (* [M]: a property of announced moves that holds of generated moves and of cached moves *)
    Variable M : option Move -> Prop.
    Hypothesis M_checked : forall o, omove_in o (checked_moves g) -> M o.
    Hypothesis M_entry : forall st en, P st -> tfind (s_tbl st) (g_hash g) = Some en -> M (e_pv en).

    Lemma root_best_M : forall st depth best, P st -> root_best_ok g st depth best -> M best.
    Proof.
      intros st depth best HP [H|(en & E1 & _ & _ & ->)].
      - apply M_checked. exact H.
      - eapply M_entry; eassumption.
    Qed.

    Theorem driver_loop_inv : forall n st depth md found lines,
      P st -> M found ->
      let r := driver_loop n g st depth md found lines in
      (P (d_st r) \/ Qa (d_st r)) /\ M (d_move r).
    Proof.
      induction n as [|n IH]; intros st depth md found lines HP HM; cbn [driver_loop].
      - cbn [d_st d_move]. split; [left|]; assumption.
      - destruct (255 <? depth) eqn:Ed.
        + cbn [d_st d_move]. split; [left|]; assumption.
        + apply Z.ltb_ge in Ed.
          pose proof (root_inv g st (Z.to_nat depth) (A_root depth Ed) Hg HP) as HR.
          destruct (root g st (Z.to_nat depth)) as [[[[best score] only]|sa|] st1]; cbn [root_post] in HR.
          * destruct HR as [HP1 Hb]. pose proof (root_best_M _ _ _ HP Hb) as HMb.
            match goal with |- context [if ?c then _ else _] => destruct c end.
            -- cbn [d_st d_move]. split; [left|]; assumption.
            -- apply IH; assumption.
          * destruct HR as [-> HQ]. cbn [d_st d_move]. split; [right; exact HQ|].
            destruct found; [exact HM|]. apply M_checked.
            destruct (checked_moves g); [exact I|left; reflexivity].
          * cbn [d_st d_move]. split; [left|]; assumption.
    Qed.
  End Driver.
End Generic.

(* ---- the table as a finite map ------------------------------------------------------------------ *)

Lemma tkey_inj : forall h h', tkey h = tkey h' -> h = h'.
Proof.
  intros h h' H. unfold tkey in H.
  assert (E : N.pos (N.succ_pos h) = N.pos (N.succ_pos h')) by (rewrite H; reflexivity).
  rewrite !N.succ_pos_spec in E. apply N.succ_inj. exact E.
Qed.

Lemma tfind_tadd_same : forall t h e, tfind (tadd t h e) h = Some e.
Proof. intros. unfold tfind, tadd. apply PositiveMap.gss. Qed.

Lemma tfind_tadd_other : forall t h h' e, h <> h' -> tfind (tadd t h e) h' = tfind t h'.
Proof.
  intros t h h' e Hne. unfold tfind, tadd. apply PositiveMap.gso.
  intro E. apply Hne. symmetry. apply tkey_inj. exact E.
Qed.

Lemma tfind_tempty : forall h, tfind tempty h = None.
Proof. intros. unfold tfind, tempty. apply PositiveMap.gempty. Qed.

(* a property of (hash, entry) pairs holding of every table binding *)
Definition TableAll (Q : N -> entry -> Prop) (t : table) : Prop :=
  forall h e, tfind t h = Some e -> Q h e.

Lemma TableAll_empty : forall Q, TableAll Q tempty.
Proof. intros Q h e H. rewrite tfind_tempty in H. discriminate. Qed.

Lemma TableAll_tadd : forall Q t h e, TableAll Q t -> Q h e -> TableAll Q (tadd t h e).
Proof.
  intros Q t h e Ht He h' e' H.
  destruct (N.eq_dec h h') as [<-|Hne].
  - rewrite tfind_tadd_same in H. injection H as <-. exact He.
  - rewrite tfind_tadd_other in H by exact Hne. apply Ht. exact H.
Qed.

Lemma TableAll_store_node : forall Q t h e, TableAll Q t -> Q h e -> TableAll Q (store_node t h e).
Proof.
  intros Q t h e Ht He. unfold store_node.
  destruct (tfind t h) as [old|]; [|apply TableAll_tadd; assumption].
  destruct (_ || _); [apply TableAll_tadd; assumption|exact Ht].
Qed.

Lemma TableAll_store_root : forall Q t h e, TableAll Q t -> Q h e -> TableAll Q (store_root t h e).
Proof.
  intros Q t h e Ht He. unfold store_root.
  destruct (tfind t h) as [old|]; [|apply TableAll_tadd; assumption].
  destruct (_ <=? _); [apply TableAll_tadd; assumption|exact Ht].
Qed.

Lemma poll_tbl : forall st, s_tbl (poll st) = if s_tableless st then tempty else s_tbl st.
Proof. reflexivity. Qed.

Lemma TableAll_poll : forall Q st, TableAll Q (s_tbl st) -> TableAll Q (s_tbl (poll st)).
Proof.
  intros Q st H. rewrite poll_tbl. destruct (s_tableless st); [apply TableAll_empty|exact H].
Qed.

(* ---- A. table soundness (C06) ---------------------------------------------------------------------- *)

Section TableSoundness.
  Variable Good : game -> Prop.
  Hypothesis Good_push : forall g m, Good g -> In m (checked_moves g) -> Good (push g m).

  Definition entry_sound (h : N) (e : entry) : Prop :=
    exists g0, g_hash g0 = h /\ Good g0 /\
               match e_pv e with Some m => In m (checked_moves g0) | None => True end.

  Definition TableSound (t : table) : Prop := forall h e, tfind t h = Some e -> entry_sound h e.

  Let PT (st : sstate) : Prop := TableSound (s_tbl st).
  Let AT (_ : nat) (_ : Z) : Prop := True.

  Lemma PT_poll : forall st, PT st -> if s_running (poll st) then PT (poll st) else PT (poll st).
  Proof.
    intros st H. assert (PT (poll st)) by (apply (TableAll_poll entry_sound); exact H).
    destruct (s_running (poll st)); assumption.
  Qed.

  Lemma PT_store : forall rem real g st sc ob fl,
    AT rem real -> Good g -> PT st -> omove_in ob (checked_moves g) ->
    PT (with_tbl st (store_node (s_tbl st) (g_hash g) (mkEntry sc ob (Z.of_nat rem) fl))).
  Proof.
    intros rem real g st sc ob fl _ Hg HP Hb. unfold PT. cbn [with_tbl s_tbl].
    apply (TableAll_store_node entry_sound); [exact HP|].
    exists g. repeat split; try assumption.
  Qed.

  Lemma PT_store_root : forall depth g st sc ob,
    AT (pred depth) 1 -> Good g -> PT st -> omove_in ob (checked_moves g) ->
    PT (with_tbl st (store_root (s_tbl st) (g_hash g) (mkEntry sc ob (Z.of_nat depth) Exact))).
  Proof.
    intros depth g st sc ob _ Hg HP Hb. unfold PT. cbn [with_tbl s_tbl].
    apply (TableAll_store_root entry_sound); [exact HP|].
    exists g. repeat split; try assumption.
  Qed.

  Lemma node_table_post : forall rem g st real alpha beta,
    Good g -> TableSound (s_tbl st) -> node_post PT PT (node rem g st real alpha beta).
  Proof.
    intros. apply (node_inv Good Good_push AT PT PT); try assumption; try exact I.
    - intros; exact I.
    - apply PT_poll.
    - intros; assumption.
    - intros; assumption.
    - apply PT_store.
  Qed.

  (* A1 *)
  Theorem node_table_sound : forall rem g st real alpha beta,
    Good g -> TableSound (s_tbl st) ->
    TableSound (s_tbl (snd (node rem g st real alpha beta))).
  Proof.
    intros rem g st real alpha beta Hg Ht.
    pose proof (node_table_post rem g st real alpha beta Hg Ht) as H.
    destruct (node rem g st real alpha beta) as [[s|sa|] st']; cbn [node_post snd] in *.
    - exact H.
    - destruct H as [-> H]. exact H.
    - exact H.
  Qed.

  (* the table carried by an [Aborted] result is sound as well *)
  Theorem node_aborted_table_sound : forall rem g st real alpha beta sa st',
    Good g -> TableSound (s_tbl st) ->
    node rem g st real alpha beta = (Aborted sa, st') -> st' = sa /\ TableSound (s_tbl sa).
  Proof.
    intros rem g st real alpha beta sa st' Hg Ht E.
    pose proof (node_table_post rem g st real alpha beta Hg Ht) as H.
    rewrite E in H. exact H.
  Qed.

  Lemma root_table_post : forall g st depth,
    Good g -> TableSound (s_tbl st) -> root_post PT PT g st depth (root g st depth).
  Proof.
    intros. apply (root_inv Good Good_push AT PT PT); try assumption; try exact I.
    - intros; exact I.
    - apply PT_poll.
    - intros; assumption.
    - intros; assumption.
    - apply PT_store.
    - intros; assumption.
    - apply PT_store_root.
  Qed.

  (* A2 *)
  Theorem root_table_sound : forall g st depth,
    Good g -> TableSound (s_tbl st) -> TableSound (s_tbl (snd (root g st depth))).
  Proof.
    intros g st depth Hg Ht.
    pose proof (root_table_post g st depth Hg Ht) as H.
    destruct (root g st depth) as [[[[best sc] only]|sa|] st']; cbn [root_post snd] in *.
    - apply H.
    - destruct H as [-> H]. exact H.
    - exact H.
  Qed.

  (* a move generated in some good game with the hash of [g] *)
  Definition hash_witness (g : game) (m : Move) : Prop :=
    exists g0, Good g0 /\ g_hash g0 = g_hash g /\ In m (checked_moves g0).

  Definition move_sound (g : game) (o : option Move) : Prop :=
    match o with
    | Some m => In m (checked_moves g) \/ hash_witness g m
    | None => True
    end.

  Lemma move_sound_checked : forall g o, omove_in o (checked_moves g) -> move_sound g o.
  Proof. intros g [m|] H; [left; exact H|exact I]. Qed.

  Lemma move_sound_entry : forall g st en,
    PT st -> tfind (s_tbl st) (g_hash g) = Some en -> move_sound g (e_pv en).
  Proof.
    intros g st en HP E. destruct (HP _ _ E) as (g0 & Eh & Hg0 & Hpv).
    unfold move_sound. destruct (e_pv en) as [m|]; [|exact I].
    right. exists g0. repeat split; assumption.
  Qed.

  Theorem root_move_sound : forall g st depth best score only st',
    Good g -> TableSound (s_tbl st) ->
    root g st depth = (Done (best, score, only), st') ->
    match best with
    | Some m => In m (checked_moves g) \/
                (exists g0, Good g0 /\ g_hash g0 = g_hash g /\ In m (checked_moves g0))
    | None => True
    end.
  Proof.
    intros g st depth best score only st' Hg Ht E.
    pose proof (root_table_post g st depth Hg Ht) as H. rewrite E in H.
    cbn [root_post] in H. destruct H as [_ [H|(en & E1 & _ & _ & ->)]].
    - apply (move_sound_checked g best H).
    - apply (move_sound_entry g st en Ht E1).
  Qed.

  (* sharper: a move that is not in the checked list was returned by the exact-hit shortcut *)
  Theorem root_move_origin : forall g st depth best score only st',
    Good g -> TableSound (s_tbl st) ->
    root g st depth = (Done (best, score, only), st') ->
    omove_in best (checked_moves g) \/
    exists en, tfind (s_tbl st) (g_hash g) = Some en /\ e_flag en = Exact /\
               Z.of_nat depth <= e_depth en /\ best = e_pv en /\ entry_sound (g_hash g) en.
  Proof.
    intros g st depth best score only st' Hg Ht E.
    pose proof (root_table_post g st depth Hg Ht) as H. rewrite E in H.
    cbn [root_post] in H. destruct H as [_ [H|(en & E1 & E2 & E3 & E4)]].
    - left. exact H.
    - right. exists en. repeat split; try assumption. apply Ht. exact E1.
  Qed.

  (* A3 *)
  Lemma fresh_state_tbl : forall t stop_at tableless, s_tbl (fresh_state t stop_at tableless) = t.
  Proof. reflexivity. Qed.

  Lemma driver_table_move : forall g t limit stop_at tableless,
    Good g -> TableSound t ->
    let r := driver g t limit stop_at tableless in
    (PT (d_st r) \/ PT (d_st r)) /\ move_sound g (d_move r).
  Proof.
    intros g t limit stop_at tableless Hg Ht. unfold driver.
    apply (driver_loop_inv Good Good_push AT PT PT); try assumption; try exact I.
    - intros; exact I.
    - apply PT_poll.
    - intros; assumption.
    - intros; assumption.
    - apply PT_store.
    - intros; assumption.
    - apply PT_store_root.
    - intros; exact I.
    - apply move_sound_checked.
    - apply move_sound_entry.
  Qed.

  Theorem driver_table_sound : forall g t limit stop_at tableless,
    Good g -> TableSound t -> TableSound (s_tbl (d_st (driver g t limit stop_at tableless))).
  Proof.
    intros g t limit stop_at tableless Hg Ht.
    pose proof (driver_table_move g t limit stop_at tableless Hg Ht) as H.
    cbv zeta in H. revert H. generalize (driver g t limit stop_at tableless).
    intros r [[H|H] _]; exact H.
  Qed.

  Theorem driver_move_sound : forall g t limit stop_at tableless,
    Good g -> TableSound t ->
    match d_move (driver g t limit stop_at tableless) with
    | Some m => In m (checked_moves g) \/
                (exists g0, Good g0 /\ g_hash g0 = g_hash g /\ In m (checked_moves g0))
    | None => True
    end.
  Proof.
    intros g t limit stop_at tableless Hg Ht.
    pose proof (driver_table_move g t limit stop_at tableless Hg Ht) as H.
    cbv zeta in H. revert H. generalize (driver g t limit stop_at tableless).
    intros r [_ H]. exact H.
  Qed.
End TableSoundness.

Print Assumptions node_table_sound.
Print Assumptions node_aborted_table_sound.
Print Assumptions root_table_sound.
Print Assumptions root_move_sound.
Print Assumptions root_move_origin.
Print Assumptions driver_table_sound.
Print Assumptions driver_move_sound.
