(* The engine's move-path counter (Model/Perft.v, src/performance_test.rs) equals the rules' perft
   (Spec/Rules.v) on every game that satisfies the legal-play invariant, as long as the 256-entry
   move buffer never truncates inside the explored tree.

     FitsTree n g                   [Fits] at g and at every game reached by up to n-1 checked moves
     perft_model_is_rules_perft     LegalInv g -> FitsTree n g -> perft_model n g = perft n (abs g)
     perft_depth1_is_length         the depth-1 shortcut is the number of legal moves
     perft_model_import             the same for every imported sane position
     examples                       START 20 / 400 / 8902 / 197281, KIWIPETE 48 / 2039 / 97862 *)
From Coq Require Import Lia Permutation.
From Chess Require Import Model.Text Model.Perft Spec.Rules
  Proofs.Grid Proofs.Inv Proofs.Abs Proofs.PushApplyGen Proofs.LegalMoves.
Open Scope Z_scope.

(* ================================================================================================ *)
(* Part 1: sums over lists                                                                           *)
(* ================================================================================================ *)

Fixpoint sumN {A : Type} (f : A -> N) (l : list A) : N :=
  match l with
  | [] => 0%N
  | x :: l' => (f x + sumN f l')%N
  end.

Lemma fold_add_sumN {A : Type} (f : A -> N) (l : list A) (a : N) :
  fold_left (fun acc x => (acc + f x)%N) l a = (a + sumN f l)%N.
Proof.
  revert a. induction l as [|x l IH]; intros a; cbn [fold_left sumN].
  - lia.
  - rewrite IH. lia.
Qed.

(* folding [N.add] of a function over a list does not depend on the order of the list *)
Lemma sumN_perm {A : Type} (f : A -> N) (l l' : list A) :
  Permutation l l' -> sumN f l = sumN f l'.
Proof.
  intros HP. induction HP as [|x l l' HP IH|x y l|l l' l'' HP1 IH1 HP2 IH2]; cbn [sumN].
  - reflexivity.
  - now rewrite IH.
  - lia.
  - now rewrite IH1.
Qed.

Lemma fold_add_perm {A : Type} (f : A -> N) (l l' : list A) (a : N) :
  Permutation l l' ->
  fold_left (fun acc x => (acc + f x)%N) l a = fold_left (fun acc x => (acc + f x)%N) l' a.
Proof. intros HP. rewrite !fold_add_sumN. now rewrite (sumN_perm f l l' HP). Qed.

Lemma sumN_map {A B : Type} (h : A -> B) (f : B -> N) (l : list A) :
  sumN f (map h l) = sumN (fun x => f (h x)) l.
Proof. induction l as [|x l IH]; cbn [map sumN]; [reflexivity | now rewrite IH]. Qed.

Lemma sumN_ext_in {A : Type} (f f' : A -> N) (l : list A) :
  (forall x, In x l -> f x = f' x) -> sumN f l = sumN f' l.
Proof.
  induction l as [|x l IH]; intros H; cbn [sumN]; [reflexivity|].
  rewrite (H x (or_introl eq_refl)), IH; [reflexivity|].
  intros y Hy. apply H. now right.
Qed.

Lemma sumN_const_one {A : Type} (l : list A) : sumN (fun _ => 1%N) l = N.of_nat (length l).
Proof. induction l as [|x l IH]; cbn [sumN length]; [reflexivity | rewrite IH; lia]. Qed.

(* ================================================================================================ *)
(* Part 2: the two counters written as sums                                                          *)
(* ================================================================================================ *)

Lemma perft_model_0 g : perft_model 0 g = 1%N.
Proof. reflexivity. Qed.

Lemma perft_model_1 g : perft_model 1 g = N.of_nat (length (checked_moves g)).
Proof. reflexivity. Qed.

Lemma perft_model_SS n g :
  perft_model (S (S n)) g = sumN (fun m => perft_model (S n) (push g m)) (checked_moves g).
Proof.
  change (perft_model (S (S n)) g)
    with (fold_left (fun count m => (count + perft_model (S n) (push g m))%N) (checked_moves g) 0%N).
  rewrite fold_add_sumN. lia.
Qed.

(* without the shortcut: the same equation holds at every positive depth *)
Lemma perft_model_S n g :
  perft_model (S n) g = sumN (fun m => perft_model n (push g m)) (checked_moves g).
Proof.
  destruct n as [|n]; [|apply perft_model_SS].
  rewrite perft_model_1. symmetry.
  rewrite (sumN_ext_in _ (fun _ => 1%N)); [apply sumN_const_one | reflexivity].
Qed.

Lemma rules_perft_S n p :
  Rules.perft (S n) p = sumN (fun sm => Rules.perft n (Rules.apply p sm)) (legal_moves p).
Proof.
  change (Rules.perft (S n) p)
    with (fold_left (fun acc sm => (acc + Rules.perft n (Rules.apply p sm))%N) (legal_moves p) 0%N).
  rewrite fold_add_sumN. lia.
Qed.

(* ================================================================================================ *)
(* Part 3: the buffer never truncates in the explored tree                                           *)
(* ================================================================================================ *)

(* [Fits] at g and at every game reached from g by up to n-1 checked moves: these are exactly the
   games at which a call of depth n generates moves whose number matters (the call at depth 0
   returns 1 whatever the buffer holds) *)
Fixpoint FitsTree (n : nat) (g : game) : Prop :=
  match n with
  | O => True
  | S n' => Fits g /\ forall m, In m (checked_moves g) -> FitsTree n' (push g m)
  end.

Lemma FitsTree_fits n g : FitsTree (S n) g -> Fits g.
Proof. intros H; apply H. Qed.

Lemma FitsTree_push n g m : FitsTree (S n) g -> In m (checked_moves g) -> FitsTree n (push g m).
Proof. intros H; apply H. Qed.

Lemma FitsTree_le n k g : (k <= n)%nat -> FitsTree n g -> FitsTree k g.
Proof.
  revert k g. induction n as [|n IH]; intros k g Hk HF.
  - assert (k = O) by lia. subst k. exact I.
  - destruct k as [|k]; [exact I|]. destruct HF as [HF HT]. split; [exact HF|].
    intros m Hin. apply IH; [lia | now apply HT].
Qed.

(* an executable version, to discharge [FitsTree] on concrete games *)
Definition fits_b (g : game) : bool :=
  Nat.leb (length (pseudo_moves_all g)) (Z.to_nat MOVE_BUFFER_CAP).

Fixpoint fits_tree_b (n : nat) (g : game) : bool :=
  match n with
  | O => true
  | S n' => fits_b g && forallb (fun m => fits_tree_b n' (push g m)) (checked_moves g)
  end.

Lemma fits_tree_b_sound n g : fits_tree_b n g = true -> FitsTree n g.
Proof.
  revert g. induction n as [|n IH]; intros g H; cbn [fits_tree_b FitsTree] in *; [exact I|].
  apply andb_prop in H. destruct H as [H1 H2]. split; [now apply Fits_b|].
  intros m Hin. apply IH. rewrite forallb_forall in H2. now apply H2.
Qed.

(* ================================================================================================ *)
(* Part 4: the main theorem                                                                          *)
(* ================================================================================================ *)

Theorem perft_model_is_rules_perft : forall n g,
  LegalInv g -> FitsTree n g -> perft_model n g = Rules.perft n (abs g).
Proof.
  induction n as [|n IH]; intros g HL HT.
  - reflexivity.
  - destruct HT as [HF HT].
    pose proof (LegalInv_repinv g HL) as HR.
    destruct (LegalInv_kings g HL) as [KW KB].
    rewrite perft_model_S, rules_perft_S.
    rewrite <- (sumN_perm _ _ _ (C01_checked_exact_moves g HL HF)).
    rewrite sumN_map.
    apply sumN_ext_in. intros m Hin.
    rewrite <- (push_is_apply_checked g m HR KW KB Hin).
    apply IH; [now apply legalinv_push | now apply HT].
Qed.
Print Assumptions perft_model_is_rules_perft.

(* the depth-1 shortcut of the Rust function (moves.len() without playing the moves) is the number
   of legal moves, which is what the rules' perft counts at depth 1 *)
Lemma rules_perft_1 p : Rules.perft 1 p = N.of_nat (length (legal_moves p)).
Proof.
  rewrite rules_perft_S. rewrite (sumN_ext_in _ (fun _ => 1%N)); [apply sumN_const_one | reflexivity].
Qed.

Theorem perft_depth1_is_length : forall g,
  LegalInv g -> FitsTree 1 g -> perft_model 1 g = N.of_nat (length (legal_moves (abs g))).
Proof.
  intros g HL [HF _]. rewrite perft_model_1.
  pose proof (Permutation_length (C01_checked_exact_moves g HL HF)) as H.
  rewrite map_length in H. now rewrite H.
Qed.
Print Assumptions perft_depth1_is_length.

Corollary perft_depth1_consistent : forall g,
  LegalInv g -> FitsTree 1 g -> perft_model 1 g = Rules.perft 1 (abs g).
Proof. intros g HL HT. rewrite rules_perft_1. now apply perft_depth1_is_length. Qed.

(* the shortcut changes nothing: the model satisfies the recursion without it *)
Fixpoint perft_plain (n : nat) (g : game) : N :=
  match n with
  | O => 1%N
  | S n' => fold_left (fun count m => (count + perft_plain n' (push g m))%N) (checked_moves g) 0%N
  end.

Theorem perft_shortcut_irrelevant : forall n g, perft_model n g = perft_plain n g.
Proof.
  induction n as [|n IH]; intros g; [reflexivity|].
  rewrite perft_model_S.
  change (perft_plain (S n) g)
    with (fold_left (fun count m => (count + perft_plain n (push g m))%N) (checked_moves g) 0%N).
  rewrite fold_add_sumN, N.add_0_l. apply sumN_ext_in. intros m _. apply IH.
Qed.
Print Assumptions perft_shortcut_irrelevant.

(* every position the engine imports and that is a sane chess position *)
Corollary perft_model_import : forall n s g,
  import s = Ok g -> sane (abs g) = true -> FitsTree n g ->
  perft_model n g = Rules.perft n (abs g).
Proof.
  intros n s g Hi Hs HT. apply perft_model_is_rules_perft; [exact (import_legalinv s g Hi Hs) | exact HT].
Qed.
Print Assumptions perft_model_import.

(* ================================================================================================ *)
(* Part 5: examples (computed on the model; the numbers are the published ones)                      *)
(* ================================================================================================ *)

Example perft1_start : perft_model 1 START = 20%N.
Proof. vm_compute. reflexivity. Qed.
Example perft2_start : perft_model 2 START = 400%N.
Proof. vm_compute. reflexivity. Qed.
Example perft3_start : perft_model 3 START = 8902%N.
Proof. vm_compute. reflexivity. Qed.
Example perft1_kiwipete : perft_model 1 KIWIPETE = 48%N.
Proof. vm_compute. reflexivity. Qed.
Example perft2_kiwipete : perft_model 2 KIWIPETE = 2039%N.
Proof. vm_compute. reflexivity. Qed.
(* the bigger ones are computed once, by the kernel at Qed (about 15 s and 40 s) *)
Example perft3_kiwipete : perft_model 3 KIWIPETE = 97862%N.
Proof. vm_cast_no_check (eq_refl 97862%N). Qed.
Example perft4_start : perft_model 4 START = 197281%N.
Proof. vm_cast_no_check (eq_refl 197281%N). Qed.

(* the hypotheses of the main theorem hold on the examples, so the rules' perft has these values
   too, without running the (slow) rules *)
Example fitstree3_start : FitsTree 3 START.
Proof. apply fits_tree_b_sound. vm_compute. reflexivity. Qed.
Example fitstree3_kiwipete : FitsTree 3 KIWIPETE.
Proof. apply fits_tree_b_sound. vm_cast_no_check (eq_refl true). Qed.

Example rules_perft3_start : Rules.perft 3 (abs START) = 8902%N.
Proof.
  rewrite <- (perft_model_is_rules_perft 3 START (proj1 start_legalinv) fitstree3_start).
  exact perft3_start.
Qed.
Example rules_perft3_kiwipete : Rules.perft 3 (abs KIWIPETE) = 97862%N.
Proof.
  rewrite <- (perft_model_is_rules_perft 3 KIWIPETE (proj1 kiwipete_legalinv) fitstree3_kiwipete).
  exact perft3_kiwipete.
Qed.
Print Assumptions rules_perft3_kiwipete.
