(* Every move produced by the move generator satisfies [gen_ok] (Proofs/Inv.v) under [RepInv].
   Besides the main theorems the file gives membership-inversion lemmas for each generator
   ("what a generated move looks like"), from which the pawn / king extras are derived.

   Facts about the delta lists of Gen/Geometry.v (regenerated from the Rust source) are
   established by boolean sweeps checked by computation, never by list positions. *)
From Coq Require Import Lia.
From Chess Require Import Model.MoveGen Proofs.Grid Proofs.Inv.
Open Scope Z_scope.

(* ---- squares, add ---------------------------------------------------------------------------------- *)

Lemma all_squares_eq : all_squares = squares64.
Proof. vm_compute. reflexivity. Qed.

Lemma all_squares_valid p : In p all_squares -> valid p.
Proof. rewrite all_squares_eq. apply squares64_valid. Qed.

Lemma valid_all_squares p : valid p -> In p all_squares.
Proof. rewrite all_squares_eq. apply squares64_valid. Qed.

Lemma in_range_valid r c : in_range r c = true <-> valid (r, c).
Proof.
  unfold in_range, valid. cbn [fst snd].
  rewrite !andb_true_iff, !Z.leb_le, !Z.ltb_lt. lia.
Qed.

Lemma add_some p d np :
  add p d = Some np -> np = (fst p + fst d, snd p + snd d) /\ valid np.
Proof.
  unfold add. destruct (in_range (fst p + fst d) (snd p + snd d)) eqn:E; [|discriminate].
  intros H. inversion H; subst. split; [reflexivity|]. now apply in_range_valid.
Qed.

Lemma add_unsafe_eq p d : add_unsafe p d = (fst p + fst d, snd p + snd d).
Proof. reflexivity. Qed.

Lemma add_valid_unsafe p d : valid (add_unsafe p d) -> add p d = Some (add_unsafe p d).
Proof.
  intros H. unfold add. rewrite add_unsafe_eq in H. apply in_range_valid in H. now rewrite H.
Qed.

Lemma is_none_true o : is_none o = true -> o = None.
Proof. destruct o; [discriminate | reflexivity]. Qed.

Lemma color_neqb a b : negb (color_eqb a b) = true -> a <> b.
Proof.
  intros H E. subst. rewrite color_eqb_refl in H. discriminate.
Qed.

Lemma own_false g o : own g o = false -> forall c, o = Some c -> po c <> g_player g.
Proof.
  intros H c -> E. cbn [own] in H. rewrite E, color_eqb_refl in H. discriminate.
Qed.

Lemma in_firstn {A} n (l : list A) x : In x (firstn n l) -> In x l.
Proof.
  revert l. induction n as [|n IH]; intros [|y t] H; cbn [firstn] in H; try contradiction.
  destruct H as [->|H]; [now left | right; now apply IH].
Qed.

(* ---- finite facts about the generated geometry -------------------------------------------------------- *)

Definition nz (d : Z * Z) : bool := negb ((fst d =? 0) && (snd d =? 0)).

Lemma nz_spec d : nz d = true -> fst d <> 0 \/ snd d <> 0.
Proof.
  unfold nz. intros H. apply negb_true_iff in H. apply andb_false_iff in H.
  destruct H as [H|H]; apply Z.eqb_neq in H; [left | right]; assumption.
Qed.

Definition all_deltas : list (Z * Z) :=
  GEN_ROOK_DIRS ++ GEN_BISHOP_DIRS ++ GEN_QUEEN_DIRS ++ GEN_KNIGHT_DELTAS ++ GEN_KING_DELTAS.

Lemma all_deltas_nz : forallb nz all_deltas = true.
Proof. vm_compute. reflexivity. Qed.

Lemma delta_nz d : In d all_deltas -> nz d = true.
Proof. apply forallb_forall. exact all_deltas_nz. Qed.

Lemma rook_dir_nz d : In d GEN_ROOK_DIRS -> nz d = true.
Proof. intros H. apply delta_nz. unfold all_deltas. rewrite !in_app_iff. tauto. Qed.
Lemma bishop_dir_nz d : In d GEN_BISHOP_DIRS -> nz d = true.
Proof. intros H. apply delta_nz. unfold all_deltas. rewrite !in_app_iff. tauto. Qed.
Lemma queen_dir_nz d : In d GEN_QUEEN_DIRS -> nz d = true.
Proof. intros H. apply delta_nz. unfold all_deltas. rewrite !in_app_iff. tauto. Qed.
Lemma knight_delta_nz d : In d GEN_KNIGHT_DELTAS -> nz d = true.
Proof. intros H. apply delta_nz. unfold all_deltas. rewrite !in_app_iff. tauto. Qed.
Lemma king_delta_nz d : In d GEN_KING_DELTAS -> nz d = true.
Proof. intros H. apply delta_nz. unfold all_deltas. rewrite !in_app_iff. tauto. Qed.

Lemma step_neq p a b x :
  1 <= x -> a <> 0 \/ b <> 0 -> (fst p + x * a, snd p + x * b) <> p.
Proof.
  intros Hx Hd E. destruct p as [r c]. cbn [fst snd] in E. injection E as E1 E2. nia.
Qed.

Lemma step1_neq p d : nz d = true -> (fst p + fst d, snd p + snd d) <> p.
Proof.
  intros Hd E. apply nz_spec in Hd. destruct p as [r c]. cbn [fst snd] in E.
  injection E as E1 E2. lia.
Qed.

Definition is_promo (k : kind) : bool :=
  match k with Queen | Rook | Bishop | Knight => true | _ => false end.

Lemma is_promo_spec k : is_promo k = true -> promo_kind k.
Proof. unfold promo_kind. destruct k; cbn; intros H; try discriminate; tauto. Qed.

Lemma promo_lists_ok : forallb is_promo (PROMOTION_KINDS_PUSH ++ PROMOTION_KINDS_CAPTURE) = true.
Proof. vm_compute. reflexivity. Qed.

Lemma promo_push k : In k PROMOTION_KINDS_PUSH -> promo_kind k.
Proof.
  intros H. apply is_promo_spec. apply (proj1 (forallb_forall _ _) promo_lists_ok).
  apply in_or_app. now left.
Qed.

Lemma promo_capture k : In k PROMOTION_KINDS_CAPTURE -> promo_kind k.
Proof.
  intros H. apply is_promo_spec. apply (proj1 (forallb_forall _ _) promo_lists_ok).
  apply in_or_app. now right.
Qed.

Definition side_ok (c : color) : bool :=
  forallb (fun d => (fst d =? fst (PAWN_NORMAL_DELTA c)) && (Z.abs (snd d) =? 1)) (PAWN_SIDE_DELTAS c).

Lemma side_ok_all c : side_ok c = true.
Proof. destruct c; vm_compute; reflexivity. Qed.

Lemma side_delta c d :
  In d (PAWN_SIDE_DELTAS c) -> fst d = fst (PAWN_NORMAL_DELTA c) /\ Z.abs (snd d) = 1.
Proof.
  intros H. pose proof (proj1 (forallb_forall _ _) (side_ok_all c) d H) as E.
  cbv beta in E. apply andb_true_iff in E. destruct E as [E1 E2].
  apply Z.eqb_eq in E1, E2. now split.
Qed.

(* the pawn constants, per colour *)
Lemma pawn_geom c :
  snd (PAWN_NORMAL_DELTA c) = 0
  /\ Z.abs (fst (PAWN_NORMAL_DELTA c)) = 1
  /\ PAWN_FIRST_DELTA c = (2 * fst (PAWN_NORMAL_DELTA c), 0)
  /\ 0 <= PAWN_FIRST_ROW c + 2 * fst (PAWN_NORMAL_DELTA c) < 8
  /\ 0 <= PAWN_FIRST_ROW c + fst (PAWN_NORMAL_DELTA c) < 8
  /\ PAWN_FIRST_ROW c + 2 * fst (PAWN_NORMAL_DELTA c) <> PAWN_LAST_ROW c
  /\ PAWN_EP_ROW c = fst (ep_rows c)
  /\ PAWN_EP_ROW c + fst (PAWN_NORMAL_DELTA c) = snd (ep_rows c).
Proof.
  destruct c;
    cbn [PAWN_NORMAL_DELTA PAWN_FIRST_DELTA PAWN_FIRST_ROW PAWN_LAST_ROW PAWN_EP_ROW ep_rows fst snd];
    repeat split; try lia; try reflexivity.
Qed.

(* ---- the source square of a generator call ---------------------------------------------------------- *)

Definition src_ok (g : game) (self : piece) (p : pos) : Prop :=
  valid p /\ gget g p = Some self /\ po self = g_player g.

Lemma gen_ok_normal g pc s e cap :
  src_ok g pc s -> valid e -> e <> s -> gget g e = cap ->
  (forall c, cap = Some c -> po c <> g_player g) -> gen_ok g (Normal pc s e cap).
Proof.
  intros (Hv & Hs & Ho) He Hne Hc Hcap. unfold gen_ok, gget in *.
  repeat split; try assumption; try apply Hv; try apply He.
  intros E. apply Hne. now symmetry.
Qed.

(* the shape of the moves of the sliding / stepping generators *)
Definition step_shape (g : game) (self : piece) (p : pos) (m : Move) : Prop :=
  exists np cap, m = Normal self p np cap /\ valid np /\ np <> p /\ gget g np = cap
                 /\ (forall c, cap = Some c -> po c <> g_player g).

Lemma step_shape_ok g self p m : src_ok g self p -> step_shape g self p m -> gen_ok g m.
Proof.
  intros Hs (np & cap & -> & Hv & Hne & Hc & Hcap). now apply gen_ok_normal.
Qed.

(* ---- sliders ---------------------------------------------------------------------------------------- *)

Lemma ray_moves_shape g self p d :
  nz d = true ->
  forall fuel x m, 1 <= x -> In m (ray_moves fuel g self p d x) ->
    step_shape g self p m
    /\ exists np cap k, m = Normal self p np cap /\ 1 <= k /\ np = (fst p + k * fst d, snd p + k * snd d).
Proof.
  intros Hd. apply nz_spec in Hd.
  induction fuel as [|f IH]; intros x m Hx Hin; cbn [ray_moves] in Hin; [contradiction|].
  destruct (add p (scale x d)) as [np|] eqn:Ea; [|contradiction].
  apply add_some in Ea. destruct Ea as [Enp Hvn]. unfold scale in Enp. cbn [fst snd] in Enp.
  assert (Hne : np <> p) by (rewrite Enp; now apply step_neq).
  destruct (gget g np) as [pc|] eqn:Eg.
  - destruct (negb (color_eqb (po pc) (g_player g))) eqn:Ec; [|contradiction].
    destruct Hin as [<-|[]]. split.
    + exists np, (Some pc). repeat split; try assumption; try apply Hvn.
      intros c E. inversion E; subst. now apply color_neqb.
    + exists np, (Some pc), x. auto.
  - destruct Hin as [<-|Hin].
    + split.
      * exists np, None. repeat split; try assumption; try apply Hvn. intros c E. discriminate.
      * exists np, None, x. auto.
    + apply (IH (x + 1)); [lia | assumption].
Qed.

Lemma slider_moves_shape g self p dirs m :
  (forall d, In d dirs -> nz d = true) ->
  In m (slider_moves g self p dirs) -> step_shape g self p m.
Proof.
  intros Hd Hin. unfold slider_moves in Hin. apply in_flat_map in Hin.
  destruct Hin as (d & Hdin & Hin).
  apply (ray_moves_shape g self p d (Hd d Hdin) 8 1 m); [lia | assumption].
Qed.

(* ---- knight, king steps ----------------------------------------------------------------------------- *)

Lemma knight_moves_shape g self p m : In m (knight_moves g self p) -> step_shape g self p m.
Proof.
  unfold knight_moves. intros Hin. apply in_flat_map in Hin. destruct Hin as (d & Hd & Hin).
  destruct (add p d) as [np|] eqn:Ea; [|contradiction].
  apply add_some in Ea. destruct Ea as [Enp Hvn]. cbv zeta in Hin.
  destruct (own g (gget g np)) eqn:Eo; [contradiction|].
  destruct Hin as [<-|[]]. exists np, (gget g np).
  split; [reflexivity|]. split; [assumption|]. split.
  - rewrite Enp. apply step1_neq. now apply knight_delta_nz.
  - split; [reflexivity|]. now apply own_false.
Qed.

Lemma king_steps_shape g self p m :
  In m (king_steps g self p) ->
  step_shape g self p m
  /\ exists np cap, m = Normal self p np cap
       /\ ~ (Z.abs (fst np - fst (king_pos g (other (g_player g)))) <= 1
             /\ Z.abs (snd np - snd (king_pos g (other (g_player g)))) <= 1).
Proof.
  unfold king_steps. cbv zeta. intros Hin. apply in_flat_map in Hin. destruct Hin as (d & Hd & Hin).
  destruct (add p d) as [np|] eqn:Ea; [|contradiction].
  apply add_some in Ea. destruct Ea as [Enp Hvn].
  destruct (own g (gget g np)) eqn:Eo; [contradiction|].
  match type of Hin with In _ (if ?c then _ else _) => destruct c eqn:En end; [contradiction|].
  destruct Hin as [<-|[]]. split.
  - exists np, (gget g np).
    split; [reflexivity|]. split; [assumption|]. split.
    + rewrite Enp. apply step1_neq. now apply king_delta_nz.
    + split; [reflexivity|]. now apply own_false.
  - exists np, (gget g np). split; [reflexivity|].
    intros [H1 H2]. apply andb_false_iff in En. destruct En as [En|En]; apply Z.leb_gt in En; lia.
Qed.

(* ---- castling ---------------------------------------------------------------------------------------- *)

Definition right_k (g : game) (c : color) : bool :=
  (match c with White => st_wk | Black => st_bk end) (gstate_of g).
Definition right_q (g : game) (c : color) : bool :=
  (match c with White => st_wq | Black => st_bq end) (gstate_of g).

Lemma castling_moves_inv g m :
  In m (castling_moves g) ->
  let c := g_player g in
  let row := home_row c in
  (m = CastlingShort c /\ right_k g c = true
   /\ gget g (row, 5) = None /\ gget g (row, 6) = None
   /\ is_targeted g (row, 4) c = false /\ is_targeted g (row, 5) c = false
   /\ is_targeted g (row, 6) c = false)
  \/ (m = CastlingLong c /\ right_q g c = true
      /\ gget g (row, 1) = None /\ gget g (row, 2) = None /\ gget g (row, 3) = None
      /\ is_targeted g (row, 4) c = false /\ is_targeted g (row, 2) c = false
      /\ is_targeted g (row, 3) c = false).
Proof.
  unfold castling_moves, right_k, right_q. cbv zeta.
  destruct (g_player g); cbv beta iota; intros Hin; apply in_app_or in Hin; destruct Hin as [Hin|Hin];
    match type of Hin with In _ (if ?c then _ else _) => destruct c eqn:E end;
    try contradiction; destruct Hin as [<-|[]];
    repeat (apply andb_true_iff in E; let E' := fresh "E" in destruct E as [E E']);
    repeat match goal with
           | H : negb _ = true |- _ => apply negb_true_iff in H
           | H : is_none _ = true |- _ => apply is_none_true in H
           end;
    [left | right | left | right]; repeat split; assumption.
Qed.

Lemma king_src g self p :
  RuleInv g -> src_ok g self p -> pk self = King ->
  king_pos g (g_player g) = p /\ king_exists g (g_player g) = true.
Proof.
  intros HR (Hv & Hs & Ho) Hk. destruct self as [k c]. cbn [pk po] in *. subst k c.
  assert (Hkp : king_pos g (g_player g) = p) by (apply (ri_kings g HR); assumption).
  split; [assumption|]. unfold king_exists. rewrite Hkp, Hs. reflexivity.
Qed.

Lemma castling_moves_ok g m :
  RuleInv g -> king_exists g (g_player g) = true -> In m (castling_moves g) -> gen_ok g m.
Proof.
  intros HR Hke Hin. apply castling_moves_inv in Hin. cbv zeta in Hin.
  pose proof (ri_castle g HR (g_player g) Hke) as [Hks Hqs].
  destruct Hin as [(-> & Hr & H5 & H6 & _) | (-> & Hr & H1 & H2 & H3 & _)].
  - destruct (Hks Hr) as [HK HRk]. unfold gen_ok, gget in *.
    assert (valid (home_row (g_player g), 4)) as Hv4
        by (unfold valid; destruct (g_player g); cbn; lia).
    repeat split; try assumption. apply (ri_kings g HR); assumption.
  - destruct (Hqs Hr) as [HK HRk]. unfold gen_ok, gget in *.
    assert (valid (home_row (g_player g), 4)) as Hv4
        by (unfold valid; destruct (g_player g); cbn; lia).
    repeat split; try assumption. apply (ri_kings g HR); assumption.
Qed.

(* ---- pawns ------------------------------------------------------------------------------------------- *)

Definition pawn_double (g : game) (self : piece) (p : pos) : list Move :=
  if (fst p =? PAWN_FIRST_ROW (po self))
       && is_none (gget g (add_unsafe p (PAWN_NORMAL_DELTA (po self))))
       && is_none (gget g (add_unsafe p (PAWN_FIRST_DELTA (po self))))
  then [Normal self p (add_unsafe p (PAWN_FIRST_DELTA (po self))) None] else [].

Definition pawn_single (g : game) (self : piece) (p : pos) : list Move :=
  match add p (PAWN_NORMAL_DELTA (po self)) with
  | Some np =>
      if is_none (gget g np) then
        if PAWN_LAST_ROW (po self) =? fst np then
          map (fun k => Promotion (g_player g) k p np None) PROMOTION_KINDS_PUSH
        else [Normal self p np None]
      else []
  | None => []
  end.

Definition pawn_captures (g : game) (self : piece) (p : pos) : list Move :=
  flat_map (fun d =>
              match add p d with
              | Some np =>
                  match gget g np with
                  | Some pc =>
                      if negb (color_eqb (po pc) (po self)) then
                        if PAWN_LAST_ROW (po self) =? fst np then
                          map (fun k => Promotion (g_player g) k p np (gget g np)) PROMOTION_KINDS_CAPTURE
                        else [Normal self p np (gget g np)]
                      else []
                  | None => []
                  end
              | None => []
              end) (PAWN_SIDE_DELTAS (po self)).

Definition pawn_ep (g : game) (self : piece) (p : pos) : list Move :=
  if (fst p =? PAWN_EP_ROW (po self)) && (st_ep (gstate_of g) <? 8)
     && (Z.abs (st_ep (gstate_of g) - snd p) =? 1)
  then [EnPassant (g_player g) (snd p) (st_ep (gstate_of g))] else [].

Lemma pawn_moves_split g self p :
  pawn_moves g self p
  = pawn_double g self p ++ pawn_single g self p ++ pawn_captures g self p ++ pawn_ep g self p.
Proof. reflexivity. Qed.

(* arriving on [np]: four promotions on the last row, one Normal move elsewhere *)
Definition pawn_arrive (g : game) (self : piece) (p np : pos) (cap : option piece) (m : Move) : Prop :=
  (PAWN_LAST_ROW (po self) = fst np
   /\ exists k, promo_kind k /\ m = Promotion (g_player g) k p np cap)
  \/ (PAWN_LAST_ROW (po self) <> fst np /\ m = Normal self p np cap).

Definition double_shape (g : game) (self : piece) (p : pos) (m : Move) : Prop :=
  m = Normal self p (add_unsafe p (PAWN_FIRST_DELTA (po self))) None
  /\ fst p = PAWN_FIRST_ROW (po self)
  /\ gget g (add_unsafe p (PAWN_NORMAL_DELTA (po self))) = None
  /\ gget g (add_unsafe p (PAWN_FIRST_DELTA (po self))) = None.

Definition single_shape (g : game) (self : piece) (p : pos) (m : Move) : Prop :=
  exists np, add p (PAWN_NORMAL_DELTA (po self)) = Some np /\ gget g np = None
             /\ pawn_arrive g self p np None m.

Definition capture_shape (g : game) (self : piece) (p : pos) (m : Move) : Prop :=
  exists d np pc, In d (PAWN_SIDE_DELTAS (po self)) /\ add p d = Some np
                  /\ gget g np = Some pc /\ po pc <> po self
                  /\ pawn_arrive g self p np (Some pc) m.

Definition ep_shape (g : game) (self : piece) (p : pos) (m : Move) : Prop :=
  m = EnPassant (g_player g) (snd p) (st_ep (gstate_of g))
  /\ fst p = PAWN_EP_ROW (po self)
  /\ st_ep (gstate_of g) < 8
  /\ Z.abs (st_ep (gstate_of g) - snd p) = 1.

Lemma pawn_double_inv g self p m : In m (pawn_double g self p) -> double_shape g self p m.
Proof.
  unfold pawn_double, double_shape. intros Hin.
  match type of Hin with In _ (if ?c then _ else _) => destruct c eqn:E end; [|contradiction].
  destruct Hin as [<-|[]].
  apply andb_true_iff in E. destruct E as [E E3]. apply andb_true_iff in E. destruct E as [E1 E2].
  apply Z.eqb_eq in E1. apply is_none_true in E2, E3. repeat split; assumption.
Qed.

Lemma pawn_single_inv g self p m : In m (pawn_single g self p) -> single_shape g self p m.
Proof.
  unfold pawn_single, single_shape. intros Hin.
  destruct (add p (PAWN_NORMAL_DELTA (po self))) as [np|] eqn:Ea; [|contradiction].
  destruct (is_none (gget g np)) eqn:En; [|contradiction].
  apply is_none_true in En. exists np. split; [reflexivity|]. split; [assumption|].
  unfold pawn_arrive. destruct (PAWN_LAST_ROW (po self) =? fst np) eqn:El.
  - apply Z.eqb_eq in El. left. split; [assumption|].
    apply in_map_iff in Hin. destruct Hin as (k & <- & Hk).
    exists k. split; [now apply promo_push | reflexivity].
  - apply Z.eqb_neq in El. right. destruct Hin as [<-|[]]. split; [assumption | reflexivity].
Qed.

Lemma pawn_captures_inv g self p m : In m (pawn_captures g self p) -> capture_shape g self p m.
Proof.
  unfold pawn_captures, capture_shape. intros Hin.
  apply in_flat_map in Hin. destruct Hin as (d & Hd & Hin).
  destruct (add p d) as [np|] eqn:Ea; [|contradiction].
  destruct (gget g np) as [pc|] eqn:Eg; [|contradiction].
  destruct (negb (color_eqb (po pc) (po self))) eqn:Ec; [|contradiction].
  apply color_neqb in Ec.
  exists d, np, pc. split; [assumption|]. split; [exact Ea|]. split; [assumption|].
  split; [assumption|].
  unfold pawn_arrive. destruct (PAWN_LAST_ROW (po self) =? fst np) eqn:El.
  - apply Z.eqb_eq in El. left. split; [assumption|].
    apply in_map_iff in Hin. destruct Hin as (k & <- & Hk).
    exists k. split; [now apply promo_capture | reflexivity].
  - apply Z.eqb_neq in El. right. destruct Hin as [<-|[]]. split; [assumption | reflexivity].
Qed.

Lemma pawn_ep_inv g self p m : In m (pawn_ep g self p) -> ep_shape g self p m.
Proof.
  unfold pawn_ep, ep_shape. intros Hin.
  match type of Hin with In _ (if ?c then _ else _) => destruct c eqn:E end; [|contradiction].
  destruct Hin as [<-|[]].
  apply andb_true_iff in E. destruct E as [E E3]. apply andb_true_iff in E. destruct E as [E1 E2].
  apply Z.eqb_eq in E1, E3. apply Z.ltb_lt in E2. repeat split; assumption.
Qed.

Lemma pawn_moves_inv g self p m :
  In m (pawn_moves g self p) ->
  double_shape g self p m \/ single_shape g self p m \/ capture_shape g self p m \/ ep_shape g self p m.
Proof.
  rewrite pawn_moves_split, !in_app_iff. intros [H|[H|[H|H]]].
  - left. now apply pawn_double_inv.
  - right; left. now apply pawn_single_inv.
  - right; right; left. now apply pawn_captures_inv.
  - right; right; right. now apply pawn_ep_inv.
Qed.

Lemma pawn_arrive_ok g self p np cap m :
  src_ok g self p -> pk self = Pawn -> valid np -> np <> p -> gget g np = cap ->
  (forall c, cap = Some c -> po c <> g_player g) ->
  pawn_arrive g self p np cap m -> gen_ok g m.
Proof.
  intros Hsrc Hk Hv Hne Hc Hcap [(Hl & k & Hpk & ->) | (Hl & ->)].
  - destruct Hsrc as (Hvp & Hs & Ho). destruct self as [kk c]. cbn [pk po] in *. subst kk c.
    unfold gen_ok, gget in *. repeat split; try assumption; try apply Hvp; try apply Hv.
    + intros E. apply Hne. now symmetry.
    + now symmetry.
  - now apply gen_ok_normal.
Qed.

Lemma pawn_moves_ok g self p m :
  RuleInv g -> src_ok g self p -> pk self = Pawn -> In m (pawn_moves g self p) -> gen_ok g m.
Proof.
  intros HR Hsrc Hk Hin. pose proof Hsrc as (Hvp & Hs & Ho).
  pose proof (pawn_geom (po self)) as (G1 & G2 & G3 & G4 & G5 & G6 & G7 & G8).
  apply pawn_moves_inv in Hin. destruct Hin as [H|[H|[H|H]]].
  - (* double push *)
    destruct H as (-> & Hrow & Hmid & Hend).
    apply gen_ok_normal; try assumption.
    + rewrite add_unsafe_eq, G3. cbn [fst snd]. destruct Hvp as [Hr Hc]. split; cbn [fst snd]; lia.
    + rewrite add_unsafe_eq, G3. cbn [fst snd]. intros E. destruct p as [r c]. cbn [fst snd] in *.
      injection E as E1 E2. lia.
    + intros c E. discriminate.
  - (* single push *)
    destruct H as (np & Ea & Hn & Harr). apply add_some in Ea. destruct Ea as [Enp Hv].
    apply (pawn_arrive_ok g self p np None); try assumption.
    + rewrite Enp. intros E. destruct p as [r c]. cbn [fst snd] in *. injection E as E1 E2. lia.
    + intros c E. discriminate.
  - (* captures *)
    destruct H as (d & np & pc & Hd & Ea & Hg & Hpc & Harr).
    apply add_some in Ea. destruct Ea as [Enp Hv].
    apply side_delta in Hd. destruct Hd as [Hd1 Hd2].
    apply (pawn_arrive_ok g self p np (Some pc)); try assumption.
    + rewrite Enp. intros E. destruct p as [r c]. cbn [fst snd] in *. injection E as E1 E2. lia.
    + intros c E. inversion E; subst. now rewrite <- Ho.
  - (* en passant *)
    destruct H as (-> & Hrow & Hlt & Habs).
    pose proof (ri_state_ok g HR) as Hst. unfold state_ok in Hst.
    destruct (ri_ep g HR Hlt) as [Hp1 Hp2].
    destruct self as [kk c]. cbn [pk po] in *. subst kk c.
    unfold gen_ok. split; [reflexivity|]. split; [apply Hvp|]. split; [lia|].
    split; [assumption|]. split; [reflexivity|].
    split; [|split; assumption].
    rewrite <- G7, <- Hrow. unfold gget in Hs. destruct p as [r c]. exact Hs.
Qed.

(* ---- piece_moves, pseudo_moves_all ------------------------------------------------------------------- *)

Lemma piece_moves_ok g self p m :
  RuleInv g -> src_ok g self p -> In m (piece_moves g self p) -> gen_ok g m.
Proof.
  intros HR Hsrc Hin. unfold piece_moves in Hin. destruct (pk self) eqn:Ek.
  - apply (step_shape_ok g self p m Hsrc). apply (slider_moves_shape _ _ _ _ _ queen_dir_nz Hin).
  - apply (step_shape_ok g self p m Hsrc). apply (slider_moves_shape _ _ _ _ _ rook_dir_nz Hin).
  - apply (step_shape_ok g self p m Hsrc). apply (slider_moves_shape _ _ _ _ _ bishop_dir_nz Hin).
  - apply (step_shape_ok g self p m Hsrc). now apply knight_moves_shape.
  - now apply (pawn_moves_ok g self p m).
  - unfold king_moves in Hin. apply in_app_or in Hin. destruct Hin as [Hin|Hin].
    + apply (step_shape_ok g self p m Hsrc). now apply king_steps_shape.
    + destruct (king_src g self p HR Hsrc Ek) as [_ Hke]. now apply castling_moves_ok.
Qed.

Lemma pseudo_all_inv g m :
  In m (pseudo_moves_all g) ->
  exists p pc, src_ok g pc p /\ In m (piece_moves g pc p).
Proof.
  unfold pseudo_moves_all. intros H. apply in_flat_map in H. destruct H as (p & Hp & H).
  destruct (gget g p) as [pc|] eqn:Eg; [|contradiction].
  destruct (color_eqb (po pc) (g_player g)) eqn:Ec; [|contradiction].
  apply color_eqb_eq in Ec. exists p, pc. split; [|assumption].
  split; [now apply all_squares_valid|]. now split.
Qed.

Lemma pseudo_all_intro g m p pc :
  src_ok g pc p -> In m (piece_moves g pc p) -> In m (pseudo_moves_all g).
Proof.
  intros (Hv & Hs & Ho) Hin. unfold pseudo_moves_all. apply in_flat_map.
  exists p. split; [now apply valid_all_squares|]. rewrite Hs, Ho, color_eqb_refl. assumption.
Qed.

Theorem gen_ok_all : forall g m, RepInv g -> In m (pseudo_moves_all g) -> gen_ok g m.
Proof.
  intros g m [_ HR] Hin. apply pseudo_all_inv in Hin. destruct Hin as (p & pc & Hsrc & Hin).
  now apply (piece_moves_ok g pc p m).
Qed.
Print Assumptions gen_ok_all.

(* ---- pseudo_moves, checked_moves ---------------------------------------------------------------------- *)

Lemma pseudo_in_all g m : In m (pseudo_moves g) -> In m (pseudo_moves_all g).
Proof.
  unfold pseudo_moves. destruct (king_exists g (g_player g)); [|contradiction]. apply in_firstn.
Qed.

Theorem pseudo_king : forall g m, In m (pseudo_moves g) -> king_exists g (g_player g) = true.
Proof.
  intros g m. unfold pseudo_moves. destruct (king_exists g (g_player g)); [reflexivity | contradiction].
Qed.
Print Assumptions pseudo_king.

Lemma checked_in_pseudo g m : In m (checked_moves g) -> In m (pseudo_moves g).
Proof.
  unfold checked_moves. destruct (king_exists g (g_player g)); [|contradiction].
  cbv zeta. intros H. apply filter_In in H. apply H.
Qed.

Lemma checked_in_all g m : In m (checked_moves g) -> In m (pseudo_moves_all g).
Proof. intros H. now apply pseudo_in_all, checked_in_pseudo. Qed.

Lemma checked_legal g m :
  In m (checked_moves g) ->
  shortcut (is_targeted g (king_pos g (g_player g)) (g_player g)) (king_pos g (g_player g)) m = true
  \/ legal_after g m = true.
Proof.
  unfold checked_moves. destruct (king_exists g (g_player g)); [|contradiction].
  cbv zeta. intros H. apply filter_In in H. destruct H as [_ H]. now apply orb_true_iff in H.
Qed.

Theorem checked_king : forall g m, In m (checked_moves g) -> king_exists g (g_player g) = true.
Proof. intros g m H. apply (pseudo_king g m). now apply checked_in_pseudo. Qed.

Theorem gen_ok_pseudo : forall g m, RepInv g -> In m (pseudo_moves g) -> gen_ok g m.
Proof. intros g m HR H. apply gen_ok_all; [assumption | now apply pseudo_in_all]. Qed.
Print Assumptions gen_ok_pseudo.

Theorem gen_ok_checked : forall g m, RepInv g -> In m (checked_moves g) -> gen_ok g m.
Proof. intros g m HR H. apply gen_ok_all; [assumption | now apply checked_in_all]. Qed.
Print Assumptions gen_ok_checked.

Theorem gen_ok_get_moves : forall g v m, RepInv g -> In m (get_moves g v) -> gen_ok g m.
Proof.
  intros g v m HR. unfold get_moves. destruct v; [now apply gen_ok_checked | now apply gen_ok_pseudo].
Qed.
Print Assumptions gen_ok_get_moves.

(* ---- extras: where a generated Normal move comes from ------------------------------------------------- *)

(* a Normal move of a generator call carries the generating piece and its square *)
Lemma piece_moves_normal_self g self p pc s e cap :
  In (Normal pc s e cap) (piece_moves g self p) -> pc = self /\ s = p.
Proof.
  assert (Hstep : forall m, step_shape g self p m -> m = Normal pc s e cap -> pc = self /\ s = p).
  { intros m (np & cap' & -> & _) E. inversion E. now split. }
  intros Hin. unfold piece_moves in Hin. destruct (pk self) eqn:Ek.
  - eapply Hstep; [|reflexivity]. apply (slider_moves_shape _ _ _ _ _ queen_dir_nz Hin).
  - eapply Hstep; [|reflexivity]. apply (slider_moves_shape _ _ _ _ _ rook_dir_nz Hin).
  - eapply Hstep; [|reflexivity]. apply (slider_moves_shape _ _ _ _ _ bishop_dir_nz Hin).
  - eapply Hstep; [|reflexivity]. now apply knight_moves_shape.
  - apply pawn_moves_inv in Hin. destruct Hin as [H|[H|[H|H]]].
    + destruct H as (E & _). inversion E. now split.
    + destruct H as (np & _ & _ & [(_ & k & _ & E) | (_ & E)]); inversion E. now split.
    + destruct H as (d & np & c & _ & _ & _ & _ & [(_ & k & _ & E) | (_ & E)]); inversion E. now split.
    + destruct H as (E & _). discriminate.
  - unfold king_moves in Hin. apply in_app_or in Hin. destruct Hin as [Hin|Hin].
    + eapply Hstep; [|reflexivity]. now apply king_steps_shape.
    + apply castling_moves_inv in Hin. cbv zeta in Hin.
      destruct Hin as [(E & _) | (E & _)]; discriminate.
Qed.

Theorem gen_normal_src : forall g pc s e cap,
  In (Normal pc s e cap) (pseudo_moves_all g) ->
  src_ok g pc s /\ In (Normal pc s e cap) (piece_moves g pc s).
Proof.
  intros g pc s e cap Hin. apply pseudo_all_inv in Hin. destruct Hin as (p & self & Hsrc & Hin).
  destruct (piece_moves_normal_self _ _ _ _ _ _ _ Hin) as [-> ->]. now split.
Qed.
Print Assumptions gen_normal_src.

(* the three ways a generated Normal pawn move arises *)
Theorem gen_pawn_normal_cases : forall g pc s e cap,
  In (Normal pc s e cap) (pseudo_moves_all g) -> pk pc = Pawn ->
  let nd := PAWN_NORMAL_DELTA (po pc) in
  valid s /\ valid e /\ fst e <> PAWN_LAST_ROW (po pc)
  /\ ( (* double push *)
       (fst s = PAWN_FIRST_ROW (po pc) /\ e = (fst s + 2 * fst nd, snd s) /\ cap = None
        /\ gget g (fst s + fst nd, snd s) = None /\ gget g e = None)
       \/ (* single push *)
       (e = (fst s + fst nd, snd s) /\ cap = None /\ gget g e = None)
       \/ (* capture *)
       (fst e = fst s + fst nd /\ Z.abs (snd e - snd s) = 1
        /\ exists c, cap = Some c /\ gget g e = Some c /\ po c <> po pc)).
Proof.
  intros g pc s e cap Hin Hk. cbv zeta.
  apply gen_normal_src in Hin. destruct Hin as [(Hvs & Hs & Ho) Hin].
  unfold piece_moves in Hin. rewrite Hk in Hin.
  pose proof (pawn_geom (po pc)) as (G1 & G2 & G3 & G4 & G5 & G6 & G7 & G8).
  split; [assumption|].
  apply pawn_moves_inv in Hin. destruct Hin as [H|[H|[H|H]]].
  - destruct H as (E & Hrow & Hmid & Hend). inversion E as [[He Hc]]. clear E.
    rewrite add_unsafe_eq in Hmid. rewrite add_unsafe_eq, G3 in Hend |- *. cbn [fst snd] in *.
    rewrite G1 in Hmid. replace (snd s + 0) with (snd s) in * by lia.
    destruct Hvs as [Hr Hcc].
    split; [split; cbn [fst snd]; lia|]. split; [cbn [fst snd]; lia|].
    left. repeat split; assumption.
  - destruct H as (np & Ea & Hn & [(_ & k & _ & E) | (Hl & E)]); [discriminate|].
    inversion E; subst np cap. apply add_some in Ea. destruct Ea as [Enp Hv].
    split; [assumption|]. split; [now intros X; apply Hl|].
    right; left. rewrite G1 in Enp. replace (snd s + 0) with (snd s) in Enp by lia.
    repeat split; assumption.
  - destruct H as (d & np & c & Hd & Ea & Hg & Hpc & [(_ & k & _ & E) | (Hl & E)]); [discriminate|].
    inversion E; subst np cap. apply add_some in Ea. destruct Ea as [Enp Hv].
    apply side_delta in Hd. destruct Hd as [Hd1 Hd2].
    split; [assumption|]. split; [now intros X; apply Hl|].
    right; right. rewrite Enp. cbn [fst snd]. split; [lia|]. split; [lia|].
    exists c. rewrite <- Enp. now repeat split.
  - destruct H as (E & _). discriminate.
Qed.
Print Assumptions gen_pawn_normal_cases.

(* a generated Normal pawn move over two rows is the double push from the first row *)
Theorem gen_pawn_double : forall g pc s e cap,
  In (Normal pc s e cap) (pseudo_moves_all g) -> pk pc = Pawn -> Z.abs (fst e - fst s) = 2 ->
  fst s = PAWN_FIRST_ROW (po pc) /\ snd e = snd s
  /\ gget g ((fst s + fst e) / 2, snd s) = None /\ cap = None.
Proof.
  intros g pc s e cap Hin Hk Habs.
  pose proof (pawn_geom (po pc)) as (G1 & G2 & _).
  destruct (gen_pawn_normal_cases g pc s e cap Hin Hk) as (_ & _ & _ & H). cbv zeta in H.
  destruct H as [(Hrow & He & Hc & Hmid & _) | [(He & _) | (He & _)]].
  - subst e. cbn [fst snd] in *. repeat split; try assumption.
    replace ((fst s + (fst s + 2 * fst (PAWN_NORMAL_DELTA (po pc)))) / 2)
      with (fst s + fst (PAWN_NORMAL_DELTA (po pc))); [assumption|].
    apply Z.div_unique with (r := 0); lia.
  - subst e. cbn [fst snd] in Habs. lia.
  - lia.
Qed.
Print Assumptions gen_pawn_double.

(* promotions are never generated as Normal moves *)
Theorem gen_pawn_not_last : forall g pc s e cap,
  In (Normal pc s e cap) (pseudo_moves_all g) -> pk pc = Pawn -> fst e <> PAWN_LAST_ROW (po pc).
Proof.
  intros g pc s e cap Hin Hk. apply (gen_pawn_normal_cases g pc s e cap Hin Hk).
Qed.
Print Assumptions gen_pawn_not_last.

(* a generated king move starts on the cached king square *)
Theorem gen_king_from : forall g pc s e cap,
  RepInv g -> In (Normal pc s e cap) (pseudo_moves_all g) -> pk pc = King ->
  king_pos g (g_player g) = s /\ king_exists g (g_player g) = true
  /\ pc = mkPiece King (g_player g).
Proof.
  intros g pc s e cap [_ HR] Hin Hk. apply gen_normal_src in Hin. destruct Hin as [Hsrc _].
  destruct (king_src g pc s HR Hsrc Hk) as [H1 H2]. split; [assumption|]. split; [assumption|].
  destruct Hsrc as (_ & _ & Ho). destruct pc as [k c]. cbn [pk po] in *. now subst.
Qed.
Print Assumptions gen_king_from.

(* generated king steps do not end next to the cached square of the other king *)
Theorem gen_king_not_adjacent : forall g pc s e cap,
  In (Normal pc s e cap) (pseudo_moves_all g) -> pk pc = King ->
  ~ (Z.abs (fst e - fst (king_pos g (other (g_player g)))) <= 1
     /\ Z.abs (snd e - snd (king_pos g (other (g_player g)))) <= 1).
Proof.
  intros g pc s e cap Hin Hk. apply gen_normal_src in Hin. destruct Hin as [_ Hin].
  unfold piece_moves in Hin. rewrite Hk in Hin. unfold king_moves in Hin.
  apply in_app_or in Hin. destruct Hin as [Hin|Hin].
  - apply king_steps_shape in Hin. destruct Hin as [_ (np & cap' & E & H)].
    inversion E; subst. assumption.
  - apply castling_moves_inv in Hin. cbv zeta in Hin. destruct Hin as [(E & _) | (E & _)]; discriminate.
Qed.
Print Assumptions gen_king_not_adjacent.

(* a generated castling move comes from [castling_moves] (so [castling_moves_inv] applies: the
   right is set, the squares between are empty, the king's path is not attacked) *)
Theorem gen_castling_inv : forall g m,
  In m (pseudo_moves_all g) -> (exists o, m = CastlingShort o \/ m = CastlingLong o) ->
  In m (castling_moves g).
Proof.
  intros g m Hin (o & Hm). apply pseudo_all_inv in Hin. destruct Hin as (p & pc & Hsrc & Hin).
  assert (Hstep : step_shape g pc p m -> In m (castling_moves g)).
  { intros (np & cap' & -> & _). destruct Hm; discriminate. }
  unfold piece_moves in Hin. destruct (pk pc) eqn:Ek.
  - apply Hstep. apply (slider_moves_shape _ _ _ _ _ queen_dir_nz Hin).
  - apply Hstep. apply (slider_moves_shape _ _ _ _ _ rook_dir_nz Hin).
  - apply Hstep. apply (slider_moves_shape _ _ _ _ _ bishop_dir_nz Hin).
  - apply Hstep. now apply knight_moves_shape.
  - exfalso. apply pawn_moves_inv in Hin. destruct Hin as [H|[H|[H|H]]].
    + destruct H as (-> & _). destruct Hm; discriminate.
    + destruct H as (np & _ & _ & [(_ & k & _ & ->) | (_ & ->)]); destruct Hm; discriminate.
    + destruct H as (d & np & c & _ & _ & _ & _ & [(_ & k & _ & ->) | (_ & ->)]);
        destruct Hm; discriminate.
    + destruct H as (-> & _). destruct Hm; discriminate.
  - unfold king_moves in Hin. apply in_app_or in Hin. destruct Hin as [Hin|Hin].
    + apply Hstep. now apply king_steps_shape.
    + assumption.
Qed.
Print Assumptions gen_castling_inv.

(* ---- the two extra generation facts needed for RuleInv (push g m) -------------------------------------
   (same body as the predicate of Proofs/PushPop.v): a king never steps onto the cached square of
   the other king; a pawn move over two rows is a real double step. *)
Definition gen_ok_x (g : game) (m : Move) : Prop :=
  match m with
  | Normal pc s e cap =>
      (pk pc = King -> e <> king_pos g (other (g_player g)))
      /\ (pk pc = Pawn -> Z.abs (fst e - fst s) = 2 ->
          snd e = snd s /\ fst e = fst (ep_rows (other (g_player g)))
          /\ bget (g_board g) (snd (ep_rows (other (g_player g))), snd s) = None)
  | _ => True
  end.

Lemma pawn_geom_ep c :
  PAWN_FIRST_ROW c + 2 * fst (PAWN_NORMAL_DELTA c) = fst (ep_rows (other c))
  /\ PAWN_FIRST_ROW c + fst (PAWN_NORMAL_DELTA c) = snd (ep_rows (other c)).
Proof.
  destruct c; cbn [PAWN_NORMAL_DELTA PAWN_FIRST_ROW ep_rows other fst snd]; split; reflexivity.
Qed.

(* no invariant is needed for this one *)
Theorem gen_ok_x_all_noinv : forall g m, In m (pseudo_moves_all g) -> gen_ok_x g m.
Proof.
  intros g m Hin. destruct m as [pc s e cap| | | |]; cbn [gen_ok_x]; try exact I. split.
  - intros Hk E. apply (gen_king_not_adjacent g pc s e cap Hin Hk). rewrite E.
    rewrite !Z.sub_diag. cbn. lia.
  - intros Hk Habs.
    pose proof (gen_normal_src g pc s e cap Hin) as [(_ & _ & Ho) _].
    destruct (gen_pawn_normal_cases g pc s e cap Hin Hk) as (_ & _ & _ & H). cbv zeta in H.
    pose proof (pawn_geom (po pc)) as (G1 & G2 & _).
    pose proof (pawn_geom_ep (po pc)) as (P1 & P2).
    destruct H as [(Hrow & He & Hc & Hmid & _) | [(He & _) | (He & _)]].
    + subst e. cbn [fst snd] in *. rewrite <- Ho. split; [reflexivity|].
      split; [rewrite Hrow; exact P1|].
      rewrite <- P2, <- Hrow. exact Hmid.
    + subst e. cbn [fst snd] in Habs. lia.
    + lia.
Qed.
Print Assumptions gen_ok_x_all_noinv.

Theorem gen_ok_x_all : forall g m, RepInv g -> In m (pseudo_moves_all g) -> gen_ok_x g m.
Proof. intros g m _. apply gen_ok_x_all_noinv. Qed.
Print Assumptions gen_ok_x_all.

Theorem gen_ok_x_pseudo : forall g m, RepInv g -> In m (pseudo_moves g) -> gen_ok_x g m.
Proof. intros g m _ H. apply gen_ok_x_all_noinv. now apply pseudo_in_all. Qed.

Theorem gen_ok_x_checked : forall g m, RepInv g -> In m (checked_moves g) -> gen_ok_x g m.
Proof. intros g m _ H. apply gen_ok_x_all_noinv. now apply checked_in_all. Qed.
Print Assumptions gen_ok_x_checked.

(* ---- facts used by the text round-trip proofs ---------------------------------------------------------- *)

Definition king_delta_small (d : Z * Z) : bool := (Z.abs (fst d) <=? 1) && (Z.abs (snd d) <=? 1).

Lemma king_deltas_small : forallb king_delta_small GEN_KING_DELTAS = true.
Proof. vm_compute. reflexivity. Qed.

Lemma king_steps_delta g self p m :
  In m (king_steps g self p) ->
  exists d np cap, In d GEN_KING_DELTAS /\ m = Normal self p np cap
                   /\ np = (fst p + fst d, snd p + snd d).
Proof.
  unfold king_steps. cbv zeta. intros Hin. apply in_flat_map in Hin. destruct Hin as (d & Hd & Hin).
  destruct (add p d) as [np|] eqn:Ea; [|contradiction].
  apply add_some in Ea. destruct Ea as [Enp Hvn].
  destruct (own g (gget g np)) eqn:Eo; [contradiction|].
  match type of Hin with In _ (if ?c then _ else _) => destruct c eqn:En end; [contradiction|].
  destruct Hin as [<-|[]]. exists d, np, (gget g np). now repeat split.
Qed.

(* a generated king Normal move goes to a neighbouring square *)
Theorem gen_king_step : forall g pc s e cap,
  In (Normal pc s e cap) (pseudo_moves_all g) -> pk pc = King ->
  Z.abs (fst e - fst s) <= 1 /\ Z.abs (snd e - snd s) <= 1.
Proof.
  intros g pc s e cap Hin Hk. apply gen_normal_src in Hin. destruct Hin as [_ Hin].
  unfold piece_moves in Hin. rewrite Hk in Hin. unfold king_moves in Hin.
  apply in_app_or in Hin. destruct Hin as [Hin|Hin].
  - apply king_steps_delta in Hin. destruct Hin as (d & np & cap' & Hd & E & Enp).
    injection E as E1 E2. subst e.
    pose proof (proj1 (forallb_forall _ _) king_deltas_small d Hd) as Hs.
    unfold king_delta_small in Hs. apply andb_true_iff in Hs. destruct Hs as [H1 H2].
    apply Z.leb_le in H1, H2. rewrite Enp. cbn [fst snd]. split; lia.
  - apply castling_moves_inv in Hin. cbv zeta in Hin. destruct Hin as [(E & _) | (E & _)]; discriminate.
Qed.
Print Assumptions gen_king_step.

(* a generated non-capturing Normal pawn move stays on its file *)
Theorem gen_pawn_push_file : forall g pc s e,
  In (Normal pc s e None) (pseudo_moves_all g) -> pk pc = Pawn -> snd s = snd e.
Proof.
  intros g pc s e Hin Hk.
  destruct (gen_pawn_normal_cases g pc s e None Hin Hk) as (_ & _ & _ & H). cbv zeta in H.
  destruct H as [(_ & He & _) | [(He & _) | (_ & _ & c & Hc & _)]].
  - subst e. reflexivity.
  - subst e. reflexivity.
  - discriminate.
Qed.
Print Assumptions gen_pawn_push_file.
