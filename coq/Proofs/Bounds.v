(* C15, part A: index ranges, unchecked position constructors, state-stack length, the move
   buffer bound that holds by construction, and the closed capacity arithmetic over Gen/Consts.v.
   (Part B, Proofs/BoundsQ.v: the potential function of quiescence and the stack bound of the
   search; part C, Proofs/BoundsMoves.v: material-based bound on the number of generated moves.) *)
From Coq Require Import Lia.
From Chess Require Import Model.Search Proofs.Grid Proofs.Inv.
Open Scope Z_scope.

(* ---- 1. index ranges ------------------------------------------------------------------------------ *)

(* Piece::as_index: zobrist::PIECE[sq][as_index] with 12 entries per square *)
Theorem piece_index_range pc : 0 <= piece_index pc < 12.
Proof. destruct pc as [[] []]; vm_compute; split; congruence. Qed.

Theorem kind_index_range k : 0 <= kind_index k < 6.
Proof. destruct k; vm_compute; split; congruence. Qed.

(* Position::as_usize: board / past_scores / past_hashes / zobrist::PIECE have 64 entries *)
Theorem idx_range p : valid p -> 0 <= idx p < 64.
Proof. unfold valid, idx. lia. Qed.

(* the converse direction used to read idx as (row, col) *)
Lemma idx_inj p q : valid p -> valid q -> idx p = idx q -> p = q.
Proof. destruct p, q; unfold valid, idx; cbn [fst snd]. intros ? ? ?. f_equal; lia. Qed.

(* GameState::hash: zobrist::STATE has 256 entries *)
Theorem state_byte_range s : state_ok s -> 0 <= state_byte s < 256.
Proof.
  unfold state_ok, state_byte. intros H.
  destruct (st_wk s), (st_wq s), (st_bk s), (st_bq s); cbn [b2z]; lia.
Qed.

(* the two-level lookup of the model (row = byte / 16, column = byte mod 16) stays inside the
   16 x 16 table, and the table has exactly that shape *)
Lemma keys_state_rows_shape :
  length keys_state_rows = 16%nat /\ forallb (fun r => Nat.eqb (length r) 16) keys_state_rows = true.
Proof. split; vm_compute; reflexivity. Qed.

Theorem key_state_index_range s :
  state_ok s -> 0 <= state_byte s / 16 < 16 /\ 0 <= state_byte s mod 16 < 16.
Proof.
  intros H. pose proof (state_byte_range s H) as Hb. split.
  - split; [apply Z.div_pos; lia | apply Z.div_lt_upper_bound; lia].
  - apply Z.mod_pos_bound. lia.
Qed.

(* the key table of pieces: 8 rows of 8 squares of 12 keys *)
Lemma keys_piece_rows_shape :
  length keys_piece_rows = 8%nat
  /\ forallb (fun r => Nat.eqb (length r) 8 && forallb (fun c => Nat.eqb (length c) 12) r)
       keys_piece_rows = true.
Proof. split; vm_compute; reflexivity. Qed.

(* the score tables: 6 tables of 8 rows of 8 *)
Lemma score_tables_shape :
  length initial_table_rows = 6%nat
  /\ forallb (fun t => Nat.eqb (length t) 8 && forallb (fun r => Nat.eqb (length r) 8) t)
       (endgame_swap_rows :: initial_table_rows) = true.
Proof. split; vm_compute; reflexivity. Qed.

(* Piece::score: the rank flip 7 - row handed to Position::new_unsafe *)
Theorem flip_valid p : valid p -> valid (7 - fst p, snd p).
Proof. unfold valid; cbn [fst snd]. lia. Qed.

Theorem score_square_valid pc p :
  valid p -> valid (if color_eqb (po pc) score_flip_color then 7 - fst p else fst p, snd p).
Proof. intros H. destruct (color_eqb _ _); [now apply flip_valid | destruct p; exact H]. Qed.

(* history index: history has HISTORY_SLOTS = 768 = 12 * 64 entries *)
Theorem index_history_range g m i :
  gen_ok g m -> index_history m = Some i -> 0 <= i < HISTORY_SLOTS.
Proof.
  intros Hok Hi. destruct m as [pc s e [c|] | | | |]; cbn [index_history] in Hi; try discriminate.
  injection Hi as <-. cbn [gen_ok] in Hok. destruct Hok as (_ & He & _).
  pose proof (piece_index_range pc). pose proof (idx_range e He).
  unfold HISTORY_SLOTS. lia.
Qed.

(* independent of gen_ok: whenever the end square is valid *)
Lemma index_history_range_valid pc e :
  valid e -> 0 <= piece_index pc * 64 + idx e < HISTORY_SLOTS.
Proof.
  intros He. pose proof (piece_index_range pc). pose proof (idx_range e He).
  unfold HISTORY_SLOTS. lia.
Qed.

(* the history and killer tables of a fresh search state have the advertised sizes *)
Lemma fresh_state_sizes t stop tl :
  length (s_hist (fresh_state t stop tl)) = Z.to_nat HISTORY_SLOTS
  /\ length (s_killers (fresh_state t stop tl)) = Z.to_nat KILLER_SLOTS.
Proof. cbn [fresh_state s_hist s_killers]. now rewrite !repeat_length. Qed.

(* killer index: node is entered with real + remaining depth = iteration depth - ... <= 255, the
   recursive call keeps the sum, so the index real stays below KILLER_SLOTS *)
Lemma killer_index_step real rem :
  0 <= real -> real + Z.of_nat (S rem) <= 255 ->
  0 <= real < KILLER_SLOTS /\ 0 <= real + 1 /\ (real + 1) + Z.of_nat rem <= 255.
Proof. unfold KILLER_SLOTS. lia. Qed.

(* the depth argument of quiescence is clamped *)
Lemma quiescence_real_clamped real : Z.min 255 (real + 1) < KILLER_SLOTS.
Proof. unfold KILLER_SLOTS. lia. Qed.

(* ---- all squares stored in or derived from a generated move are on the board -------------------- *)

Definition move_squares (m : Move) : list pos :=
  match m with
  | Normal _ s e _ => [s; e]
  | Promotion _ _ s e _ => [s; e]
  | EnPassant o sc ec => [(fst (ep_rows o), ec); (fst (ep_rows o), sc); (snd (ep_rows o), ec)]
  | CastlingShort o => [(home_row o, 7); (home_row o, 4); (home_row o, 5); (home_row o, 6)]
  | CastlingLong o => [(home_row o, 0); (home_row o, 4); (home_row o, 3); (home_row o, 2)]
  end.

Lemma home_row_valid o c : 0 <= c < 8 -> valid (home_row o, c).
Proof. destruct o; unfold valid; cbn [home_row fst snd]; lia. Qed.

Lemma ep_rows_valid o c : 0 <= c < 8 -> valid (fst (ep_rows o), c) /\ valid (snd (ep_rows o), c).
Proof. destruct o; unfold valid; cbn [ep_rows fst snd]; lia. Qed.

Ltac forall_valid tac := repeat (apply Forall_cons; [tac|]); apply Forall_nil.

Theorem move_squares_valid g m : gen_ok g m -> Forall valid (move_squares m).
Proof.
  destruct m as [pc s e cap | o k s e cap | o | o | o sc ec]; cbn [gen_ok move_squares]; intros H.
  - destruct H as (Hs & He & _). forall_valid assumption.
  - destruct H as (_ & _ & Hs & He & _). forall_valid assumption.
  - forall_valid ltac:(apply home_row_valid; lia).
  - forall_valid ltac:(apply home_row_valid; lia).
  - destruct H as (_ & Hsc & Hec & _).
    destruct (ep_rows_valid o sc Hsc), (ep_rows_valid o ec Hec). forall_valid assumption.
Qed.

(* ---- 2. the unchecked constructor in the pawn double push ------------------------------------------ *)

Theorem pawn_add_unsafe_valid o p :
  valid p -> fst p = PAWN_FIRST_ROW o ->
  valid (add_unsafe p (PAWN_NORMAL_DELTA o)) /\ valid (add_unsafe p (PAWN_FIRST_DELTA o)).
Proof.
  unfold valid, add_unsafe. intros [Hr Hc] Hf.
  destruct o; cbn [PAWN_FIRST_ROW PAWN_NORMAL_DELTA PAWN_FIRST_DELTA fst snd] in *; lia.
Qed.

(* on the start row the unchecked and the checked constructor agree *)
Lemma add_in_range p d : valid (add_unsafe p d) -> add p d = Some (add_unsafe p d).
Proof.
  unfold valid, add_unsafe, add, in_range. cbn [fst snd]. intros [Hr Hc].
  replace ((0 <=? fst p + fst d) && (fst p + fst d <? 8) && (0 <=? snd p + snd d) && (snd p + snd d <? 8))
    with true; [reflexivity|].
  symmetry. repeat (apply andb_true_iff; split); try apply Z.leb_le; try apply Z.ltb_lt; lia.
Qed.

Theorem pawn_add_unsafe_checked o p :
  valid p -> fst p = PAWN_FIRST_ROW o ->
  add p (PAWN_NORMAL_DELTA o) = Some (add_unsafe p (PAWN_NORMAL_DELTA o))
  /\ add p (PAWN_FIRST_DELTA o) = Some (add_unsafe p (PAWN_FIRST_DELTA o)).
Proof.
  intros Hv Hf. destruct (pawn_add_unsafe_valid o p Hv Hf). split; now apply add_in_range.
Qed.

(* off the start row the model (like the code, through the short-circuit &&) does not use them:
   the double push list is empty *)
Lemma pawn_double_unused g self p :
  fst p <> PAWN_FIRST_ROW (po self) ->
  (if (fst p =? PAWN_FIRST_ROW (po self))
      && is_none (gget g (add_unsafe p (PAWN_NORMAL_DELTA (po self))))
      && is_none (gget g (add_unsafe p (PAWN_FIRST_DELTA (po self))))
   then [Normal self p (add_unsafe p (PAWN_FIRST_DELTA (po self))) None] else []) = [].
Proof. intros H. apply Z.eqb_neq in H. rewrite H. reflexivity. Qed.

(* every value returned by the checked constructor is on the board *)
Lemma add_some_valid p d np : add p d = Some np -> valid np.
Proof.
  unfold add. destruct (in_range _ _) eqn:E; [|discriminate]. intros H. injection H as <-.
  unfold in_range in E. repeat (apply andb_true_iff in E; destruct E as [E ?]).
  unfold valid; cbn [fst snd].
  repeat match goal with H : (_ <=? _) = true |- _ => apply Z.leb_le in H
                    | H : (_ <? _) = true |- _ => apply Z.ltb_lt in H end. lia.
Qed.

(* ---- 4. the state stack --------------------------------------------------------------------------- *)

Lemma push_finish_states g st : g_states (push_finish g st) = st :: g_states g.
Proof. reflexivity. Qed.

Lemma set_king_pos_states g c p : g_states (set_king_pos g c p) = g_states g.
Proof. destruct c; reflexivity. Qed.

Lemma set_king_pos_board g c p : g_board (set_king_pos g c p) = g_board g.
Proof. destruct c; reflexivity. Qed.

(* push adds exactly one state, for every move value (generated or not) *)
Theorem push_states g m : exists st, g_states (push g m) = st :: g_states g.
Proof.
  destruct m as [pc s e cap | o k s e cap | o | o | o sc ec]; unfold push.
  - destruct (kind_eqb (pk pc) King); [|destruct (kind_eqb (pk pc) Rook)];
      rewrite push_finish_states, ?set_king_pos_states, !set_position_states; eexists; reflexivity.
  - rewrite push_finish_states, !set_position_states. eexists; reflexivity.
  - rewrite push_finish_states, set_king_pos_states, !set_position_states. eexists; reflexivity.
  - rewrite push_finish_states, set_king_pos_states, !set_position_states. eexists; reflexivity.
  - destruct (ep_rows o) as [r1 r2].
    rewrite push_finish_states, !set_position_states. eexists; reflexivity.
Qed.

Theorem glen_push g m : glen (push g m) = S (glen g).
Proof. unfold glen. destruct (push_states g m) as [st ->]. reflexivity. Qed.

Theorem pop_states g m : g_states (pop g m) = tl (g_states g).
Proof.
  destruct m as [pc s e cap | o k s e cap | o | o | o sc ec]; unfold pop.
  - destruct (kind_eqb (pk pc) King); rewrite ?set_king_pos_states, !set_position_states; reflexivity.
  - rewrite !set_position_states. reflexivity.
  - rewrite set_king_pos_states, !set_position_states. reflexivity.
  - rewrite set_king_pos_states, !set_position_states. reflexivity.
  - destruct (ep_rows o) as [r1 r2]. rewrite !set_position_states. reflexivity.
Qed.

Theorem glen_pop g m : glen (pop g m) = pred (glen g).
Proof. unfold glen. rewrite pop_states. destruct (g_states g); reflexivity. Qed.

Corollary glen_pop_push g m : glen (pop (push g m) m) = glen g.
Proof. rewrite glen_pop, glen_push. reflexivity. Qed.

(* RuleInv keeps the stack non-empty, so pop never empties it below one state after a push *)
Lemma glen_pos g : RepInv g -> (0 < glen g)%nat.
Proof. intros [_ [Hs _ _ _ _ _ _]]. unfold glen. destruct (g_states g); [congruence | cbn; lia]. Qed.

(* push_history = update_phase then push: one more state as well *)
Lemma update_phase_states g : g_states (update_phase g) = g_states g.
Proof.
  unfold update_phase. destruct (negb (g_endgame g) && is_endgame g); [|reflexivity].
  rewrite !set_position_states. reflexivity.
Qed.

Theorem glen_push_history g m : glen (push_history g m) = S (glen g).
Proof.
  unfold push_history. rewrite glen_push. unfold glen. rewrite update_phase_states. reflexivity.
Qed.

(* the PV walk of the driver pushes table moves (arbitrary move values) at most n times *)
Inductive walk_reach : nat -> game -> game -> Prop :=
| walk_here n g : walk_reach n g g
| walk_step n g m g' : walk_reach n (push g m) g' -> walk_reach (S n) g g'.

Theorem walk_reach_glen n g g' : walk_reach n g g' -> (glen g' <= glen g + n)%nat.
Proof. induction 1 as [|n g m g' _ IH]; [lia|]. rewrite glen_push in IH. lia. Qed.

(* closed arithmetic over the generated constants: game length guard + iteration depth (u8) +
   the push of the root + the quiescence potential (at most 2 * 64) + the push in progress.
   A change of either constant in the Rust source that breaks this breaks the build. *)
Example cap_suffices : GAME_LENGTH_GUARD + 255 + 1 + 128 + 1 <= STATE_STACK_CAP.
Proof. vm_compute. congruence. Qed.

Example cap_suffices_autoplay : AUTOPLAY_LENGTH_GUARD + 255 + 1 + 128 + 1 <= STATE_STACK_CAP.
Proof. vm_compute. congruence. Qed.

Example table_sizes : HISTORY_SLOTS = 12 * 64 /\ KILLER_SLOTS = 256 /\ MOVE_BUFFER_CAP = 256.
Proof. repeat split. Qed.

(* ---- 5 (first part). the move buffer is in range by construction ------------------------------------ *)

Theorem pseudo_moves_fit g : (length (pseudo_moves g) <= Z.to_nat MOVE_BUFFER_CAP)%nat.
Proof.
  unfold pseudo_moves. destruct (king_exists g (g_player g)); [apply firstn_le_length | cbn; lia].
Qed.

Lemma pseudo_moves_incl g m : In m (pseudo_moves g) -> In m (pseudo_moves_all g).
Proof.
  unfold pseudo_moves. destruct (king_exists g (g_player g)); [|intros []].
  generalize (Z.to_nat MOVE_BUFFER_CAP) (pseudo_moves_all g). intros n l. revert n.
  induction l as [|x t IH]; intros [|n]; cbn [firstn In]; try tauto.
  intros [H|H]; [now left | right; now apply (IH n)].
Qed.

Lemma checked_moves_incl g m : In m (checked_moves g) -> In m (pseudo_moves g).
Proof.
  unfold checked_moves. destruct (king_exists g (g_player g)); [|intros []].
  intros H. apply filter_In in H. tauto.
Qed.

Lemma bd_filter_length {A} (f : A -> bool) l : (length (filter f l) <= length l)%nat.
Proof. induction l as [|x t IH]; cbn [filter length]; [lia|]. destruct (f x); cbn [length]; lia. Qed.

Theorem checked_moves_fit g : (length (checked_moves g) <= Z.to_nat MOVE_BUFFER_CAP)%nat.
Proof.
  unfold checked_moves. destruct (king_exists g (g_player g)); [|cbn; lia].
  etransitivity; [apply bd_filter_length | apply pseudo_moves_fit].
Qed.

(* no truncation happens when the untruncated list fits *)
Lemma pseudo_moves_untruncated g :
  king_exists g (g_player g) = true ->
  (length (pseudo_moves_all g) <= Z.to_nat MOVE_BUFFER_CAP)%nat ->
  pseudo_moves g = pseudo_moves_all g.
Proof. intros Hk Hl. unfold pseudo_moves. rewrite Hk. now apply firstn_all2. Qed.

Print Assumptions piece_index_range.
Print Assumptions idx_range.
Print Assumptions state_byte_range.
Print Assumptions index_history_range.
Print Assumptions move_squares_valid.
Print Assumptions pawn_add_unsafe_valid.
Print Assumptions glen_push.
Print Assumptions glen_pop.
Print Assumptions walk_reach_glen.
Print Assumptions cap_suffices.
Print Assumptions pseudo_moves_fit.
Print Assumptions checked_moves_fit.
