(* C10, second half: a forced mate in two at depth 5.

   PARTIAL.  What is proved:
   - sections 2-3 (independent of the search mode): ranges of the reference intervals of Proofs/AlphaBeta3.v
     ([chess_niv], the interval negamax that encloses the exhaustive reference of Spec/Negamax.v) on games of
     bounded material: at ply r every interval lies in [-(32668 - r), 32667 - r] (niv_G); quiescence and
     depth-1 intervals lie in [-30768, 30768]; the position after a key of a mate in two has the point
     interval -32665 at remaining depth 4 (niv4_key), the position after any other non-mating move has a
     lower end >= -30768 (niv4_nonkey), so the reference value of the root at depth 5 is exactly 32665 and
     only keys attain it (rootiv5_point); in the iterations 1..4 every root child is either within
     [-30768, 30768] or lost for the mover (child_class), the key's child is within (key_child_T);
   - sections 4-6: for the TABLE-LESS mode of the model (tableless = true: the table is emptied at every
     poll, every probe misses), from node_interval_consistent: C10_mate_in_two_tableless_partial - from a
     fresh table, never stopped, limit none or >= 5, the driver searches the iterations 1..5, the scores
     of the iterations 1..4 lie in [-30768, 30768] (outside the exit bands), iteration 5 scores 32665, the
     announced move is a key and the driver stops there by itself (or the key is the only legal move).
   Hypotheses: bounded material; no mate in one; the root's repetition filter keeps a key; no "blocked"
   node in the five trees (the hypothesis of the C09 theorems; computable).  No hash hypothesis is needed
   in this mode.
   What is missing for C10 as stated: the same for the engine's mode (tableless = false).  There the
   nodes of one iteration hit entries stored earlier in the same iteration (PVS re-searches at the root
   and at ply 1/2 revisit the same positions with the same remaining depth; transpositions at ply 3),
   so one needs the interval theorem of AlphaBeta3.v WITH the table: an invariant "an entry of depth d
   under the hash of a position c at ply r is consistent, flag by flag, with the interval of c at
   (d, r)", a no-collision hypothesis on the positions of the depth-4 tree, and the exclusion of hits
   across plies (an entry deeper than the remaining depth answers for a different tree).  Not done. *)
From Coq Require Import Lia Permutation FSets.FMapPositive.
From Chess Require Import Model.Search Spec.Negamax Model.RefSearch
  Proofs.Grid Proofs.Inv Proofs.Abs Proofs.GenOk Proofs.PushPop Proofs.PushPop2
  Proofs.Reach Proofs.Bounds Proofs.BoundsQ Proofs.BoundsInst Proofs.SearchInv1 Proofs.SearchInv2 Proofs.Top
  Proofs.ScoreRange1 Proofs.ScoreRange2 Proofs.AlphaBeta Proofs.AlphaBeta3 Proofs.MateOne.
Open Scope Z_scope.

(* ---- 1. vocabulary -------------------------------------------------------------------------------------- *)

(* the side to move has a mating move *)
Definition wins1_b (c : game) : bool := existsb (fun m2 => mated_b (push c m2)) (checked_moves c).

(* m is a key of a mate in two: the opponent has a reply, and after every reply we mate *)
Definition key2_b (g : game) (m : Move) : bool :=
  match checked_moves (push g m) with
  | [] => false
  | rs => forallb (fun r => wins1_b (push (push g m) r)) rs
  end.

Definition key2 (g : game) (m : Move) : Prop := In m (checked_moves g) /\ key2_b g m = true.

Lemma wins1_b_iff c : wins1_b c = true <-> exists m2, mates c m2.
Proof.
  unfold wins1_b. rewrite existsb_exists. split.
  - intros (m2 & Hin & H). exists m2. now apply (mated_b_mates c m2 Hin).
  - intros (m2 & Hm). exists m2. split; [exact (proj1 Hm)|]. now apply (mated_b_mates c m2 (proj1 Hm)).
Qed.

Lemma key2_iff g m :
  key2 g m <-> In m (checked_moves g) /\ checked_moves (push g m) <> [] /\
               forall r, In r (checked_moves (push g m)) -> exists m2, mates (push (push g m) r) m2.
Proof.
  unfold key2, key2_b. split.
  - intros [Hin H]. split; [exact Hin|]. destruct (checked_moves (push g m)) as [|r0 rs] eqn:E; [discriminate|].
    split; [discriminate|]. intros r Hr. rewrite forallb_forall in H. apply wins1_b_iff. now apply H.
  - intros (Hin & Hne & H). split; [exact Hin|].
    destruct (checked_moves (push g m)) as [|r0 rs] eqn:E; [congruence|].
    apply forallb_forall. intros r Hr. apply wins1_b_iff. now apply H.
Qed.

Lemma in_check_model_safe g : in_check_model g = negb (side_safe g).
Proof. reflexivity. Qed.

Lemma mated_b_spec c : mated_b c = true <-> checked_moves c = [] /\ side_safe c = false.
Proof.
  unfold mated_b. rewrite in_check_model_safe. destruct (checked_moves c); split.
  - intros H. split; [reflexivity|]. now apply Bool.negb_true_iff.
  - intros [_ H]. now apply Bool.negb_true_iff.
  - discriminate.
  - intros [H _]. discriminate.
Qed.

Lemma forallb_false_ex {A} (f : A -> bool) l : forallb f l = false -> exists x, In x l /\ f x = false.
Proof.
  induction l as [|a t IH]; cbn [forallb]; [discriminate|].
  destruct (f a) eqn:E; cbn [andb].
  - intros H. destruct (IH H) as (x & Hin & Hx). exists x. split; [now right | exact Hx].
  - intros _. exists a. split; [now left | exact E].
Qed.

(* ---- 2. the reference intervals: ranges --------------------------------------------------------------- *)

Ltac rk :=
  unfold RK, WK, T_BOUND, S_STAR, SCORE_MIN, SCORE_MAX, MATE_OFFSET_NODE, MATE_OFFSET_DEPTH1,
    MATE_OFFSET_QUIESCENCE, BOUND in *; lia.

Lemma maxl_bounds l d lo hi :
  (forall x, In x l -> lo <= x <= hi) -> lo <= d <= hi -> lo <= maxl l d <= hi.
Proof.
  revert d. induction l as [|x l IH]; intros d Hl Hd; [exact Hd|].
  rewrite maxl_cons. apply IH.
  - intros y Hy. apply Hl. now right.
  - pose proof (Hl x (or_introl eq_refl)). lia.
Qed.

Lemma maxne_bounds l lo hi :
  l <> [] -> (forall x, In x l -> lo <= x <= hi) -> lo <= maxne l <= hi.
Proof.
  destruct l as [|x t]; [congruence|]. intros _ H. cbn [maxne]. apply maxl_bounds.
  - intros y Hy. apply H. now right.
  - apply H. now left.
Qed.

Lemma maxne_ge l x : In x l -> x <= maxne l.
Proof.
  destruct l as [|y t]; [intros []|]. cbn [maxne]. intros [<- | Hin].
  - apply maxl_ge.
  - now apply maxl_in_le.
Qed.

Lemma maxl_le l hi : forall d, (forall x, In x l -> x <= hi) -> d <= hi -> maxl l d <= hi.
Proof.
  induction l as [|x l IH]; intros d Hl Hd; [exact Hd|].
  rewrite maxl_cons. apply IH.
  - intros y Hy. apply Hl. now right.
  - pose proof (Hl x (or_introl eq_refl)). lia.
Qed.

Lemma maxne_le l hi : l <> [] -> (forall x, In x l -> x <= hi) -> maxne l <= hi.
Proof.
  destruct l as [|y t]; [congruence|]. intros _ H. cbn [maxne]. apply maxl_le.
  - intros x Hx. apply H. now right.
  - apply H. now left.
Qed.

Lemma chess_qiv_S f g real :
  chess_qiv (S f) g real =
  match pseudo_moves g with
  | [] => (Kq real, Z.max (standpat g) (Kq real))
  | ms => (maxl (map (fun m => - snd (chess_qiv f (push g m) (Z.min 255 (real + 1)))) (filter is_tactical ms)) (standpat g),
           maxl (map (fun m => - fst (chess_qiv f (push g m) (Z.min 255 (real + 1)))) (filter is_tactical ms)) (standpat g))
  end.
Proof. reflexivity. Qed.

Definition IvT (p : Z * Z) : Prop := - T_BOUND <= fst p /\ fst p <= snd p /\ snd p <= T_BOUND.

Lemma GB_sp g : GB g -> - BOUND <= standpat g <= BOUND.
Proof. intros H. exact (GB_standpat g H). Qed.

Lemma qiv_T : forall fuel g real, GB g -> 0 <= real <= 256 -> IvT (chess_qiv fuel g real).
Proof.
  induction fuel as [|f IH]; intros g real Hg Hr.
  - unfold IvT. cbn. rk.
  - rewrite chess_qiv_S. pose proof (GB_sp g Hg) as Hsp.
    destruct (pseudo_moves g) as [|m0 ms0] eqn:Epm.
    + unfold IvT, Kq. cbn [fst snd]. rk.
    + rewrite <- Epm. set (tac := filter is_tactical (pseudo_moves g)).
      assert (Hc : forall m, In m tac -> IvT (chess_qiv f (push g m) (Z.min 255 (real + 1)))).
      { intros m Hin. apply filter_In in Hin. apply IH; [apply GB_push_pseudo; [exact Hg | apply Hin] | lia]. }
      unfold IvT. cbn [fst snd]. split; [|split].
      * apply maxl_bounds with (hi := T_BOUND); [|rk].
        intros x Hx. apply in_map_iff in Hx. destruct Hx as (m & <- & Hin). destruct (Hc m Hin). rk.
      * apply maxl_map_le; [|lia]. intros m Hin. destruct (Hc m Hin) as (_ & H & _). lia.
      * apply maxl_bounds with (lo := - T_BOUND); [|rk].
        intros x Hx. apply in_map_iff in Hx. destruct Hx as (m & <- & Hin). destruct (Hc m Hin). rk.
Qed.

Definition nms (g : game) (off real : Z) : Z := if side_safe g then 0 else SCORE_MIN + off + real.

Lemma chess_niv_0 g real : chess_niv 0 g real = chess_qiv QFUEL g real.
Proof. reflexivity. Qed.

Lemma chess_niv_1 g real :
  chess_niv 1 g real =
  match pseudo_moves g with
  | [] => (nms g MATE_OFFSET_DEPTH1 real, nms g MATE_OFFSET_DEPTH1 real)
  | ms => (maxne (map (fun m => - snd (chess_qiv QFUEL (push g m) (real + 1))) ms),
           maxne (map (fun m => - fst (chess_qiv QFUEL (push g m) (real + 1))) ms))
  end.
Proof. reflexivity. Qed.

Lemma chess_niv_SS n g real :
  chess_niv (S (S n)) g real =
  match checked_moves g with
  | [] => (nms g MATE_OFFSET_NODE real, nms g MATE_OFFSET_NODE real)
  | ms => (maxne (map (fun m => - snd (chess_niv (S n) (push g m) (real + 1))) ms),
           maxne (map (fun m => - fst (chess_niv (S n) (push g m) (real + 1))) ms))
  end.
Proof. reflexivity. Qed.

(* the interval of an interior node with moves, from facts about its children *)
Lemma niv_children n g real :
  checked_moves g <> [] ->
  fst (chess_niv (S (S n)) g real) = maxne (map (fun m => - snd (chess_niv (S n) (push g m) (real + 1))) (checked_moves g)) /\
  snd (chess_niv (S (S n)) g real) = maxne (map (fun m => - fst (chess_niv (S n) (push g m) (real + 1))) (checked_moves g)).
Proof.
  intros Hne. rewrite chess_niv_SS. destruct (checked_moves g); [congruence|]. split; reflexivity.
Qed.

Lemma niv_dead n g real :
  checked_moves g = [] -> chess_niv (S (S n)) g real = (nms g MATE_OFFSET_NODE real, nms g MATE_OFFSET_NODE real).
Proof. intros E. rewrite chess_niv_SS, E. reflexivity. Qed.

Lemma d1iv_T g real : GB g -> 0 <= real <= 255 -> IvT (chess_niv 1 g real).
Proof.
  intros Hg Hr. rewrite chess_niv_1. destruct (pseudo_moves g) as [|m0 ms0] eqn:Epm.
  - unfold IvT, nms. cbn [fst snd]. destruct (side_safe g); rk.
  - rewrite <- Epm.
    assert (Hne : pseudo_moves g <> []) by (rewrite Epm; discriminate).
    assert (Hc : forall m, In m (pseudo_moves g) -> IvT (chess_qiv QFUEL (push g m) (real + 1))).
    { intros m Hin. apply qiv_T; [now apply GB_push_pseudo | lia]. }
    unfold IvT. cbn [fst snd]. split; [|split].
    + apply maxne_bounds with (hi := T_BOUND); [intros E; apply map_eq_nil in E; congruence|].
      intros x Hx. apply in_map_iff in Hx. destruct Hx as (m & <- & Hin). destruct (Hc m Hin). rk.
    + apply maxne_map_le. intros m Hin. destruct (Hc m Hin) as (_ & H & _). lia.
    + apply maxne_bounds with (lo := - T_BOUND); [intros E; apply map_eq_nil in E; congruence|].
      intros x Hx. apply in_map_iff in Hx. destruct Hx as (m & <- & Hin). destruct (Hc m Hin). rk.
Qed.

(* the general range: at ply [real] the value is at least the score of being mated at that ply and at
   most the score of mating at the next one *)
Definition mu (real : Z) : Z := - (SCORE_MIN + MATE_OFFSET_NODE + real).    (* 32668 - real *)

Definition IvG (real : Z) (p : Z * Z) : Prop := - mu real <= fst p /\ fst p <= snd p /\ snd p <= mu (real + 1).

Lemma IvT_IvG real p : 0 <= real <= 255 -> IvT p -> IvG real p.
Proof. unfold IvT, IvG, mu. intros Hr (H1 & H2 & H3). rk. Qed.

Lemma niv_G : forall rem g real,
  GB g -> 0 <= real -> Z.of_nat rem + real <= 255 -> IvG real (chess_niv rem g real).
Proof.
  induction rem as [rem IH] using (well_founded_induction Wf_nat.lt_wf). intros g real Hg Hr Hsum.
  destruct rem as [|[|n]].
  - apply IvT_IvG; [lia|]. rewrite chess_niv_0. apply qiv_T; [exact Hg | lia].
  - apply IvT_IvG; [lia|]. apply d1iv_T; [exact Hg | lia].
  - destruct (checked_moves g) as [|m0 ms0] eqn:Ecm.
    + rewrite (niv_dead n g real Ecm). unfold IvG, nms, mu. cbn [fst snd]. destruct (side_safe g); rk.
    + assert (Hne : checked_moves g <> []) by (rewrite Ecm; discriminate).
      unfold IvG. destruct (niv_children n g real Hne) as [E1 E2]. rewrite E1, E2. clear E1 E2.
      assert (Hc : forall m, In m (checked_moves g) -> IvG (real + 1) (chess_niv (S n) (push g m) (real + 1))).
      { intros m Hin. apply IH; [lia | now apply GB_push_checked | lia | lia]. }
      assert (Hnn : forall (f : Move -> Z), map f (checked_moves g) <> []).
      { intros f E. apply map_eq_nil in E. congruence. }
      split; [|split].
      * assert (Hin0 : In m0 (checked_moves g)) by (rewrite Ecm; now left).
        pose proof (maxne_ge _ _ (in_map (fun m => - snd (chess_niv (S n) (push g m) (real + 1))) _ _ Hin0)) as H.
        destruct (Hc m0 Hin0) as (_ & _ & H3). unfold mu in *. rk.
      * apply maxne_map_le. intros m Hin. destruct (Hc m Hin) as (_ & H & _). lia.
      * apply maxne_le; [apply Hnn|]. intros x Hx. apply in_map_iff in Hx. destruct Hx as (m & <- & Hin).
        destruct (Hc m Hin) as (H1 & _). unfold mu in *. rk.
Qed.

Lemma nivok_GB : forall rem g real,
  GB g -> 0 <= real -> Z.of_nat rem + real <= 255 -> chess_nivok rem g real = true.
Proof.
  induction rem as [rem IH] using (well_founded_induction Wf_nat.lt_wf). intros g real Hg Hr Hsum.
  destruct rem as [|[|n]]; try reflexivity.
  change (chess_nivok (S (S n)) g real) with
    (forallb (fun m => (snd (chess_niv (S n) (push g m) (real + 1)) <=? - SCORE_MIN)
                       && chess_nivok (S n) (push g m) (real + 1)) (checked_moves g)).
  apply forallb_forall. intros m Hin. apply Bool.andb_true_iff. split.
  - apply Z.leb_le. destruct (niv_G (S n) (push g m) (real + 1)) as (_ & _ & H); [now apply GB_push_checked | lia | lia|].
    unfold mu in H. rk.
  - apply IH; [lia | now apply GB_push_checked | lia | lia].
Qed.

(* ---- 3. the reference intervals of the positions that matter --------------------------------------------- *)

Lemma mated_b_dead c : checked_moves c = [] -> mated_b c = negb (side_safe c).
Proof. intros E. unfold mated_b. rewrite E. reflexivity. Qed.

Lemma mated_b_alive c : checked_moves c <> [] -> mated_b c = false.
Proof. intros E. unfold mated_b. destruct (checked_moves c); [congruence | reflexivity]. Qed.

Lemma niv_mated n c real : mated_b c = true -> chess_niv (S (S n)) c real = (- mu real, - mu real).
Proof.
  intros H. apply mated_b_spec in H. destruct H as [Hd Hs]. rewrite (niv_dead n c real Hd).
  unfold nms, mu. rewrite Hs. f_equal; lia.
Qed.

Lemma niv_dead_safe n c real :
  checked_moves c = [] -> mated_b c = false -> chess_niv (S (S n)) c real = (0, 0).
Proof.
  intros Hd Hm. rewrite (niv_dead n c real Hd). rewrite (mated_b_dead c Hd) in Hm.
  apply Bool.negb_false_iff in Hm. unfold nms. rewrite Hm. reflexivity.
Qed.

Lemma map_nonnil {A B} (f : A -> B) l : l <> [] -> map f l <> [].
Proof. intros H E. apply map_eq_nil in E. congruence. Qed.

(* remaining depth 2 *)
Lemma niv2_bounds c real :
  GB c -> 0 <= real <= 253 ->
  snd (chess_niv 2 c real) <= T_BOUND /\
  (mated_b c = false -> - T_BOUND <= fst (chess_niv 2 c real)).
Proof.
  intros Hg Hr. destruct (checked_moves c) as [|m0 ms0] eqn:Ecm.
  - split.
    + rewrite (niv_dead 0 c real Ecm). unfold nms. cbn [snd]. destruct (side_safe c); rk.
    + intros Hm. rewrite (niv_dead_safe 0 c real Ecm Hm). cbn [fst]. rk.
  - assert (Hne : checked_moves c <> []) by (rewrite Ecm; discriminate).
    destruct (niv_children 0 c real Hne) as [E1 E2]. rewrite E1, E2. clear E1 E2.
    assert (Hc : forall m, In m (checked_moves c) -> IvT (chess_niv 1 (push c m) (real + 1))).
    { intros m Hin. apply d1iv_T; [now apply GB_push_checked | lia]. }
    split.
    + apply maxne_le; [now apply map_nonnil|]. intros x Hx. apply in_map_iff in Hx.
      destruct Hx as (m & <- & Hin). destruct (Hc m Hin) as (H1 & _). lia.
    + intros _. assert (Hin0 : In m0 (checked_moves c)) by (rewrite Ecm; now left).
      pose proof (maxne_ge _ _ (in_map (fun m => - snd (chess_niv 1 (push c m) (real + 1))) _ _ Hin0)) as H.
      destruct (Hc m0 Hin0) as (_ & _ & H3). lia.
Qed.

(* remaining depth 3 *)
Lemma niv3_bounds c real :
  GB c -> 0 <= real <= 252 ->
  (mated_b c = false -> - T_BOUND <= fst (chess_niv 3 c real)) /\
  ((forall r, In r (checked_moves c) -> mated_b (push c r) = false) -> snd (chess_niv 3 c real) <= T_BOUND) /\
  (forall r, In r (checked_moves c) -> mated_b (push c r) = true -> mu (real + 1) <= fst (chess_niv 3 c real)).
Proof.
  intros Hg Hr. destruct (checked_moves c) as [|m0 ms0] eqn:Ecm.
  - split; [|split].
    + intros Hm. rewrite (niv_dead_safe 1 c real Ecm Hm). cbn [fst]. rk.
    + intros _. rewrite (niv_dead 1 c real Ecm). unfold nms. cbn [snd]. destruct (side_safe c); rk.
    + intros r [].
  - assert (Hne : checked_moves c <> []) by (rewrite Ecm; discriminate).
    destruct (niv_children 1 c real Hne) as [E1 E2]. rewrite E1, E2. clear E1 E2. rewrite <- Ecm.
    assert (Hc : forall m, In m (checked_moves c) ->
              snd (chess_niv 2 (push c m) (real + 1)) <= T_BOUND /\
              (mated_b (push c m) = false -> - T_BOUND <= fst (chess_niv 2 (push c m) (real + 1)))).
    { intros m Hin. apply niv2_bounds; [now apply GB_push_checked | lia]. }
    split; [|split].
    + intros _. assert (Hin0 : In m0 (checked_moves c)) by (rewrite Ecm; now left).
      pose proof (maxne_ge _ _ (in_map (fun m => - snd (chess_niv 2 (push c m) (real + 1))) _ _ Hin0)) as H.
      destruct (Hc m0 Hin0) as (H1 & _). lia.
    + intros Hall. apply maxne_le; [now apply map_nonnil|]. intros x Hx. apply in_map_iff in Hx.
      destruct Hx as (m & <- & Hin). destruct (Hc m Hin) as (_ & H2). specialize (H2 (Hall m Hin)). lia.
    + intros r Hin Hm.
      pose proof (maxne_ge _ _ (in_map (fun m => - snd (chess_niv 2 (push c m) (real + 1))) _ _ Hin)) as H.
      rewrite (niv_mated 0 (push c r) (real + 1) Hm) in H. cbn [snd] in H. lia.
Qed.

Lemma existsb_false_all {A} (f : A -> bool) l : existsb f l = false -> forall x, In x l -> f x = false.
Proof.
  intros H x Hin. destruct (f x) eqn:E; [|reflexivity].
  assert (existsb f l = true) by (apply existsb_exists; exists x; now split). congruence.
Qed.

(* the position after a reply to a key: we mate at ply 3 *)
Lemma niv3_wins c : GB c -> wins1_b c = true -> chess_niv 3 c 2 = (32665, 32665).
Proof.
  intros Hg Hw. unfold wins1_b in Hw. apply existsb_exists in Hw. destruct Hw as (m2 & Hin & Hm).
  destruct (niv3_bounds c 2 Hg ltac:(lia)) as (_ & _ & H3). specialize (H3 m2 Hin Hm).
  destruct (niv_G 3 c 2 Hg ltac:(lia) ltac:(cbn; lia)) as (_ & H2 & H4).
  unfold mu in *. destruct (chess_niv 3 c 2) as [lo hi]. cbn [fst snd] in *. f_equal; rk.
Qed.

Lemma wins1_alive c : wins1_b c = true -> checked_moves c <> [].
Proof.
  unfold wins1_b. intros H E. rewrite E in H. discriminate.
Qed.

(* the position after a key, at iteration 5 *)
Lemma niv4_key g m : GB g -> key2 g m -> chess_niv 4 (push g m) 1 = (-32665, -32665).
Proof.
  intros Hg [Hin Hk]. unfold key2_b in Hk.
  pose proof (GB_push_checked g m Hg Hin) as Ha.
  destruct (checked_moves (push g m)) as [|r0 rs] eqn:Ecm; [discriminate|].
  assert (Hne : checked_moves (push g m) <> []) by (rewrite Ecm; discriminate).
  rewrite <- Ecm in Hk. rewrite forallb_forall in Hk.
  destruct (niv_children 2 (push g m) 1 Hne) as [E1 E2].
  assert (Hc : forall r, In r (checked_moves (push g m)) -> chess_niv 3 (push (push g m) r) (1 + 1) = (32665, 32665)).
  { intros r Hr. apply niv3_wins; [now apply GB_push_checked | now apply Hk]. }
  destruct (chess_niv 4 (push g m) 1) as [lo hi]. cbn [fst snd] in E1, E2. subst lo hi. f_equal.
  - assert (H : -32665 <= maxne (map (fun m0 => - snd (chess_niv 3 (push (push g m) m0) (1 + 1))) (checked_moves (push g m))) <= -32665).
    { apply maxne_bounds; [now apply map_nonnil|]. intros x Hx. apply in_map_iff in Hx.
      destruct Hx as (r & <- & Hr). rewrite (Hc r Hr). cbn [snd]. lia. }
    lia.
  - assert (H : -32665 <= maxne (map (fun m0 => - fst (chess_niv 3 (push (push g m) m0) (1 + 1))) (checked_moves (push g m))) <= -32665).
    { apply maxne_bounds; [now apply map_nonnil|]. intros x Hx. apply in_map_iff in Hx.
      destruct Hx as (r & <- & Hr). rewrite (Hc r Hr). cbn [fst]. lia. }
    lia.
Qed.

(* the position after a move that is neither mating nor a key, at iteration 5 *)
Lemma niv4_nonkey g m :
  GB g -> In m (checked_moves g) -> mated_b (push g m) = false -> key2_b g m = false ->
  - T_BOUND <= fst (chess_niv 4 (push g m) 1).
Proof.
  intros Hg Hin Hnm Hk. pose proof (GB_push_checked g m Hg Hin) as Ha. unfold key2_b in Hk.
  destruct (checked_moves (push g m)) as [|r0 rs] eqn:Ecm.
  - rewrite (niv_dead_safe 2 (push g m) 1 Ecm Hnm). cbn [fst]. rk.
  - assert (Hne : checked_moves (push g m) <> []) by (rewrite Ecm; discriminate).
    rewrite <- Ecm in Hk. destruct (forallb_false_ex _ _ Hk) as (r & Hr & Hw).
    destruct (niv_children 2 (push g m) 1 Hne) as [E1 _]. rewrite E1.
    pose proof (maxne_ge _ _ (in_map (fun m0 => - snd (chess_niv 3 (push (push g m) m0) (1 + 1))) _ _ Hr)) as H.
    destruct (niv3_bounds (push (push g m) r) (1 + 1) (GB_push_checked _ _ Ha Hr) ltac:(lia)) as (_ & H2 & _).
    assert (Hall : forall m2, In m2 (checked_moves (push (push g m) r)) -> mated_b (push (push (push g m) r) m2) = false).
    { intros m2 Hm2. exact (existsb_false_all _ _ Hw m2 Hm2). }
    specialize (H2 Hall). lia.
Qed.

(* the children of the root in the iterations 1..4 *)
Definition Tch (p : Z * Z) : Prop := - T_BOUND <= fst p /\ snd p <= T_BOUND.

Lemma child_class g m (d : nat) :
  GB g -> In m (checked_moves g) -> mated_b (push g m) = false -> (1 <= d <= 4)%nat ->
  Tch (chess_niv (pred d) (push g m) 1) \/ T_BOUND < fst (chess_niv (pred d) (push g m) 1).
Proof.
  intros Hg Hin Hnm Hd. pose proof (GB_push_checked g m Hg Hin) as Ha.
  destruct d as [|[|[|[|[|d]]]]]; try lia; cbn [pred].
  - left. rewrite chess_niv_0. destruct (qiv_T QFUEL (push g m) 1 Ha ltac:(lia)) as (H1 & _ & H3). now split.
  - left. destruct (d1iv_T (push g m) 1 Ha ltac:(lia)) as (H1 & _ & H3). now split.
  - left. destruct (niv2_bounds (push g m) 1 Ha ltac:(lia)) as (H1 & H2). split; [now apply H2 | exact H1].
  - destruct (niv3_bounds (push g m) 1 Ha ltac:(lia)) as (H1 & H2 & H3).
    destruct (existsb (fun r => mated_b (push (push g m) r)) (checked_moves (push g m))) eqn:E.
    + right. apply existsb_exists in E. destruct E as (r & Hr & Hm). specialize (H3 r Hr Hm). unfold mu in H3. rk.
    + left. split; [now apply H1|]. apply H2. intros r Hr. exact (existsb_false_all _ _ E r Hr).
Qed.

Lemma key_alive g m : key2 g m -> mated_b (push g m) = false.
Proof.
  intros [_ Hk]. apply mated_b_alive. unfold key2_b in Hk. intros E. rewrite E in Hk. discriminate.
Qed.

Lemma key_child_T g m (d : nat) :
  GB g -> key2 g m -> (1 <= d <= 4)%nat -> Tch (chess_niv (pred d) (push g m) 1).
Proof.
  intros Hg Hk Hd. pose proof (proj1 Hk) as Hin. pose proof (key_alive g m Hk) as Hnm.
  destruct (child_class g m d Hg Hin Hnm Hd) as [H | H]; [exact H|]. exfalso.
  destruct d as [|[|[|[|[|d]]]]]; try lia; cbn [pred] in H.
  - rewrite chess_niv_0 in H. destruct (qiv_T QFUEL (push g m) 1 (GB_push_checked g m Hg Hin) ltac:(lia)) as (_ & H2 & H3). lia.
  - destruct (d1iv_T (push g m) 1 (GB_push_checked g m Hg Hin) ltac:(lia)) as (_ & H2 & H3). lia.
  - destruct (niv2_bounds (push g m) 1 (GB_push_checked g m Hg Hin) ltac:(lia)) as (H1 & _).
    destruct (niv_G 2 (push g m) 1 (GB_push_checked g m Hg Hin) ltac:(lia) ltac:(cbn; lia)) as (_ & H2 & _). lia.
  - destruct (niv3_bounds (push g m) 1 (GB_push_checked g m Hg Hin) ltac:(lia)) as (_ & H2 & _).
    destruct (niv_G 3 (push g m) 1 (GB_push_checked g m Hg Hin) ltac:(lia) ltac:(cbn; lia)) as (_ & H4 & _).
    assert (Hall : forall r, In r (checked_moves (push g m)) -> mated_b (push (push g m) r) = false).
    { intros r Hr. apply mated_b_alive, wins1_alive. destruct Hk as [_ Hk]. unfold key2_b in Hk.
      destruct (checked_moves (push g m)) as [|r0 rs] eqn:E; [destruct Hr|]. rewrite forallb_forall in Hk. now apply Hk. }
    specialize (H2 Hall). lia.
Qed.

(* the reference at depth 5: the root interval is the point 32665 as soon as a key is among the moves *)
Lemma chess_rootiv_eq d g moves :
  chess_rootiv d g moves =
  (maxl (map (fun m => - snd (chess_niv (pred d) (push g m) 1)) moves) (SCORE_MIN + 1),
   maxl (map (fun m => - fst (chess_niv (pred d) (push g m) 1)) moves) (SCORE_MIN + 1)).
Proof. reflexivity. Qed.

Lemma niv4_lo g m :
  GB g -> In m (checked_moves g) -> mated_b (push g m) = false -> -32665 <= fst (chess_niv 4 (push g m) 1).
Proof.
  intros Hg Hm Hnm. destruct (key2_b g m) eqn:Ek.
  - rewrite (niv4_key g m Hg (conj Hm Ek)). cbn [fst]. lia.
  - pose proof (niv4_nonkey g m Hg Hm Hnm Ek). rk.
Qed.

Theorem rootiv5_point g moves :
  GB g -> (forall m, In m (checked_moves g) -> mated_b (push g m) = false) ->
  incl moves (checked_moves g) -> (exists m, In m moves /\ key2 g m) ->
  chess_rootiv 5 g moves = (32665, 32665) /\
  forall m, In m moves -> - fst (chess_niv 4 (push g m) 1) = 32665 -> key2 g m.
Proof.
  intros Hg Hnm Hincl (k & Hkin & Hk). rewrite chess_rootiv_eq. cbn [pred].
  assert (Hall : forall m, In m moves ->
            -32665 <= fst (chess_niv 4 (push g m) 1) <= snd (chess_niv 4 (push g m) 1)).
  { intros m Hin. pose proof (Hincl m Hin) as Hm. split; [apply niv4_lo; [exact Hg | exact Hm | exact (Hnm m Hm)]|].
    destruct (niv_G 4 (push g m) 1 (GB_push_checked g m Hg Hm) ltac:(lia) ltac:(cbn; lia)) as (_ & H & _). exact H. }
  split.
  - f_equal.
    + assert (H1 : 32665 <= maxl (map (fun m => - snd (chess_niv 4 (push g m) 1)) moves) (SCORE_MIN + 1)).
      { pose proof (maxl_in_le _ (SCORE_MIN + 1) _ (in_map (fun m => - snd (chess_niv 4 (push g m) 1)) _ _ Hkin)) as H.
        rewrite (niv4_key g k Hg Hk) in H. cbn [snd] in H. lia. }
      assert (H2 : maxl (map (fun m => - snd (chess_niv 4 (push g m) 1)) moves) (SCORE_MIN + 1) <= 32665).
      { apply maxl_le; [|rk]. intros x Hx. apply in_map_iff in Hx. destruct Hx as (m & <- & Hin).
        specialize (Hall m Hin). lia. }
      lia.
    + assert (H1 : 32665 <= maxl (map (fun m => - fst (chess_niv 4 (push g m) 1)) moves) (SCORE_MIN + 1)).
      { pose proof (maxl_in_le _ (SCORE_MIN + 1) _ (in_map (fun m => - fst (chess_niv 4 (push g m) 1)) _ _ Hkin)) as H.
        rewrite (niv4_key g k Hg Hk) in H. cbn [fst] in H. lia. }
      assert (H2 : maxl (map (fun m => - fst (chess_niv 4 (push g m) 1)) moves) (SCORE_MIN + 1) <= 32665).
      { apply maxl_le; [|rk]. intros x Hx. apply in_map_iff in Hx. destruct Hx as (m & <- & Hin).
        specialize (Hall m Hin). lia. }
      lia.
  - intros m Hin E. pose proof (Hincl m Hin) as Hm. split; [exact Hm|].
    destruct (key2_b g m) eqn:Ek; [reflexivity|]. exfalso.
    pose proof (niv4_nonkey g m Hg Hm (Hnm m Hm) Ek). rk.
Qed.

(* ---- 4. the table-less search: one child of the root ------------------------------------------------------ *)

Definition DepthLe (k : Z) (t : table) : Prop := TableAll (fun _ e => e_depth e <= k) t.
Definition RS (k : Z) (st : sstate) : Prop := OKst st /\ DepthLe k (s_tbl st).

Lemma DepthLe_mono k k' t : k <= k' -> DepthLe k t -> DepthLe k' t.
Proof. intros H HT h e Hf. specialize (HT h e Hf). cbn beta in *. lia. Qed.

Lemma node_depthle k rem c st real a b r st' :
  Good c -> Z.of_nat rem <= k -> DepthLe k (s_tbl st) ->
  node rem c st real a b = (Done r, st') -> DepthLe k (s_tbl st').
Proof.
  intros Hc Hrem HT E.
  assert (H : node_post (fun s => DepthLe k (s_tbl s)) (fun s => DepthLe k (s_tbl s)) (node rem c st real a b)).
  { apply (node_inv Good good_push_checked (fun rem' _ => Z.of_nat rem' <= k)); try assumption.
    - intros r0 real0 H0. lia.
    - intros st0 H0. assert (DepthLe k (s_tbl (poll st0))) by (apply TableAll_poll; exact H0).
      destruct (s_running (poll st0)); assumption.
    - intros; assumption.
    - intros; assumption.
    - intros rem0 real0 g0 st0 sc ob fl HA _ HP _. cbn [with_tbl s_tbl].
      apply TableAll_store_node; [exact HP|]. cbn [e_depth]. exact HA. }
  rewrite E in H. exact H.
Qed.

Lemma node_call k rem c st real a b :
  GB c -> RS k st -> Z.of_nat rem <= k -> 0 <= real -> Z.of_nat rem + real <= 255 ->
  SCORE_MIN <= a -> b <= - SCORE_MIN ->
  snd (chess_nref QFUEL rem c real) = false ->
  exists r st', node rem c st real a b = (Done r, st') /\ RS k st' /\
                ISpec a b (fst (chess_niv rem c real)) (snd (chess_niv rem c real)) r.
Proof.
  intros Hc [Hok HT] Hrem Hr Hsum Ha Hb Hnb.
  destruct (node_interval_consistent rem c st real a b Hok Ha Hb Hnb (nivok_GB rem c real Hc Hr Hsum))
    as (r & st' & E & Hok' & Hsp).
  exists r, st'. split; [exact E|]. split; [|exact Hsp].
  split; [exact Hok'|]. exact (node_depthle k rem c st real a b r st' (proj1 Hc) Hrem HT E).
Qed.

(* one step of the root loop, in terms of the interval [lo, hi] of the child *)
Lemma root_step_iv k g rem' m index r :
  GB g -> In m (checked_moves g) -> RS k (r_st r) -> Z.of_nat rem' <= k -> Z.of_nat rem' + 1 <= 255 ->
  snd (chess_nref QFUEL rem' (push g m) 1) = false ->
  SCORE_MIN + 1 <= r_bscore r <= 32766 ->
  exists r', root_step g rem' m index r = Done r' /\ RS k (r_st r') /\
    ((r_bscore r' = r_bscore r /\ r_best r' = r_best r /\
      - snd (chess_niv rem' (push g m) 1) <= r_bscore r) \/
     (r_best r' = Some m /\ fst (chess_niv rem' (push g m) 1) < - r_bscore r /\
      Z.min (- r_bscore r) (fst (chess_niv rem' (push g m) 1)) <= - r_bscore r'
        <= Z.max (SCORE_MIN + 1) (snd (chess_niv rem' (push g m) 1)))).
Proof.
  intros Hg Hm HR Hrem Hsum Hnb Hbs.
  pose proof (GB_push_checked g m Hg Hm) as Hc.
  destruct (niv_G rem' (push g m) 1 Hc ltac:(lia) ltac:(lia)) as (Hlo & Hlh & Hhi).
  set (lo := fst (chess_niv rem' (push g m) 1)) in *. set (hi := snd (chess_niv rem' (push g m) 1)) in *.
  unfold mu in Hlo, Hhi.
  assert (Hhi' : hi <= 32766) by rk. assert (Hlo' : -32667 <= lo) by rk.
  unfold root_step.
  destruct (index <=? ROOT_FULL_WINDOW_LAST_INDEX).
  - destruct (node_call k rem' (push g m) (r_st r) 1 (SCORE_MIN + 1) (- r_bscore r) Hc HR Hrem ltac:(lia) Hsum
                ltac:(rk) ltac:(rk) Hnb) as (s & st1 & E & HR1 & Hsp).
    fold lo hi in Hsp. unfold ISpec in Hsp. rewrite E.
    destruct (r_bscore r <? - s) eqn:El; [apply Z.ltb_lt in El | apply Z.ltb_ge in El];
      (eexists; split; [reflexivity|]; split; [exact HR1|]); cbn [r_bscore r_best].
    + right. split; [reflexivity|]. split; rk.
    + left. split; [reflexivity|]. split; [reflexivity|]. rk.
  - destruct (node_call k rem' (push g m) (r_st r) 1 (- r_bscore r - 1) (- r_bscore r) Hc HR Hrem ltac:(lia) Hsum
                ltac:(rk) ltac:(rk) Hnb) as (s & st1 & E & HR1 & Hsp).
    fold lo hi in Hsp. unfold ISpec in Hsp. rewrite E.
    destruct (r_bscore r <? - s) eqn:El; [apply Z.ltb_lt in El | apply Z.ltb_ge in El].
    + destruct (node_call k rem' (push g m) st1 1 (SCORE_MIN + 1) (- - s) Hc HR1 Hrem ltac:(lia) Hsum
                  ltac:(rk) ltac:(rk) Hnb) as (s2 & st2 & E2 & HR2 & Hsp2).
      fold lo hi in Hsp2. unfold ISpec in Hsp2. rewrite E2.
      eexists. split; [reflexivity|]. split; [exact HR2|]. cbn [r_bscore r_best].
      right. split; [reflexivity|]. split; rk.
    + eexists. split; [reflexivity|]. split; [exact HR1|]. cbn [r_bscore r_best].
      left. split; [reflexivity|]. split; [reflexivity|]. rk.
Qed.

(* ---- 5. the root loop and the root, iteration by iteration --------------------------------------------------- *)

(* no "blocked" node (a king-ful leaf without generated move, or exhausted fuel) below the root in the
   trees of the iterations 1..5: the hypothesis of the C09 theorems, computable through [chess_rootref] *)
Definition NoBlocked (g : game) : Prop :=
  forall (d : nat) m, (1 <= d <= 5)%nat -> In m (checked_moves g) ->
    snd (chess_nref QFUEL (pred d) (push g m) 1) = false.

Section Iter.
  Variable g : game.
  Hypothesis Hg : GB g.
  Hypothesis Hnomate : forall m, In m (checked_moves g) -> mated_b (push g m) = false.
  Hypothesis Hnb : NoBlocked g.

  Definition RInv (r : rstate) : Prop :=
    SCORE_MIN + 1 <= r_bscore r <= T_BOUND /\ (r_best r = None -> r_bscore r = SCORE_MIN + 1).
  Definition Seen (r : rstate) : Prop := - T_BOUND <= r_bscore r.

  Lemma root_step_low4 (d : nat) m index r :
    (1 <= d <= 4)%nat -> In m (checked_moves g) -> RS (Z.of_nat d - 1) (r_st r) -> RInv r ->
    exists r', root_step g (pred d) m index r = Done r' /\ RS (Z.of_nat d - 1) (r_st r') /\ RInv r' /\
               (Seen r -> Seen r') /\ (key2 g m -> Seen r').
  Proof.
    intros Hd Hm HR [Hbs Hnone].
    destruct (root_step_iv (Z.of_nat d - 1) g (pred d) m index r Hg Hm HR ltac:(lia) ltac:(lia)
                (Hnb d m ltac:(lia) Hm) ltac:(rk)) as (r' & E & HR' & Hcase).
    exists r'. split; [exact E|]. split; [exact HR'|].
    destruct (niv_G (pred d) (push g m) 1 (GB_push_checked g m Hg Hm) ltac:(lia) ltac:(lia)) as (Hlo & Hlh & Hhi).
    unfold mu in Hlo, Hhi.
    pose proof (child_class g m d Hg Hm (Hnomate m Hm) Hd) as Hcl.
    assert (Hkey : key2 g m -> Tch (chess_niv (pred d) (push g m) 1)) by (intros Hk; now apply key_child_T).
    unfold RInv, Seen, Tch in *.
    destruct Hcase as [(Eb & Ebest & Hu) | (Ebest & Hlt & Hc)].
    - rewrite Eb, Ebest. split; [split; assumption|]. split; [tauto|]. intros Hk. destruct (Hkey Hk). rk.
    - rewrite Ebest. destruct Hcl as [[HT1 HT2] | HL].
      + split; [split; [rk | discriminate]|]. split; intros _; rk.
      + split; [split; [rk | discriminate]|]. split.
        * intros HS. exfalso. rk.
        * intros Hk. destruct (Hkey Hk). exfalso. rk.
  Qed.

  Lemma root_loop_low4 (d : nat) :
    (1 <= d <= 4)%nat ->
    forall ms index r, incl ms (checked_moves g) -> RS (Z.of_nat d - 1) (r_st r) -> RInv r ->
      exists r', root_loop g (pred d) ms index r = Done r' /\ RS (Z.of_nat d - 1) (r_st r') /\ RInv r' /\
                 (Seen r \/ (exists m, In m ms /\ key2 g m) -> Seen r').
  Proof.
    intros Hd. induction ms as [|m rest IH]; intros index r Hincl HR HI.
    - rewrite root_loop_nil. exists r. split; [reflexivity|]. split; [exact HR|]. split; [exact HI|].
      intros [H | (m & [] & _)]. exact H.
    - rewrite root_loop_cons.
      assert (Hm : In m (checked_moves g)) by (apply Hincl; now left).
      destruct (root_step_low4 d m index r Hd Hm HR HI) as (r1 & E1 & HR1 & HI1 & HS1 & HK1).
      rewrite E1.
      destruct (IH (index + 1) r1 ltac:(intros x Hx; apply Hincl; now right) HR1 HI1) as (r' & E' & HR' & HI' & HS').
      exists r'. split; [exact E'|]. split; [exact HR'|]. split; [exact HI'|].
      intros [H | (m0 & [<- | Hin] & Hk)]; apply HS'.
      + left. now apply HS1.
      + left. now apply HK1.
      + right. exists m0. now split.
  Qed.

  (* iteration 5 *)
  Definition PhA5 (r : rstate) : Prop := SCORE_MIN + 1 <= r_bscore r <= 32664.
  Definition PhB5 (r : rstate) : Prop := r_bscore r = 32665 /\ exists m, r_best r = Some m /\ key2 g m.

  Lemma root_step5 m index r :
    In m (checked_moves g) -> RS 4 (r_st r) -> PhA5 r \/ PhB5 r ->
    exists r', root_step g 4 m index r = Done r' /\ RS 4 (r_st r') /\ (PhA5 r' \/ PhB5 r') /\
               (PhB5 r -> PhB5 r') /\ (key2 g m -> PhB5 r').
  Proof.
    intros Hm HR Hph.
    destruct (root_step_iv 4 g 4 m index r Hg Hm HR ltac:(lia) ltac:(lia)
                (Hnb 5%nat m ltac:(lia) Hm) ltac:(unfold PhA5, PhB5 in Hph; rk)) as (r' & E & HR' & Hcase).
    exists r'. split; [exact E|]. split; [exact HR'|].
    destruct (niv_G 4 (push g m) 1 (GB_push_checked g m Hg Hm) ltac:(lia) ltac:(lia)) as (Hlo & Hlh & Hhi).
    unfold mu in Hlo, Hhi. unfold PhA5, PhB5 in *.
    destruct (key2_b g m) eqn:Ek.
    - assert (Hk : key2 g m) by (split; assumption).
      rewrite (niv4_key g m Hg Hk) in Hcase. cbn [fst snd] in Hcase.
      destruct Hcase as [(Eb & Ebest & Hu) | (Ebest & Hlt & Hc)].
      + destruct Hph as [HA | HB]; [exfalso; rk|]. rewrite Eb, Ebest.
        split; [right; exact HB|]. split; intros _; exact HB.
      + destruct Hph as [HA | HB]; [|exfalso; rk].
        assert (HB' : r_bscore r' = 32665 /\ exists m0, r_best r' = Some m0 /\ key2 g m0).
        { split; [rk|]. exists m. split; assumption. }
        split; [right; exact HB'|]. split; intros _; exact HB'.
    - pose proof (niv4_nonkey g m Hg Hm (Hnomate m Hm) Ek) as Hnk.
      assert (Hnot : ~ key2 g m) by (intros [_ H]; congruence).
      destruct Hcase as [(Eb & Ebest & Hu) | (Ebest & Hlt & Hc)].
      + rewrite Eb, Ebest. split; [exact Hph|]. split; [tauto | intros Hk; contradiction].
      + destruct Hph as [HA | HB]; [|exfalso; rk].
        split; [left; rk|]. split; [intros HB; exfalso; rk | intros Hk; contradiction].
  Qed.

  Lemma root_loop5 : forall ms index r,
    incl ms (checked_moves g) -> RS 4 (r_st r) -> PhA5 r \/ PhB5 r ->
    exists r', root_loop g 4 ms index r = Done r' /\ RS 4 (r_st r') /\ (PhA5 r' \/ PhB5 r') /\
               (PhB5 r \/ (exists m, In m ms /\ key2 g m) -> PhB5 r').
  Proof.
    induction ms as [|m rest IH]; intros index r Hincl HR Hph.
    - rewrite root_loop_nil. exists r. split; [reflexivity|]. split; [exact HR|]. split; [exact Hph|].
      intros [H | (m & [] & _)]. exact H.
    - rewrite root_loop_cons.
      assert (Hm : In m (checked_moves g)) by (apply Hincl; now left).
      destruct (root_step5 m index r Hm HR Hph) as (r1 & E1 & HR1 & Hph1 & HB1 & HK1).
      rewrite E1.
      destruct (IH (index + 1) r1 ltac:(intros x Hx; apply Hincl; now right) HR1 Hph1) as (r' & E' & HR' & Hph' & HB').
      exists r'. split; [exact E'|]. split; [exact HR'|]. split; [exact Hph'|].
      intros [H | (m0 & [<- | Hin] & Hk)]; apply HB'.
      + left. now apply HB1.
      + left. now apply HK1.
      + right. exists m0. now split.
  Qed.

  (* the root call of iteration d *)
  Hypothesis Hlen : (2 <= length (checked_moves g))%nat.
  Hypothesis Hflt : exists m, key2 g m /\ In m (repetition_filter g (checked_moves g)).

  Lemma key_in_sorted st : exists m, In m (root_sorted g st) /\ key2 g m.
  Proof.
    destruct Hflt as (m & Hk & Hin). exists m. split; [|exact Hk].
    unfold root_sorted. apply sort_moves_in. exact Hin.
  Qed.

  Lemma root_finish_tl (d : nat) st r' bm :
    RS (Z.of_nat d - 1) st ->
    root_loop g (pred d) (root_sorted g (root_clear st)) 0 (mkR None (SCORE_MIN + 1) (root_clear st)) = Done r' ->
    RS (Z.of_nat d - 1) (r_st r') -> r_best r' = Some bm ->
    exists st', root g st d = (Done (Some bm, r_bscore r', false), st') /\ RS (Z.of_nat d) st'.
  Proof.
    intros [Hok HT] El [Hok' HT'] Eb.
    assert (Hhit : root_hit (tfind (s_tbl st) (g_hash g)) d = None).
    { apply (root_hit_shallow g (s_tbl st) d (Z.of_nat d - 1)); [|lia]. intros en Hf. exact (HT _ _ Hf). }
    rewrite (root_via_loop g st d r' Hlen Hhit El). cbn [root_finish]. rewrite Eb.
    eexists. split; [reflexivity|]. split; [exact Hok'|]. cbn [with_tbl s_tbl].
    apply TableAll_store_root.
    - apply (DepthLe_mono (Z.of_nat d - 1)); [lia | exact HT'].
    - cbn [e_depth]. lia.
  Qed.

  Lemma root_low4 (d : nat) st :
    (1 <= d <= 4)%nat -> RS (Z.of_nat d - 1) st ->
    exists bm sc st', root g st d = (Done (Some bm, sc, false), st') /\ RS (Z.of_nat d) st' /\
                      - T_BOUND <= sc <= T_BOUND.
  Proof.
    intros Hd HR.
    destruct (root_loop_low4 d Hd (root_sorted g (root_clear st)) 0 (mkR None (SCORE_MIN + 1) (root_clear st))
                (root_sorted_incl' g (root_clear st)) HR) as (r' & El & HR' & [Hbs Hnone] & HS).
    { split; cbn [r_bscore r_best]; [rk | reflexivity]. }
    assert (Hs : Seen r') by (apply HS; right; apply key_in_sorted).
    unfold Seen in Hs.
    destruct (r_best r') as [bm|] eqn:Eb; [|specialize (Hnone eq_refl); exfalso; rk].
    destruct (root_finish_tl d st r' bm HR El HR' Eb) as (st' & E & HRs).
    exists bm, (r_bscore r'), st'. split; [exact E|]. split; [exact HRs | rk].
  Qed.

  Lemma root_5 st :
    RS 4 st -> exists bm st', root g st 5 = (Done (Some bm, 32665, false), st') /\ key2 g bm.
  Proof.
    intros HR.
    destruct (root_loop5 (root_sorted g (root_clear st)) 0 (mkR None (SCORE_MIN + 1) (root_clear st))
                (root_sorted_incl' g (root_clear st)) HR) as (r' & El & HR' & _ & HB).
    { left. unfold PhA5. cbn [r_bscore]. rk. }
    destruct HB as (Hs & bm & Eb & Hk); [right; apply key_in_sorted|].
    destruct (root_finish_tl 5%nat st r' bm HR El HR' Eb) as (st' & E & _).
    exists bm, st'. rewrite Hs in E. split; [exact E | exact Hk].
  Qed.
End Iter.

(* ---- 6. the driver, table-less mode ------------------------------------------------------------------------------ *)

Definition Limit5OK (limit : option Z) : Prop := match limit with Some d => 5 <= d | None => True end.
Definition NoMateInOne (g : game) : Prop := forall m, In m (checked_moves g) -> mated_b (push g m) = false.
Definition FilterKeepsKey (g : game) : Prop :=
  exists m, key2 g m /\ In m (repetition_filter g (checked_moves g)).

Lemma exit_test_low5 limit depth s :
  Limit5OK limit -> depth <= 4 -> - T_BOUND <= s <= T_BOUND -> exit_test limit depth false s = false.
Proof.
  intros HL Hd Hs. unfold exit_test.
  assert (E1 : (SCORE_MAX - EXIT_BAND_HIGH <? s) = false) by (apply Z.ltb_ge; unfold EXIT_BAND_HIGH; rk).
  assert (E2 : (s <? SCORE_MIN + EXIT_BAND_LOW) = false) by (apply Z.ltb_ge; unfold EXIT_BAND_LOW; rk).
  rewrite E1, E2. destruct limit as [d|]; [|reflexivity].
  cbn [Limit5OK] in HL. assert (E : (d <=? depth) = false) by (apply Z.leb_gt; lia).
  rewrite E. reflexivity.
Qed.

Lemma exit_test_mate5 limit : exit_test limit 5 false 32665 = true.
Proof. unfold exit_test. destruct limit as [d|]; [destruct (d <=? 5)|]; reflexivity. Qed.

Lemma NoMateInOne_iff g : NoMateInOne g <-> forall m, ~ mates g m.
Proof.
  split.
  - intros H m Hm. pose proof (proj1 Hm) as Hin. apply (mated_b_mates g m Hin) in Hm. rewrite (H m Hin) in Hm. discriminate.
  - intros H m Hin. destruct (mated_b (push g m)) eqn:E; [|reflexivity].
    exfalso. apply (H m). now apply (mated_b_mates g m Hin).
Qed.

(* PARTIAL with respect to C10: table-less mode (tableless = true) instead of the engine's mode *)
Theorem C10_mate_in_two_tableless_partial g limit :
  GB g -> NoMateInOne g -> FilterKeepsKey g -> NoBlocked g -> Limit5OK limit ->
  let tr := driver_iterations g tempty limit (-1) true in
  exists m', key2 g m' /\ d_move (driver g tempty limit (-1) true) = Some m' /\
    ((checked_moves g = [m'] /\ map it_depth tr = [1] /\ map it_end tr = [IDone (Some m') 0 true])
     \/
     (exists b1 s1 b2 s2 b3 s3 b4 s4,
        (- T_BOUND <= s1 <= T_BOUND) /\ (- T_BOUND <= s2 <= T_BOUND) /\
        (- T_BOUND <= s3 <= T_BOUND) /\ (- T_BOUND <= s4 <= T_BOUND) /\
        map it_depth tr = [1; 2; 3; 4; 5] /\
        map it_end tr = [IDone (Some b1) s1 false; IDone (Some b2) s2 false; IDone (Some b3) s3 false;
                         IDone (Some b4) s4 false; IDone (Some m') 32665 false])).
Proof.
  intros Hg Hnm Hflt Hnb HL. cbv zeta.
  rewrite driver_move_is_final_move. unfold driver_iterations. rewrite starting_depth_fresh.
  set (st0 := fresh_state tempty (-1) true).
  change 256%nat with (S (S (S (S (S 251))))). generalize 251%nat. intros n.
  destruct (checked_moves g) as [|x [|y l]] eqn:Ecm.
  - exfalso. destruct Hflt as (m & [Hin _] & _). rewrite Ecm in Hin. destruct Hin.
  - assert (Hx : key2 g x).
    { destruct Hflt as (m & Hk & _). pose proof (proj1 Hk) as Hin. rewrite Ecm in Hin.
      destruct Hin as [<- | []]. exact Hk. }
    assert (E : root g st0 (Z.to_nat 1) = (Done (Some x, 0, true), st0)) by (rewrite root_unfold, Ecm; reflexivity).
    exists x. split; [exact Hx|].
    rewrite (driver_trace_step _ g st0 1 limit _ _ _ _ ltac:(lia) E), exit_test_only.
    split; [reflexivity|]. left. repeat split.
  - assert (Hlen : (2 <= length (checked_moves g))%nat) by (rewrite Ecm; cbn [length]; lia).
    assert (HR0 : RS 0 st0) by (split; [apply fresh_state_ok | apply TableAll_empty]).
    destruct (root_low4 g Hg Hnm Hnb Hlen Hflt 1 st0 ltac:(lia) HR0) as (b1 & s1 & st1 & E1 & HR1 & Hs1).
    destruct (root_low4 g Hg Hnm Hnb Hlen Hflt 2 st1 ltac:(lia) HR1) as (b2 & s2 & st2 & E2 & HR2 & Hs2).
    destruct (root_low4 g Hg Hnm Hnb Hlen Hflt 3 st2 ltac:(lia) HR2) as (b3 & s3 & st3 & E3 & HR3 & Hs3).
    destruct (root_low4 g Hg Hnm Hnb Hlen Hflt 4 st3 ltac:(lia) HR3) as (b4 & s4 & st4 & E4 & HR4 & Hs4).
    destruct (root_5 g Hg Hnm Hnb Hlen Hflt st4 HR4) as (m' & st5 & E5 & Hk).
    exists m'. split; [exact Hk|].
    rewrite (driver_trace_step _ g st0 1 limit _ _ _ _ ltac:(lia) E1), (exit_test_low5 limit 1 s1 HL ltac:(lia) Hs1).
    change (1 + 1) with 2.
    rewrite (driver_trace_step _ g st1 2 limit _ _ _ _ ltac:(lia) E2), (exit_test_low5 limit 2 s2 HL ltac:(lia) Hs2).
    change (2 + 1) with 3.
    rewrite (driver_trace_step _ g st2 3 limit _ _ _ _ ltac:(lia) E3), (exit_test_low5 limit 3 s3 HL ltac:(lia) Hs3).
    change (3 + 1) with 4.
    rewrite (driver_trace_step _ g st3 4 limit _ _ _ _ ltac:(lia) E4), (exit_test_low5 limit 4 s4 HL ltac:(lia) Hs4).
    change (4 + 1) with 5.
    rewrite (driver_trace_step _ g st4 5 limit _ _ _ _ ltac:(lia) E5), exit_test_mate5.
    split; [reflexivity|]. right. exists b1, s1, b2, s2, b3, s3, b4, s4.
    split; [exact Hs1|]. split; [exact Hs2|]. split; [exact Hs3|]. split; [exact Hs4|]. split; reflexivity.
Qed.

(* the hypotheses as closed checks *)
Definition no_mate_in_one_b (g : game) : bool := forallb (fun m => negb (mated_b (push g m))) (checked_moves g).
Definition filter_keeps_key_b (g : game) : bool :=
  existsb (fun m => key2_b g m && existsb (move_eqb m) (repetition_filter g (checked_moves g))) (checked_moves g).
Definition no_blocked_b (g : game) : bool :=
  forallb (fun d => forallb (fun m => negb (snd (chess_nref QFUEL (pred d) (push g m) 1))) (checked_moves g))
          [1; 2; 3; 4; 5]%nat.

Lemma no_mate_in_one_b_ok g : no_mate_in_one_b g = true -> NoMateInOne g.
Proof.
  unfold no_mate_in_one_b. intros H m Hin. rewrite forallb_forall in H.
  now apply Bool.negb_true_iff, H.
Qed.

Lemma filter_keeps_key_b_ok g : filter_keeps_key_b g = true -> FilterKeepsKey g.
Proof.
  unfold filter_keeps_key_b. intros H. apply existsb_exists in H. destruct H as (m & Hin & H).
  apply Bool.andb_true_iff in H. destruct H as [Hk Hf]. exists m. split; [split; assumption|].
  apply existsb_exists in Hf. destruct Hf as (x & Hx & E). apply TextProofs.move_eqb_eq in E. now subst x.
Qed.

Lemma no_blocked_b_ok g : no_blocked_b g = true -> NoBlocked g.
Proof.
  unfold no_blocked_b. intros H d m Hd Hin. rewrite forallb_forall in H.
  assert (Hd' : In d [1; 2; 3; 4; 5]%nat).
  { destruct d as [|[|[|[|[|[|d]]]]]]; try lia; cbn; tauto. }
  specialize (H d Hd'). rewrite forallb_forall in H. specialize (H m Hin).
  now apply Bool.negb_true_iff in H.
Qed.

(* ---- 7. an instance ------------------------------------------------------------------------------------------------ *)

From Coq Require Import String.
Open Scope string_scope.
Open Scope Z_scope.

(* 1. g6-g7+ Kh7  2. g8=Q mate; the only key *)
Definition PAWN_M2 : game := imported (txt "7k/5K2/6P1/6P1/8/8/8/8 w - - 0 1").
Definition g6g7 : Move := Normal (mkPiece Pawn White) (5, 6) (6, 6) None.

Example pawn_m2_good : GB PAWN_M2.
Proof.
  split.
  - apply legal_reachable_good. apply (lr_import (txt "7k/5K2/6P1/6P1/8/8/8/8 w - - 0 1")); vm_compute; reflexivity.
  - unfold Bounded, BOUND. split; vm_compute; discriminate.
Qed.

Example pawn_m2_hyps :
  filter (key2_b PAWN_M2) (checked_moves PAWN_M2) = [g6g7] /\
  no_mate_in_one_b PAWN_M2 = true /\ filter_keeps_key_b PAWN_M2 = true /\ no_blocked_b PAWN_M2 = true.
Proof. vm_compute. repeat split; reflexivity. Qed.

Example pawn_m2_tableless limit :
  Limit5OK limit ->
  exists m', key2 PAWN_M2 m' /\ d_move (driver PAWN_M2 tempty limit (-1) true) = Some m'.
Proof.
  intros HL. destruct pawn_m2_hyps as (_ & H1 & H2 & H3).
  destruct (C10_mate_in_two_tableless_partial PAWN_M2 limit pawn_m2_good (no_mate_in_one_b_ok _ H1)
              (filter_keeps_key_b_ok _ H2) (no_blocked_b_ok _ H3) HL) as (m' & Hk & E & _).
  exists m'. now split.
Qed.

(* by evaluation, both modes: the key is played, the iterations are 1..5, the last score is 32665 *)
Example pawn_m2_run :
  d_move (driver PAWN_M2 tempty None (-1) true) = Some g6g7 /\
  d_move (driver PAWN_M2 tempty None (-1) false) = Some g6g7 /\
  d_move (driver PAWN_M2 tempty (Some 5) (-1) false) = Some g6g7 /\
  map it_depth (driver_iterations PAWN_M2 tempty None (-1) false) = [1; 2; 3; 4; 5] /\
  (exists e1 e2 e3 e4,
     map it_end (driver_iterations PAWN_M2 tempty None (-1) false) = [e1; e2; e3; e4; IDone (Some g6g7) 32665 false]).
Proof. vm_compute. repeat split; try reflexivity. do 4 eexists. reflexivity. Qed.

(* the filter hypothesis is needed (known finding): on the record
     position fen 8/k7/3K4/5Q2/8/8/8/8 b - - 0 1 moves a7a8 d6c7 a8a7 c7d6 a7a8
   the root's repetition filter fires (two quiet moves and their reversals, then the first again) and
   removes d6c7, the only key of the mate in two; the engine binary answers f5b5 with score 995 at depth 5 *)
Definition KEY_FILTERED : game :=
  fold_left push_history
    [ Normal (mkPiece King Black) (6, 0) (7, 0) None;     (* a7a8 *)
      Normal (mkPiece King White) (5, 3) (6, 2) None;     (* d6c7 *)
      Normal (mkPiece King Black) (7, 0) (6, 0) None;     (* a8a7 *)
      Normal (mkPiece King White) (6, 2) (5, 3) None;     (* c7d6 *)
      Normal (mkPiece King Black) (6, 0) (7, 0) None ]    (* a7a8 *)
    (imported (txt "8/k7/3K4/5Q2/8/8/8/8 b - - 0 1")).
Definition d6c7 : Move := Normal (mkPiece King White) (5, 3) (6, 2) None.

Example key_filtered :
  playable_b
    [ Normal (mkPiece King Black) (6, 0) (7, 0) None; Normal (mkPiece King White) (5, 3) (6, 2) None;
      Normal (mkPiece King Black) (7, 0) (6, 0) None; Normal (mkPiece King White) (6, 2) (5, 3) None;
      Normal (mkPiece King Black) (6, 0) (7, 0) None ] (imported (txt "8/k7/3K4/5Q2/8/8/8/8 b - - 0 1")) = true /\
  filter (key2_b KEY_FILTERED) (checked_moves KEY_FILTERED) = [d6c7] /\
  no_mate_in_one_b KEY_FILTERED = true /\
  existsb (move_eqb d6c7) (repetition_filter KEY_FILTERED (checked_moves KEY_FILTERED)) = false /\
  filter_keeps_key_b KEY_FILTERED = false.
Proof. vm_compute. repeat split; reflexivity. Qed.

Print Assumptions niv_G.
Print Assumptions niv4_key.
Print Assumptions niv4_nonkey.
Print Assumptions rootiv5_point.
Print Assumptions root_step_iv.
Print Assumptions C10_mate_in_two_tableless_partial.
Print Assumptions pawn_m2_tableless.
Print Assumptions pawn_m2_run.
Print Assumptions key_filtered.
