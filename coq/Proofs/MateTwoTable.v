(* C10, mate in two, with the table on (the engine's mode, tableless = false).

   STATUS.  Before the repair "mate scores are stored in the table counted from the storing node
   (score_to_table / score_from_table)" the statement of Proofs/MateTwo.v did not carry over: on the position
   of section 2 - a forced mate in two, fresh table, no hash collision, no move history - the model with the
   table on, and the engine binary, announced a move that is NOT a key (it forces mate in three) with the
   score 32665 of a mate in two.  Cause: a transposition between ply 2 and ply 4 inside iteration 5; mate
   scores are relative to the ply, the table entries were not.  Section 2 records the mechanism and the
   behaviour of the repaired model on that position (the key is played).
   Still open: the general theorem with the table on (iteration 5 ends with 32665, the driver stops there and
   announces a key).  Section 1 is a reusable part of such a proof: quiescence and depth 1 under ARBITRARY
   windows. *)
From Coq Require Import Lia FSets.FMapPositive.
From Chess Require Import Model.Search Model.RefSearch
  Proofs.Grid Proofs.Inv Proofs.Abs Proofs.GenOk Proofs.PushPop Proofs.PushPop2
  Proofs.Reach Proofs.Bounds Proofs.BoundsQ Proofs.BoundsInst Proofs.SearchInv1 Proofs.SearchInv2 Proofs.Top
  Proofs.ScoreRange1 Proofs.ScoreRange2 Proofs.MateOne Proofs.MateTwo.
Open Scope Z_scope.

Ltac rk :=
  unfold RK, WK, T_BOUND, S_STAR, SCORE_MIN, SCORE_MAX, MATE_OFFSET_NODE, MATE_OFFSET_DEPTH1,
    MATE_OFFSET_QUIESCENCE, BOUND in *; lia.

(* ---- 1. the leaf searches under ANY window (fail-hard form) -------------------------------------------------

   Proofs/MateOne.v bounds quiescence and depth 1 under windows that are themselves within the bound.
   With the table on, iteration 5 opens windows next to the mate scores below nodes whose table entries
   claim a mate; what survives is the fail-hard form: the result is within [-30768, 30768] or equals a
   window bound on the side where the search failed. *)
Definition FH (a b r : Z) : Prop := Z.min b (- T_BOUND) <= r <= Z.max a T_BOUND.

Lemma no_move_score_T g off real :
  MATE_OFFSET_DEPTH1 <= off <= MATE_OFFSET_QUIESCENCE -> 0 <= real <= 256 ->
  - T_BOUND <= no_move_score g off real <= T_BOUND.
Proof. intros Ho Hr. unfold no_move_score. destruct (king_exists g (g_player g) && _); rk. Qed.

Lemma qloop_FH (q : game -> Z -> Z -> Z -> option Z) g a b real :
  (forall m a' b' r s, In m (pseudo_moves g) -> 0 <= r <= 256 -> q (push g m) a' b' r = Some s -> FH a' b' s) ->
  0 <= real <= 256 ->
  forall ms alpha s, incl ms (pseudo_moves g) -> Z.min b (- T_BOUND) <= alpha <= Z.max a T_BOUND ->
                     qloop q g b real ms alpha = Some s -> FH a b s.
Proof.
  intros Hq Hr. induction ms as [|m rest IH]; intros alpha s Hincl Ha E.
  - rewrite qloop_nil in E. injection E as <-. exact Ha.
  - rewrite qloop_cons in E.
    assert (Hrest : incl rest (pseudo_moves g)) by (intros x Hx; apply Hincl; now right).
    destruct (negb (is_tactical m)); [now apply (IH alpha)|].
    destruct (q (push g m) (- b) (- alpha) (Z.min 255 (real + 1))) as [s1|] eqn:Eq; [|discriminate].
    pose proof (Hq m (- b) (- alpha) (Z.min 255 (real + 1)) s1 ltac:(apply Hincl; now left) ltac:(lia) Eq) as H1.
    unfold FH in *.
    assert (H2 : Z.min b (- T_BOUND) <= (if alpha <? - s1 then - s1 else alpha) <= Z.max a T_BOUND)
      by (destruct (alpha <? - s1) eqn:El; [apply Z.ltb_lt in El | apply Z.ltb_ge in El]; lia).
    destruct (b <=? (if alpha <? - s1 then - s1 else alpha)) eqn:Ec.
    + injection E as <-. apply Z.leb_le in Ec. lia.
    + now apply (IH _ s Hrest H2).
Qed.

Theorem quiescence_FH : forall fuel g a b real s,
  GB g -> 0 <= real <= 256 -> quiescence fuel g a b real = Some s -> FH a b s.
Proof.
  induction fuel as [|f IH]; intros g a b real s Hg Hr E; [rewrite quiescence_0 in E; discriminate|].
  rewrite quiescence_S in E. cbv zeta in E.
  pose proof (GB_standpat g Hg) as Hsp.
  set (cur := g_score g * color_sign (g_player g)) in *.
  destruct (b <=? Z.max a cur) eqn:Ec.
  - injection E as <-. apply Z.leb_le in Ec. unfold FH. rk.
  - destruct (pseudo_moves g) as [|m0 ms0] eqn:Epm.
    + injection E as <-. pose proof (no_move_score_T g MATE_OFFSET_QUIESCENCE real ltac:(rk) Hr). unfold FH. lia.
    + rewrite <- Epm in E.
      apply (qloop_FH (quiescence f) g a b real) with (ms := pseudo_moves g) (alpha := Z.max a cur);
        try assumption; [|apply incl_refl|rk].
      intros m a' b' r s' Hin Hr' E'. apply (IH (push g m) a' b' r s'); try assumption.
      now apply GB_push_pseudo.
Qed.

Lemma depth1_loop_FH g a0 b real :
  GB g -> 0 <= real <= 255 ->
  forall ms a s, incl ms (pseudo_moves g) -> a <= Z.max a0 T_BOUND ->
                 (ms <> [] \/ Z.min b (- T_BOUND) <= a) ->
                 depth1_loop g ms a b real = Some s -> FH a0 b s.
Proof.
  intros Hg Hr. induction ms as [|m rest IH]; intros a s Hincl Ha Hne E; cbn [depth1_loop] in E.
  - injection E as <-. destruct Hne as [Hne|Hlo]; [congruence | unfold FH; lia].
  - assert (Hrest : incl rest (pseudo_moves g)) by (intros x Hx; apply Hincl; now right).
    destruct (quiescence QFUEL (push g m) (- b) (- a) (real + 1)) as [s1|] eqn:Eq; [|discriminate].
    pose proof (quiescence_FH QFUEL (push g m) (- b) (- a) (real + 1) s1
                  (GB_push_pseudo g m Hg (Hincl m (or_introl eq_refl))) ltac:(lia) Eq) as H1.
    cbv zeta in E. unfold FH in *.
    assert (H2 : Z.min b (- T_BOUND) <= (if a <? - s1 then - s1 else a) <= Z.max a0 T_BOUND)
      by (destruct (a <? - s1) eqn:El; [apply Z.ltb_lt in El | apply Z.ltb_ge in El]; lia).
    destruct (b <=? (if a <? - s1 then - s1 else a)).
    + injection E as <-. exact H2.
    + apply (IH (if a <? - s1 then - s1 else a) s Hrest); [lia | right; lia | exact E].
Qed.

Theorem depth1_FH g a b real s :
  GB g -> 0 <= real <= 255 -> depth1 g a b real = Some s -> FH a b s.
Proof.
  intros Hg Hr E. unfold depth1 in E. destruct (pseudo_moves g) as [|m0 ms0] eqn:Epm.
  - injection E as <-. pose proof (no_move_score_T g MATE_OFFSET_DEPTH1 real ltac:(rk) ltac:(lia)). unfold FH. lia.
  - rewrite <- Epm in E.
    apply (depth1_loop_FH g a b real Hg Hr (pseudo_moves g) a s); try assumption.
    + apply incl_refl.
    + lia.
    + left. rewrite Epm. discriminate.
Qed.

(* ---- 2. the defect that the recount of mate scores repairs, and the repaired behaviour -----------------------

   A node with remaining depth 1 at ply 4 probes the table like every node.  In iteration 5 the nodes at
   ply 2 store entries of depth 3; a position in which the side to move mates at once (wins1_b) scores 32665
   there = "mate delivered at ply 3".  Before the repair that number went into the table as it was; when the
   same position was reached at ply 4 (the same moves in another order, or a king walking a5-b6-a6 instead
   of a5-a6) the probe (1 <= 3, flag Exact) returned 32665 although the mate is delivered at ply 5 there.
   The parent at ply 3 then looked mated at ply 3 and a root move that only forces mate in THREE was scored
   32665, the score of a mate in two; the root keeps the first move that reaches a score, 32665 is above the
   exit band, and the driver announced that move.

   Instance: 8/3R4/8/k2K4/8/8/8/2Q5 w - - 0 1, only key Rd7-a7+.  After 1. Qc4 Kb6 (the only reply) White has
   no mate in one, but after 2. Qc5+ every reply leads to a position that is also reached at ply 2 (1. Qc5+
   and the king move).  Unrepaired model and engine binary: iteration 5 scores 32665 with Qc1-c4
   ("info depth 5 / info score cp 32665 / info pv c1c4 a5b6 c4c5 b6a6 d7a7 / bestmove c1c4").
   Repaired: the entry of the ply-2 position holds 32667 ("mate in one from here"), read at ply 4 it is
   32663, Qc4 scores 32663 and the key Rd7-a7 is announced with 32665 (missed_key_repaired below). *)
From Coq Require Import String.
Open Scope string_scope.
Open Scope Z_scope.

Definition MISSED_KEY : game := imported (txt "8/3R4/8/k2K4/8/8/8/2Q5 w - - 0 1").
Definition Qc1c4 : Move := Normal (mkPiece Queen White) (0, 2) (3, 2) None.
Definition Rd7a7 : Move := Normal (mkPiece Rook White) (6, 3) (6, 0) None.

Example missed_key_good : GB MISSED_KEY.
Proof.
  split.
  - apply legal_reachable_good. apply (lr_import (txt "8/3R4/8/k2K4/8/8/8/2Q5 w - - 0 1")); vm_compute; reflexivity.
  - unfold Bounded, BOUND. split; vm_compute; discriminate.
Qed.

(* the hashes stored with a mate score at ply 2: positions after two plies in which the mover mates at once *)
Definition ply2_wins (g : game) : list N :=
  flat_map (fun a' => flat_map (fun b' => let c := push (push g a') b' in if wins1_b c then [g_hash c] else [])
                               (checked_moves (push g a'))) (checked_moves g).

(* after [a] and the reply [b]: the moves after which every reply lands on such a hash *)
Definition transposing_moves (g : game) (a b : Move) : list Move :=
  let hs := ply2_wins g in
  let c := push (push g a) b in
  filter (fun m2 => match checked_moves (push c m2) with
                    | [] => false
                    | rs => forallb (fun r2 => existsb (N.eqb (g_hash (push (push c m2) r2))) hs) rs
                    end) (checked_moves c).

(* the transposition (independent of the repair) *)
Example missed_key_mechanism :
  let Kb6 := Normal (mkPiece King Black) (4, 0) (5, 1) None in
  key2 MISSED_KEY Rd7a7 /\                                              (* a mate in two exists *)
  no_mate_in_one_b MISSED_KEY = true /\
  In Rd7a7 (repetition_filter MISSED_KEY (checked_moves MISSED_KEY)) /\
  In Qc1c4 (checked_moves MISSED_KEY) /\ key2_b MISSED_KEY Qc1c4 = false /\       (* Qc4 is not a key: ... *)
  checked_moves (push MISSED_KEY Qc1c4) = [Kb6] /\
  wins1_b (push (push MISSED_KEY Qc1c4) Kb6) = false /\                 (* ... after Kb6 there is no mate in one *)
  transposing_moves MISSED_KEY Qc1c4 Kb6 = [Normal (mkPiece Queen White) (3, 2) (4, 2) None].   (* Qc5+ *)
Proof.
  vm_compute. repeat split; try reflexivity; repeat (try (left; reflexivity); right).
Qed.

(* the repaired model, table on, fresh table, limit 7: the key, 32665 at iteration 5, nothing deeper *)
Example missed_key_repaired :
  d_move (driver MISSED_KEY tempty (Some 7) (-1) false) = Some Rd7a7 /\
  map it_depth (driver_iterations MISSED_KEY tempty (Some 7) (-1) false) = [1; 2; 3; 4; 5] /\
  (exists e1 e2 e3 e4,
     map it_end (driver_iterations MISSED_KEY tempty (Some 7) (-1) false) =
       [e1; e2; e3; e4; IDone (Some Rd7a7) 32665 false]).
Proof. vm_compute. repeat split; try reflexivity. do 4 eexists. reflexivity. Qed.

Example table_on_plays_key :
  exists m', key2 MISSED_KEY m' /\ d_move (driver MISSED_KEY tempty (Some 7) (-1) false) = Some m'.
Proof.
  destruct missed_key_repaired as (H1 & _). destruct missed_key_mechanism as (Hk & _).
  exists Rd7a7. split; [exact Hk | exact H1].
Qed.

Print Assumptions quiescence_FH.
Print Assumptions depth1_FH.
Print Assumptions missed_key_mechanism.
Print Assumptions missed_key_repaired.
Print Assumptions table_on_plays_key.
