(* Proofs/SchedLive.v - progress ("never wedges") theorems for the thread model Model/Sched.v.

   The transition system has no scheduler, so progress is stated in two forms:
   * possibility: there is an engine-side continuation (labels LMain / LSearch / LTimer only,
     no further input) of bounded length that reaches the wanted state;
   * inevitability: EVERY maximal engine-side continuation (one that ends in a state in
     which no engine-side label is enabled) reaches the wanted state, and every engine-side
     run is bounded by the measure `measure s` (no livelock).

   What "search keeps searching" means here: the model has no step for a poll that sees the
   flag up (stutter), and `SSearching -> SFinished` is always enabled.  So the theorems below
   say: nothing in the thread structure (mutex, joins, flags, handles) blocks the answer;
   the only thing the real engine can wait for is the search itself, and section 5 shows
   that whenever the stdin thread waits for a search outside of `wait`, that search's flag
   is already down (so the real search ends at its next poll). *)
From Coq Require Import List Arith Bool Lia.
From Chess Require Import Model.Sched Proofs.SchedProofs.
Import ListNotations.

(* ------------------------------------------------------------------ *)
(* engine-side labels and runs                                         *)
(* ------------------------------------------------------------------ *)

Definition engine (l : label) : Prop := forall c, l <> LInput c.

Definition is_engine (l : label) : bool := match l with LInput _ => false | _ => true end.

Lemma engine_iff : forall l, engine l <-> is_engine l = true.
Proof.
  intros l; unfold engine; split.
  - destruct l; simpl; auto. intros H. exfalso. apply (H c). reflexivity.
  - intros H c E. subst l. discriminate.
Qed.

Lemma engine_main : engine LMain.
Proof. intros c; discriminate. Qed.
Lemma engine_search : forall i, engine (LSearch i).
Proof. intros i c; discriminate. Qed.
Lemma engine_timer : forall i, engine (LTimer i).
Proof. intros i c; discriminate. Qed.
#[export] Hint Resolve engine_main engine_search engine_timer : core.

(* no engine-side label is enabled: the engine is quiescent, only input can move it *)
Definition engine_stuck (s : state) : Prop := forall l, engine l -> step s l = None.

(* a maximal engine-side continuation from s ending in s' *)
Definition engine_run (s : state) (ls : list label) (s' : state) : Prop :=
  Forall engine ls /\ run_from s ls = Some s'.
Definition max_engine_run (s : state) (ls : list label) (s' : state) : Prop :=
  engine_run s ls s' /\ engine_stuck s'.

(* ------------------------------------------------------------------ *)
(* 1. the measure                                                      *)
(* ------------------------------------------------------------------ *)

(* remaining steps of the stdin thread inside its command, INCLUDING the steps of the
   threads it is going to spawn (6 for the search thread, 1 for the timer) *)
Definition pcm (p : pcT) : nat :=
  match p with
  | PIdle => 0
  | PUci => 1 | PIsReady => 1
  | PNgLoad => 6 | PNgStore => 5 | PNgJoin => 4 | PNgLock => 3 | PNgClear => 2 | PNgUnlock => 1
  | PPosLoad _ => 5 | PPosBusy => 1 | PPosJoin _ => 4 | PPosLock _ => 3 | PPosSet _ => 2
  | PPosUnlock => 1
  | PGoLoad _ => 17 | PGoBusy => 1 | PGoJoin _ => 16 | PGoNew _ => 15 | PGoLock _ => 14
  | PGoCheck _ => 13 | PGoErr => 1 | PGoRaise _ => 12 | PGoInfo => 11 | PGoTimer => 10
  | PGoSpawn => 8 | PGoUnlock => 1
  | PShowLoad => 5 | PShowBusy => 1 | PShowJoin => 4 | PShowLock => 3 | PShowPrint => 2
  | PShowUnlock => 1
  | PStopStore => 2 | PStopJoin => 1
  | PWaitJoin => 2 | PWaitStore => 1
  | PQuit => 1
  end.

Definition tmr (x : tstate) : nat := match x with TSleeping => 1 | _ => 0 end.

(* weight of a slot: remaining steps of its search thread + its sleeping timer *)
Definition wgt (g : gorec) : nat := rank (sst g) + tmr (tst g).

Fixpoint sumg (w : gorec -> nat) (l : list gorec) : nat :=
  match l with [] => 0 | g :: t => w g + sumg w t end.

Definition measure (s : state) : nat :=
  if exited s then 0 else pcm (pc s) + sumg wgt (gos s).

Lemma sumg_upd : forall w f l i, i < length l ->
  sumg w (upd i f l) + w (getg l i) = sumg w l + w (f (getg l i)).
Proof.
  unfold getg; intros w f l; induction l as [|g t IH]; intros [|k] Hi; simpl in *; try lia.
  specialize (IH k ltac:(lia)). lia.
Qed.

Lemma upd_overflow : forall i f l, length l <= i -> upd i f l = l.
Proof.
  intros i f l; revert i; induction l as [|g t IH]; intros [|k] Hi; simpl in *; auto; try lia.
  rewrite IH by lia. reflexivity.
Qed.

Lemma sumg_app : forall w l1 l2, sumg w (l1 ++ l2) = sumg w l1 + sumg w l2.
Proof. intros w l1 l2; induction l1; simpl; lia. Qed.

(* an update that does not increase the weight by more than d *)
Lemma sumg_upd_le : forall f l i d,
  (forall g, wgt (f g) <= wgt g + d) -> sumg wgt (upd i f l) <= sumg wgt l + d.
Proof.
  intros f l i d H. destruct (lt_dec i (length l)) as [Hi|Hi].
  - pose proof (sumg_upd wgt f l i Hi) as E. specialize (H (getg l i)). lia.
  - rewrite upd_overflow by lia. lia.
Qed.

(* an update that decreases the weight of slot i *)
Lemma sumg_upd_lt : forall f l i,
  i < length l -> wgt (f (getg l i)) < wgt (getg l i) -> sumg wgt (upd i f l) < sumg wgt l.
Proof.
  intros f l i Hi H. pose proof (sumg_upd wgt f l i Hi) as E. lia.
Qed.

Lemma measure_main : forall s s', exited s = false -> main_step s = Some s' ->
  measure s' < measure s.
Proof.
  intros [p c gs m po gm h o pa ex] s' Hex Hstep; simpl in *. subst ex.
  unfold main_step in Hstep; simpl in Hstep.
  destruct p; unfold_step Hstep; break_in Hstep; inversion Hstep; subst s'; clear Hstep;
    unfold measure; simpl; try lia.
  all: try (match goal with |- context [sumg wgt (upd ?i ?f ?l)] =>
              let B := fresh "B" in
              first [ assert (B : sumg wgt (upd i f l) <= sumg wgt l + 0)
                        by (apply sumg_upd_le; intros [fl ss ts st]; unfold wgt; simpl; lia)
                    | assert (B : sumg wgt (upd i f l) <= sumg wgt l + 1)
                        by (apply sumg_upd_le; intros [fl ss ts st]; unfold wgt; simpl;
                            destruct ts; simpl; lia)
                    | assert (B : sumg wgt (upd i f l) <= sumg wgt l + 6)
                        by (apply sumg_upd_le; intros [fl ss ts st]; unfold wgt; simpl; lia) ]
            end; lia).
  - rewrite sumg_app. simpl. unfold wgt; simpl. lia.
Qed.

Lemma measure_search : forall s i s', exited s = false -> search_step s i = Some s' ->
  measure s' < measure s.
Proof.
  intros [p c gs m po gm h o pa ex] i s' Hex Hstep; simpl in *. subst ex.
  unfold search_step in Hstep; simpl in Hstep.
  assert (Hi : i < length gs).
  { apply sst_in_range. intros E. rewrite E in Hstep. discriminate. }
  destruct (sst (getg gs i)) eqn:Es; unfold_step Hstep; break_in Hstep;
    inversion Hstep; subst s'; clear Hstep; unfold measure; simpl.
  all: apply Nat.add_lt_mono_l; apply sumg_upd_lt; [exact Hi|];
    unfold wgt; simpl; rewrite Es; simpl; lia.
Qed.

Lemma measure_timer : forall s i s', exited s = false -> timer_step s i = Some s' ->
  measure s' < measure s.
Proof.
  intros [p c gs m po gm h o pa ex] i s' Hex Hstep; simpl in *. subst ex.
  unfold timer_step in Hstep; simpl in Hstep.
  destruct (tst (getg gs i)) eqn:Et; try discriminate Hstep.
  assert (Hi : i < length gs) by (apply tst_in_range; congruence).
  inversion Hstep; subst s'; clear Hstep; unfold measure, upd_slot, set_gos; simpl.
  apply Nat.add_lt_mono_l; apply sumg_upd_lt; [exact Hi|].
  unfold wgt; simpl. rewrite Et; simpl. lia.
Qed.

(* every engine-side step strictly decreases the measure - in EVERY state, reachable or not *)
Theorem measure_decreases : forall s l s', step s l = Some s' -> engine l ->
  measure s' < measure s.
Proof.
  intros s l s' Hstep He. unfold step in Hstep.
  destruct (exited s) eqn:Hex; [discriminate|].
  destruct l as [c| |i|i].
  - exfalso. apply (He c). reflexivity.
  - apply measure_main; auto.
  - eapply measure_search; eauto.
  - eapply measure_timer; eauto.
Qed.
Print Assumptions measure_decreases.

(* no livelock: an engine-side run from s has at most `measure s` steps *)
Theorem engine_run_bounded : forall ls s s', engine_run s ls s' ->
  length ls + measure s' <= measure s.
Proof.
  induction ls as [|l t IH]; intros s s' [Hf Hrun]; simpl in *.
  - inversion Hrun; subst. lia.
  - destruct (step s l) as [s1|] eqn:E; [|discriminate].
    inversion Hf as [|? ? Hl Ht]; subst.
    pose proof (measure_decreases s l s1 E Hl).
    specialize (IH s1 s' (conj Ht Hrun)). lia.
Qed.

Corollary no_livelock : forall ls s s', engine_run s ls s' -> length ls <= measure s.
Proof. intros ls s s' H. pose proof (engine_run_bounded ls s s' H). lia. Qed.
Print Assumptions no_livelock.

(* ------------------------------------------------------------------ *)
(* quiescent states                                                    *)
(* ------------------------------------------------------------------ *)

(* what an engine-stuck state looks like: the process has ended, or the stdin thread is
   idle, the mutex is free, every search thread has ended and no timer sleeps *)
Definition quiescent (s : state) : Prop :=
  exited s = true \/
  (pc s = PIdle /\ mutex s = MFree /\
   forall i, alive (sst (getg (gos s) i)) = false /\ tst (getg (gos s) i) <> TSleeping).

Lemma search_enabled : forall s, reachable s -> exited s = false -> locked (pc s) = false ->
  alive (sst (getg (gos s) (cur s))) = true -> step s (LSearch (cur s)) <> None.
Proof.
  intros s Hr Hex Hl Ha. get_inv s Hr.
  destruct Hslot as (_ & Hs & _). destruct (Hs (cur s)) as (_ & _ & _ & Hnp).
  destruct s as [p c gs m po gm h o pa ex]; simpl in *. subst pa po ex.
  unfold step, search_step; simpl.
  destruct Hctl as (K1 & K2 & K3 & K4 & K5 & K6 & K7 & K8 & K9 & K10 & K11 & K12 & K13).
  destruct (sst (getg gs c)) eqn:Es; simpl in *; try discriminate; try congruence.
  rewrite (K7 eq_refl).
  destruct m as [| |j]; try discriminate.
  - specialize (K5 eq_refl). congruence.
  - destruct K4 as [_ K4]. discriminate.
Qed.

Lemma dead_cases : forall x, alive x = false -> x = SNone \/ x = SDone.
Proof. destruct x; simpl; auto; discriminate. Qed.

Theorem quiescent_stuck : forall s, quiescent s -> engine_stuck s.
Proof.
  intros s [Hex|(Hp & Hm & Hall)] l Hl.
  - apply exited_is_final; auto.
  - unfold step. destruct (exited s); auto. destruct l as [c| |i|i].
    + exfalso. apply (Hl c); reflexivity.
    + unfold main_step. rewrite Hp. reflexivity.
    + unfold search_step. destruct (Hall i) as [Ha _].
      destruct (dead_cases _ Ha) as [E|E]; rewrite E; reflexivity.
    + unfold timer_step. destruct (Hall i) as [_ Ht].
      destruct (tst (getg (gos s) i)); congruence.
Qed.

Theorem stuck_quiescent : forall s, reachable s -> engine_stuck s -> quiescent s.
Proof.
  intros s Hr Hst. unfold quiescent.
  destruct (exited s) eqn:Hex; [left; reflexivity|right].
  assert (Hp : pc s = PIdle).
  { destruct (pc s) eqn:Hp; auto.
    all: destruct (main_progress s Hr Hex) as [H|(_ & _ & H)]; try congruence;
      exfalso; apply H; apply Hst; auto. }
  assert (Hl : locked (pc s) = false) by (rewrite Hp; reflexivity).
  assert (Hall : forall i, alive (sst (getg (gos s) i)) = false /\ tst (getg (gos s) i) <> TSleeping).
  { intros i. split.
    - destruct (Nat.eq_dec i (cur s)) as [->|Hne].
      + destruct (alive (sst (getg (gos s) (cur s)))) eqn:Ha; auto.
        exfalso. apply (search_enabled s Hr Hex Hl Ha). apply Hst; auto.
      + destruct (one_search_thread s i Hr Hne) as [E|E]; rewrite E; reflexivity.
    - intros Et. pose proof (Hst (LTimer i) (engine_timer i)) as H.
      unfold step, timer_step in H. rewrite Hex, Et in H. discriminate. }
  split; [auto|split; [|auto]].
  get_inv s Hr.
  destruct Hctl as (K1 & K2 & K3 & K4 & K5 & K6 & K7 & K8 & K9 & K10 & K11 & K12 & K13).
  destruct (mutex s) as [| |j] eqn:Em; auto.
  - specialize (K5 eq_refl). rewrite Hl in K5. discriminate.
  - destruct K4 as [_ K4]. destruct (Hall (cur s)) as [Ha _].
    destruct (sst (getg (gos s) (cur s))); simpl in *; discriminate.
Qed.
Print Assumptions stuck_quiescent.

(* engine_stuck is decidable: look at the finitely many candidate labels *)
Lemma stuck_dec : forall s, {l | engine l /\ step s l <> None} + {engine_stuck s}.
Proof.
  intros s. destruct (filter is_engine (enabled s)) as [|l t] eqn:E.
  - right. intros l Hl. destruct (step s l) eqn:Es; auto. exfalso.
    assert (Hin : In l (filter is_engine (enabled s))).
    { apply filter_In. split; [apply enabled_iff; congruence | apply engine_iff; auto]. }
    rewrite E in Hin. destruct Hin.
  - left. exists l.
    assert (Hin : In l (filter is_engine (enabled s))) by (rewrite E; left; reflexivity).
    apply filter_In in Hin. destruct Hin as [H1 H2]. split.
    + apply engine_iff; auto.
    + apply enabled_iff; auto.
Qed.

(* a maximal engine-side continuation exists from every state (and by `no_livelock` it has
   at most `measure s` steps) *)
Theorem max_engine_run_exists : forall s, exists ls s', max_engine_run s ls s'.
Proof.
  intros s. remember (measure s) as n eqn:Hn.
  assert (Hle : measure s <= n) by lia. clear Hn.
  revert s Hle. induction n as [|n IH]; intros s Hle.
  - destruct (stuck_dec s) as [(l & Hl & Hs)|Hst].
    + destruct (step s l) as [s1|] eqn:E; [|congruence].
      pose proof (measure_decreases s l s1 E Hl). lia.
    + exists [], s. split; [split; [constructor|reflexivity]|auto].
  - destruct (stuck_dec s) as [(l & Hl & Hs)|Hst].
    + destruct (step s l) as [s1|] eqn:E; [|congruence].
      pose proof (measure_decreases s l s1 E Hl).
      destruct (IH s1 ltac:(lia)) as (ls & s' & (Hf & Hrun) & Hst).
      exists (l :: ls), s'. split; [split|auto].
      * constructor; auto.
      * simpl. rewrite E. exact Hrun.
    + exists [], s. split; [split; [constructor|reflexivity]|auto].
Qed.

Lemma engine_run_reachable : forall s ls s', reachable s -> engine_run s ls s' -> reachable s'.
Proof. intros s ls s' Hr [_ H]. eapply reachable_run_from; eauto. Qed.

(* engine_quiesces: from every reachable state,
   (a) every engine-side run has at most `measure s` steps (no livelock);
   (b) there is an engine-side run of at most `measure s` steps into a quiescent state;
   (c) every maximal engine-side run ends in a quiescent state: the process has ended, or the
       stdin thread is idle, the mutex is free, all search threads have ended, no timer sleeps. *)
Theorem engine_quiesces : forall s, reachable s ->
  (forall ls s', engine_run s ls s' -> length ls <= measure s) /\
  (exists ls s', engine_run s ls s' /\ length ls <= measure s /\ quiescent s') /\
  (forall ls s', max_engine_run s ls s' -> quiescent s').
Proof.
  intros s Hr. split; [|split].
  - intros ls s' H. eapply no_livelock; eauto.
  - destruct (max_engine_run_exists s) as (ls & s' & Hrun & Hst).
    exists ls, s'. split; [auto|split].
    + eapply no_livelock; eauto.
    + apply stuck_quiescent; auto. eapply engine_run_reachable; eauto.
  - intros ls s' [Hrun Hst]. apply stuck_quiescent; auto. eapply engine_run_reachable; eauto.
Qed.
Print Assumptions engine_quiesces.

(* ------------------------------------------------------------------ *)
(* invariants along engine-side runs; what one step leaves alone       *)
(* ------------------------------------------------------------------ *)

Lemma engine_run_invariant : forall (P : state -> Prop),
  (forall s l s', reachable s -> P s -> engine l -> step s l = Some s' -> P s') ->
  forall ls s s', reachable s -> P s -> engine_run s ls s' -> P s'.
Proof.
  intros P Hstep. induction ls as [|l t IH]; intros s s' Hr HP [Hf Hrun]; simpl in *.
  - inversion Hrun; subst; auto.
  - destruct (step s l) as [s1|] eqn:E; [|discriminate].
    inversion Hf as [|? ? Hl Ht]; subst.
    apply (IH s1 s'); [eapply reachable_step; eauto | eapply Hstep; eauto | split; auto].
Qed.

(* a search thread, once spawned, stays spawned (any label) *)
Lemma step_keeps_spawned : forall s l s' j, step s l = Some s' ->
  sst (getg (gos s) j) <> SNone -> sst (getg (gos s') j) <> SNone.
Proof.
  intros [p c gs m po gm h o pa ex] l s' j Hstep. unfold step in Hstep; simpl in *.
  destruct ex; [discriminate|].
  destruct l as [cm| |k|k].
  - unfold input_step in Hstep; simpl in Hstep. destruct p; try discriminate Hstep.
    inversion Hstep; subst s'; simpl. auto.
  - unfold main_step in Hstep; simpl in Hstep.
    destruct p; unfold_step Hstep; break_in Hstep; inversion Hstep; subst s'; clear Hstep; simpl;
      auto.
    all: upd_cases; auto; simpl; try congruence.
  - unfold search_step in Hstep; simpl in Hstep.
    unfold_step Hstep; break_in Hstep; inversion Hstep; subst s'; clear Hstep; simpl; auto.
    all: upd_cases; auto; simpl; try congruence.
  - unfold timer_step in Hstep; simpl in Hstep.
    unfold_step Hstep; break_in Hstep; inversion Hstep; subst s'; clear Hstep; simpl; auto.
    all: upd_cases; auto; simpl; try congruence.
Qed.

(* a step of a search thread: the stdin thread's registers are untouched *)
Lemma search_frame : forall s k s', step s (LSearch k) = Some s' ->
  pc s' = pc s /\ cur s' = cur s /\ handle s' = handle s /\ exited s' = false /\
  length (gos s') = length (gos s) /\
  (forall j, tst (getg (gos s') j) = tst (getg (gos s) j)) /\
  (forall e, In e (out s) -> In e (out s')).
Proof.
  intros [p c gs m po gm h o pa ex] k s' Hstep. unfold step in Hstep; simpl in *.
  destruct ex; [discriminate|].
  unfold search_step in Hstep; simpl in Hstep.
  unfold_step Hstep; break_in Hstep; inversion Hstep; subst s'; clear Hstep; simpl.
  all: rewrite upd_length.
  all: splits; auto.
  all: intros j; upd_cases; auto.
Qed.

(* a step of a timer thread: only the flag and the timer state of its slot change *)
Lemma timer_frame : forall s k s', step s (LTimer k) = Some s' ->
  pc s' = pc s /\ cur s' = cur s /\ handle s' = handle s /\ exited s' = false /\
  game s' = game s /\ out s' = out s /\ mutex s' = mutex s /\
  length (gos s') = length (gos s) /\
  (forall j, sst (getg (gos s') j) = sst (getg (gos s) j)) /\
  (forall j, tst (getg (gos s) j) <> TNone -> tst (getg (gos s') j) <> TNone).
Proof.
  intros [p c gs m po gm h o pa ex] k s' Hstep. unfold step in Hstep; simpl in *.
  destruct ex; [discriminate|].
  unfold timer_step in Hstep; simpl in Hstep.
  unfold_step Hstep; break_in Hstep; inversion Hstep; subst s'; clear Hstep; simpl.
  rewrite upd_length.
  splits; auto.
  all: intros j; upd_cases; auto; simpl; congruence.
Qed.

(* no search thread can step when all of them have ended *)
Lemma no_search_step : forall s k,
  alive (sst (getg (gos s) k)) = false -> step s (LSearch k) = None.
Proof.
  intros s k Ha. unfold step, search_step. destruct (exited s); auto.
  destruct (dead_cases _ Ha) as [E|E]; rewrite E; reflexivity.
Qed.

Lemma dead_not_cur : forall s k, reachable s -> k <> cur s ->
  alive (sst (getg (gos s) k)) = false.
Proof.
  intros s k Hr Hne. destruct (one_search_thread s k Hr Hne) as [E|E]; rewrite E; reflexivity.
Qed.

Lemma search_step_is_cur : forall s k s', reachable s -> step s (LSearch k) = Some s' ->
  k = cur s /\ alive (sst (getg (gos s) (cur s))) = true.
Proof.
  intros s k s' Hr Hs.
  assert (Hk : k = cur s).
  { destruct (Nat.eq_dec k (cur s)); auto.
    rewrite no_search_step in Hs by (apply dead_not_cur; auto). discriminate. }
  subst k. split; auto.
  destruct (alive (sst (getg (gos s) (cur s)))) eqn:Ha; auto.
  rewrite no_search_step in Hs by auto. discriminate.
Qed.

(* the process ends only by `quit`: the stdin thread never dies in a reachable state *)
Lemma exit_only_by_quit : forall s l s', reachable s -> step s l = Some s' ->
  exited s' = true -> l = LMain /\ pc s = PQuit.
Proof.
  intros s l s' Hr Hstep Hex.
  assert (Hpa : panicked s' = false).
  { destruct (Inv_reachable s' (reachable_step s l s' Hr Hstep)) as (H & _). exact H. }
  destruct l as [cm| |k|k].
  - exfalso. destruct s as [p c gs m po gm h o pa ex]. unfold step in Hstep; simpl in *.
    destruct ex; [discriminate|].
    unfold input_step in Hstep; simpl in Hstep. destruct p; try discriminate Hstep.
    inversion Hstep; subst s'; simpl in *. discriminate.
  - destruct s as [p c gs m po gm h o pa ex]. unfold step in Hstep; simpl in *.
    destruct ex; [discriminate|].
    unfold main_step in Hstep; simpl in Hstep.
    destruct p; unfold_step Hstep; break_in Hstep; inversion Hstep; subst s'; clear Hstep;
      simpl in *; try discriminate; auto.
  - destruct (search_frame _ _ _ Hstep) as (_ & _ & _ & H & _). congruence.
  - destruct (timer_frame _ _ _ Hstep) as (_ & _ & _ & H & _). congruence.
Qed.

(* only input makes the stdin thread enter `quit` *)
Lemma quit_only_by_input : forall s l s', step s l = Some s' -> engine l ->
  pc s' = PQuit -> pc s = PQuit.
Proof.
  intros s l s' Hstep Hl Hq.
  destruct l as [cm| |k|k].
  - exfalso. apply (Hl cm); reflexivity.
  - destruct s as [p c gs m po gm h o pa ex]. unfold step in Hstep; simpl in *.
    destruct ex; [discriminate|].
    unfold main_step in Hstep; simpl in Hstep.
    destruct p; unfold_step Hstep; break_in Hstep; inversion Hstep; subst s'; clear Hstep;
      simpl in *; try discriminate; auto.
  - destruct (search_frame _ _ _ Hstep) as (H & _). congruence.
  - destruct (timer_frame _ _ _ Hstep) as (H & _). congruence.
Qed.

Lemma cnt_pos_In : forall i o, 1 <= cnt i o -> In (EBestmove i) o.
Proof.
  intros i o; induction o as [|e t IH]; unfold cnt in *; simpl; intros H; [lia|].
  destruct e; simpl in *; auto.
  destruct (Nat.eqb i0 i) eqn:E; simpl in *; auto.
  apply Nat.eqb_eq in E. subst. auto.
Qed.

(* the bestmove of a finished search thread is in the output *)
Lemma done_has_bestmove : forall s i, reachable s -> sst (getg (gos s) i) = SDone ->
  In (EBestmove i) (out s).
Proof.
  intros s i Hr Hd. apply cnt_pos_In. rewrite bestmove_count_exact, Hd by auto. simpl. lia.
Qed.

Lemma spawned_quiescent_done : forall s i, quiescent s -> exited s = false ->
  sst (getg (gos s) i) <> SNone -> sst (getg (gos s) i) = SDone.
Proof.
  intros s i [Hq|(_ & _ & Hall)] Hex Hn; [congruence|].
  destruct (Hall i) as [Ha _]. destruct (dead_cases _ Ha); congruence.
Qed.

Lemma quiescent_idle : forall s, quiescent s -> exited s = false -> pc s = PIdle.
Proof. intros s [Hq|(H & _)] Hex; [congruence|auto]. Qed.

(* a spawned search thread of the current slot reaches its end by its own steps alone,
   whenever the stdin thread does not hold the mutex *)
Lemma search_runs_to_done : forall k s, reachable s -> exited s = false ->
  locked (pc s) = false -> sst (getg (gos s) (cur s)) <> SNone ->
  rank (sst (getg (gos s) (cur s))) = k ->
  exists s', run_from s (repeat (LSearch (cur s)) k) = Some s' /\
    sst (getg (gos s') (cur s)) = SDone /\ pc s' = pc s /\ cur s' = cur s /\
    handle s' = handle s /\ exited s' = false /\
    (forall j, stopped (getg (gos s) j) = true -> stopped (getg (gos s') j) = true).
Proof.
  induction k as [|k IH]; intros s Hr Hex Hl Hn Hk.
  - exists s. simpl. splits; auto.
    get_inv s Hr. destruct Hslot as (_ & Hs & _). destruct (Hs (cur s)) as (_ & _ & _ & Hnp).
    destruct (sst (getg (gos s) (cur s))); simpl in Hk; congruence.
  - assert (Ha : alive (sst (getg (gos s) (cur s))) = true)
      by (destruct (sst (getg (gos s) (cur s))); simpl in *; congruence).
    pose proof (search_enabled s Hr Hex Hl Ha) as Hen.
    destruct (step s (LSearch (cur s))) as [s1|] eqn:E; [|congruence].
    get_inv s Hr.
    assert (Hg : sst (getg (gos s) (cur s)) = SWaitLock -> game s = true).
    { intros Ew. destruct Hctl as (_ & _ & _ & _ & _ & _ & K7 & _). apply K7. rewrite Ew. auto. }
    destruct (search_step_rank s s1 E (proj1 Hslot) Hpa Hpo Hg) as (R1 & R2 & R3 & R4 & R5).
    pose proof (reachable_step _ _ _ Hr E) as Hr1.
    destruct (IH s1 Hr1 R5) as (s' & Hrun & Hd & Hp & Hc & Hh & Hx & Hst).
    + congruence.
    + rewrite R4. eapply step_keeps_spawned; eauto.
    + lia.
    + exists s'. simpl. rewrite E. rewrite R4 in *. splits; auto; try congruence.
      intros j Hj. apply Hst.
      destruct (step_slot s _ s1 j (Inv_reachable s Hr) E) as ((_ & M & _) & _). auto.
Qed.

(* ------------------------------------------------------------------ *)
(* 2. stop is answered                                                 *)
(* ------------------------------------------------------------------ *)

Lemma alive_is_cur : forall s i, reachable s -> alive (sst (getg (gos s) i)) = true -> i = cur s.
Proof.
  intros s i Hr Ha. destruct (Nat.eq_dec i (cur s)); auto.
  rewrite dead_not_cur in Ha by auto. discriminate.
Qed.

Lemma alive_spawned : forall x, alive x = true -> x <> SNone.
Proof. destruct x; simpl; congruence. Qed.

(* possibility, with the explicit schedule: the stdin thread stores false and reaches the
   join, the search thread runs to its end (at most 6 steps), the join completes *)
Theorem stop_is_answered : forall s i, reachable s -> exited s = false -> pc s = PIdle ->
  alive (sst (getg (gos s) i)) = true ->
  exists s',
    run_from s (LInput CStop :: LMain ::
                repeat (LSearch i) (rank (sst (getg (gos s) i))) ++ [LMain]) = Some s' /\
    In (EBestmove i) (out s') /\ sst (getg (gos s') i) = SDone /\ handle s' = None /\
    pc s' = PIdle /\ exited s' = false /\ cur s' = cur s /\
    stopped (getg (gos s') i) = true /\ flag (getg (gos s') i) = false.
Proof.
  intros s i Hr Hex Hp Ha.
  pose proof (alive_is_cur s i Hr Ha) as Hi. subst i.
  get_inv s Hr.
  assert (Hc : cur s < length (gos s)) by (destruct Hslot; auto).
  assert (Hh : handle s = Some (cur s)).
  { destruct Hctl as (_ & K2 & _). auto. }
  (* the first two steps, explicitly *)
  set (s2 := set_pc (upd_slot (set_pc s PStopStore) (cur s) g_stop) PStopJoin).
  assert (E12 : run_from s [LInput CStop; LMain] = Some s2).
  { unfold s2. destruct s as [p c gs m po gm h o pa ex]; simpl in *. subst p ex.
    unfold step; simpl. reflexivity. }
  assert (Hr2 : reachable s2) by (eapply reachable_run_from; eauto).
  assert (Hg2 : getg (gos s2) (cur s) = g_stop (getg (gos s) (cur s))).
  { unfold s2; simpl. apply getg_upd_eq; auto. }
  assert (Hc2 : cur s2 = cur s) by reflexivity.
  assert (Hs2 : sst (getg (gos s2) (cur s2)) = sst (getg (gos s) (cur s))).
  { rewrite Hc2, Hg2. reflexivity. }
  destruct (search_runs_to_done (rank (sst (getg (gos s) (cur s)))) s2 Hr2)
    as (s3 & Hrun & Hd & Hp3 & Hc3 & Hh3 & Hx3 & Hst3); auto.
  { rewrite Hs2. apply alive_spawned; auto. }
  { rewrite Hs2. reflexivity. }
  rewrite Hc2 in *.
  assert (Hr3 : reachable s3) by (eapply reachable_run_from; eauto).
  (* the join completes *)
  set (s4 := set_pc (set_handle s3 None) PIdle).
  assert (E4 : step s3 LMain = Some s4).
  { unfold step, main_step. rewrite Hx3, Hp3. unfold s2 at 1; simpl.
    unfold main_join. rewrite Hh3. unfold s2 at 1; simpl. rewrite Hh, Hd. reflexivity. }
  assert (Hr4 : reachable s4) by (eapply reachable_step; eauto).
  exists s4.
  assert (Hst4 : stopped (getg (gos s4) (cur s)) = true).
  { unfold s4; simpl. apply Hst3. rewrite Hg2. reflexivity. }
  split; [|splits].
  - change (LInput CStop :: LMain :: repeat (LSearch (cur s)) (rank (sst (getg (gos s) (cur s)))) ++ [LMain])
      with ([LInput CStop; LMain] ++ repeat (LSearch (cur s)) (rank (sst (getg (gos s) (cur s)))) ++ [LMain]).
    rewrite run_from_app, E12, run_from_app, Hrun. simpl. rewrite E4. reflexivity.
  - apply (done_has_bestmove s4); auto.
  - exact Hd.
  - reflexivity.
  - reflexivity.
  - exact Hx3.
  - exact Hc3.
  - exact Hst4.
  - apply (down_cond_flag s4); auto. right. exact Hst4.
Qed.
Print Assumptions stop_is_answered.

(* inevitability: the phases of a `stop` for go i *)
Definition StopPh (i : nat) (s : state) : Prop :=
  exited s = false /\ cur s = i /\ sst (getg (gos s) i) <> SNone /\
  (pc s = PStopStore \/
   (pc s = PStopJoin /\ stopped (getg (gos s) i) = true) \/
   (pc s = PIdle /\ handle s = None /\ stopped (getg (gos s) i) = true)).

Lemma not_exited_after : forall s l s', reachable s -> step s l = Some s' ->
  pc s <> PQuit -> exited s' = false.
Proof.
  intros s l s' Hr Hs Hq. destruct (exited s') eqn:E; auto.
  destruct (exit_only_by_quit s l s' Hr Hs E). congruence.
Qed.

Lemma stopped_stays : forall s l s' j, reachable s -> step s l = Some s' ->
  stopped (getg (gos s) j) = true -> stopped (getg (gos s') j) = true.
Proof.
  intros s l s' j Hr Hs H.
  destruct (step_slot s l s' j (Inv_reachable s Hr) Hs) as ((_ & M & _) & _). auto.
Qed.

Ltac main_compute Hstep :=
  unfold step in Hstep; simpl in Hstep; unfold main_step in Hstep; simpl in Hstep;
  unfold_step Hstep; break_in Hstep; inversion Hstep; subst; clear Hstep; simpl in *.

Lemma StopPh_step : forall i s l s', reachable s -> StopPh i s -> engine l ->
  step s l = Some s' -> StopPh i s'.
Proof.
  intros i s l s' Hr (Hex & Hc & Hn & Hpc) Hl Hstep.
  assert (Hex' : exited s' = false).
  { eapply not_exited_after; eauto. destruct Hpc as [H|[(H&_)|(H&_)]]; congruence. }
  pose proof (step_keeps_spawned s l s' i Hstep Hn) as Hn'.
  pose proof (stopped_stays s l s' i Hr Hstep) as Hst.
  destruct l as [cm| |k|k].
  - exfalso. apply (Hl cm); reflexivity.
  - get_inv s Hr. assert (Hlen : cur s < length (gos s)) by (destruct Hslot; auto).
    unfold StopPh. split; [auto|].
    destruct s as [p c gs m po gm h o pa ex]; simpl in *. subst c ex.
    destruct Hpc as [Hp|[(Hp & Hs)|(Hp & _)]]; subst p; main_compute Hstep.
    + splits; auto. right. left. split; auto. rewrite getg_upd_eq by auto. reflexivity.
    + splits; auto.
    + discriminate.
    + splits; auto.
  - destruct (search_frame _ _ _ Hstep) as (F1 & F2 & F3 & F4 & _).
    unfold StopPh. rewrite F1, F2, F3. splits; auto.
    destruct Hpc as [H|[(H&?)|(H&?&?)]]; auto 8.
  - destruct (timer_frame _ _ _ Hstep) as (F1 & F2 & F3 & F4 & _).
    unfold StopPh. rewrite F1, F2, F3. splits; auto.
    destruct Hpc as [H|[(H&?)|(H&?&?)]]; auto 8.
Qed.

(* EVERY maximal engine-side continuation after `stop` was read ends with the bestmove of
   go i printed, the thread joined, the handle cleared, the stdin thread idle; and none of
   them has more than `measure` steps *)
Theorem stop_always_answered : forall s i s1 ls s', reachable s -> exited s = false ->
  pc s = PIdle -> alive (sst (getg (gos s) i)) = true ->
  step s (LInput CStop) = Some s1 -> max_engine_run s1 ls s' ->
  In (EBestmove i) (out s') /\ sst (getg (gos s') i) = SDone /\ handle s' = None /\
  pc s' = PIdle /\ exited s' = false /\ cur s' = cur s /\
  stopped (getg (gos s') i) = true /\ flag (getg (gos s') i) = false /\
  length ls <= measure s1.
Proof.
  intros s i s1 ls s' Hr Hex Hp Ha Hs1 [Hrun Hst].
  pose proof (alive_is_cur s i Hr Ha) as Hi.
  pose proof (reachable_step _ _ _ Hr Hs1) as Hr1.
  assert (P1 : StopPh i s1).
  { unfold step, input_step in Hs1. rewrite Hex, Hp in Hs1. inversion Hs1; subst s1; simpl.
    unfold StopPh; simpl. splits; auto. apply alive_spawned; auto. }
  pose proof (engine_run_invariant (StopPh i) (StopPh_step i) ls s1 s' Hr1 P1 Hrun)
    as (Hex' & Hc' & Hn' & Hpc').
  pose proof (engine_run_reachable _ _ _ Hr1 Hrun) as Hr'.
  pose proof (stuck_quiescent s' Hr' Hst) as Hq.
  pose proof (quiescent_idle s' Hq Hex') as Hidle.
  pose proof (spawned_quiescent_done s' i Hq Hex' Hn') as Hd.
  destruct Hpc' as [H|[(H&_)|(_ & Hh & Hsp)]]; try congruence.
  splits; auto.
  - apply done_has_bestmove; auto.
  - congruence.
  - apply (down_cond_flag s'); auto. right. exact Hsp.
  - eapply no_livelock; eauto.
Qed.
Print Assumptions stop_always_answered.

(* ------------------------------------------------------------------ *)
(* 3. go is answered                                                   *)
(* ------------------------------------------------------------------ *)

(* the phases of a `go` (timed or not) whose flag gets slot N.  From PGoRaise on the go is
   ACCEPTED: busy check, join and game check are passed *)
Definition GoPh (N : nat) (t : bool) (s : state) : Prop :=
  exited s = false /\
  ( ((pc s = PGoLoad t \/ pc s = PGoJoin t \/ pc s = PGoNew t) /\
     length (gos s) = N /\ game s = true /\ alive (sst (getg (gos s) (cur s))) = false)
  \/ ((pc s = PGoLock t \/ pc s = PGoCheck t) /\ cur s = N /\ game s = true)
  \/ ((pc s = PGoRaise t \/ (t = true /\ (pc s = PGoInfo \/ pc s = PGoTimer))) /\ cur s = N)
  \/ (pc s = PGoSpawn /\ cur s = N /\ (t = true -> tst (getg (gos s) N) <> TNone))
  \/ ((pc s = PGoUnlock \/ pc s = PIdle) /\ cur s = N /\ sst (getg (gos s) N) <> SNone /\
      (t = true -> tst (getg (gos s) N) <> TNone)) ).

Lemma GoPh_not_quit : forall N t s, GoPh N t s -> pc s <> PQuit.
Proof.
  intros N t s (_ & H) E. rewrite E in H.
  repeat match goal with
         | H : _ \/ _ |- _ => destruct H
         | H : _ /\ _ |- _ => destruct H
         end; discriminate.
Qed.

Lemma all_dead_in_data : forall s, reachable s -> in_data (pc s) = true ->
  forall k, step s (LSearch k) = None.
Proof.
  intros s Hr Hd k. apply no_search_step.
  destruct (lock_taken_after_join s k Hr Hd) as [E|E]; rewrite E; reflexivity.
Qed.

Lemma flag_down_when_dead : forall s, reachable s -> raised (pc s) = false ->
  running (sst (getg (gos s) (cur s))) = false -> curflag s = false.
Proof.
  intros s Hr Hp Ha. get_inv s Hr.
  destruct Hctl as (K1 & K2 & K3 & K4 & K5 & K6 & K7 & K8 & K9 & K10 & K11 & K12 & K13).
  unfold curflag. destruct (flag (getg (gos s) (cur s))); auto.
  destruct (K8 eq_refl); congruence.
Qed.

Lemma dead_not_running : forall x, alive x = false -> running x = false.
Proof. destruct x; simpl; auto. Qed.

Lemma GoPh_step : forall N t s l s', reachable s -> GoPh N t s -> engine l ->
  step s l = Some s' -> GoPh N t s'.
Proof.
  intros N t s l s' Hr HP Hl Hstep.
  pose proof (GoPh_not_quit N t s HP) as Hnq.
  destruct HP as (Hex & Hph).
  assert (Hex' : exited s' = false) by (eapply not_exited_after; eauto).
  unfold GoPh. split; [exact Hex'|].
  destruct l as [cm| |k|k].
  - exfalso. apply (Hl cm); reflexivity.
  - (* the stdin thread *)
    get_inv s Hr. assert (Hlen : cur s < length (gos s)) by (destruct Hslot; auto).
    destruct Hph as [(Hp & HN & Hg & Ha)|[(Hp & Hc & Hg)|[(Hp & Hc)|[(Hp & Hc & Ht)|(Hp & Hc & Hn & Ht)]]]].
    + (* busy check, join, new flag *)
      pose proof (flag_down_when_dead s Hr) as Hfd.
      destruct Hctl as (K1 & K2 & K3 & K4 & K5 & K6 & K7 & K8 & K9 & K10 & K11 & K12 & K13).
      destruct s as [p c gs m po gm h o pa ex]; simpl in *. subst ex gm.
      destruct Hp as [Hp|[Hp|Hp]]; subst p.
      * unfold curflag in Hfd; simpl in Hfd.
        specialize (Hfd eq_refl (dead_not_running _ Ha)).
        unfold step, main_step in Hstep; simpl in Hstep. unfold curflag in Hstep; simpl in Hstep.
        rewrite Hfd in Hstep. inversion Hstep; subst s'; simpl. left. auto 10.
      * main_compute Hstep.
        -- left. auto 10.
        -- discriminate.
        -- left. auto 10.
      * main_compute Hstep. right. left. auto.
    + (* lock, game check *)
      destruct s as [p c gs m po gm h o pa ex]; simpl in *. subst ex gm.
      destruct Hp as [Hp|Hp]; subst p; main_compute Hstep.
      * discriminate.
      * right. left. auto.
      * right. right. left. auto.
    + (* raise, info, timer spawn *)
      destruct s as [p c gs m po gm h o pa ex]; simpl in *. subst ex.
      destruct Hp as [Hp|(Htt & [Hp|Hp])]; subst p.
      * main_compute Hstep.
        -- right. right. left. auto.
        -- right. right. right. left. splits; auto. intros; discriminate.
      * main_compute Hstep. right. right. left. auto.
      * main_compute Hstep. right. right. right. left. splits; auto.
        intros _. rewrite getg_upd_eq by auto. simpl. discriminate.
    + (* search thread spawn *)
      destruct s as [p c gs m po gm h o pa ex]; simpl in *. subst ex p.
      main_compute Hstep. right. right. right. right.
      rewrite getg_upd_eq by auto. simpl. splits; auto. discriminate.
    + (* unlock, idle *)
      destruct s as [p c gs m po gm h o pa ex]; simpl in *. subst ex.
      destruct Hp as [Hp|Hp]; subst p; main_compute Hstep.
      right. right. right. right. auto.
  - (* the search thread *)
    destruct (search_step_is_cur s k s' Hr Hstep) as [Hk Hal]. subst k.
    destruct Hph as [(Hp & HN & Hg & Ha)|[(Hp & Hc & Hg)|[(Hp & Hc)|[(Hp & Hc & Ht)|(Hp & Hc & Hn & Ht)]]]].
    + congruence.
    + rewrite all_dead_in_data in Hstep; [discriminate|auto|].
      destruct Hp as [Hp|Hp]; rewrite Hp; reflexivity.
    + rewrite all_dead_in_data in Hstep; [discriminate|auto|].
      destruct Hp as [Hp|(_ & [Hp|Hp])]; rewrite Hp; reflexivity.
    + rewrite all_dead_in_data in Hstep; [discriminate|auto|]. rewrite Hp; reflexivity.
    + destruct (search_frame _ _ _ Hstep) as (F1 & F2 & F3 & F4 & F5 & F6 & F7).
      right. right. right. right. rewrite F1, F2, F6. splits; auto.
      eapply step_keeps_spawned; eauto.
  - (* a timer *)
    destruct (timer_frame _ _ _ Hstep) as (F1 & F2 & F3 & F4 & F5 & F6 & F7 & F8 & F9 & F10).
    rewrite F1, F2, F5, F8, !F9.
    destruct Hph as [(Hp & HN & Hg & Ha)|[(Hp & Hc & Hg)|[(Hp & Hc)|[(Hp & Hc & Ht)|(Hp & Hc & Hn & Ht)]]]].
    + left. auto.
    + right. left. auto.
    + right. right. left. auto.
    + right. right. right. left. auto.
    + right. right. right. right. auto 6.
Qed.

(* what a go phase has reached when the engine side has come to rest *)
Lemma GoPh_end : forall N t s, reachable s -> GoPh N t s -> engine_stuck s ->
  cur s = N /\ sst (getg (gos s) N) = SDone /\ In (EBestmove N) (out s) /\ pc s = PIdle /\
  exited s = false /\ flag (getg (gos s) N) = false /\
  (t = true -> tst (getg (gos s) N) = TFired).
Proof.
  intros N t s Hr (Hex & Hph) Hst.
  pose proof (stuck_quiescent s Hr Hst) as Hq.
  pose proof (quiescent_idle s Hq Hex) as Hidle.
  destruct Hph as [(Hp & _)|[(Hp & _)|[(Hp & _)|[(Hp & _)|(Hp & Hc & Hn & Ht)]]]];
    try (repeat match goal with
                | H : _ \/ _ |- _ => destruct H
                | H : _ /\ _ |- _ => destruct H
                end; congruence).
  pose proof (spawned_quiescent_done s N Hq Hex Hn) as Hd.
  splits; auto.
  - apply done_has_bestmove; auto.
  - pose proof (flag_down_when_dead s Hr) as Hfd. unfold curflag in Hfd. rewrite Hc in Hfd.
    apply Hfd; [rewrite Hidle; reflexivity | rewrite Hd; reflexivity].
  - intros Htt. specialize (Ht Htt).
    destruct Hq as [Hq|(_ & _ & Hall)]; [congruence|].
    destruct (Hall N) as [_ Hns]. destruct (tst (getg (gos s) N)); congruence.
Qed.

(* an ACCEPTED go (the stdin thread is at `search_is_running.store(true)`, slot `cur s`),
   without any further input: every maximal engine-side continuation prints the bestmove
   of that go, whatever the timer does.  In the model the search itself can always end
   (`SSearching -> SFinished`), so after section 1 the content of this theorem is that
   nothing else blocks the answer: the stdin thread releases the mutex at the end of
   command_go, the search thread gets it, and no join or lock is in the way. *)
Theorem accepted_go_is_answered : forall s t ls s', reachable s -> exited s = false ->
  pc s = PGoRaise t -> max_engine_run s ls s' ->
  In (EBestmove (cur s)) (out s') /\ sst (getg (gos s') (cur s)) = SDone /\
  cur s' = cur s /\ pc s' = PIdle /\ exited s' = false /\
  flag (getg (gos s') (cur s)) = false /\
  (t = true -> tst (getg (gos s') (cur s)) = TFired) /\
  length ls <= measure s.
Proof.
  intros s t ls s' Hr Hex Hp [Hrun Hst].
  assert (P0 : GoPh (cur s) t s).
  { split; auto. right. right. left. auto. }
  pose proof (engine_run_invariant _ (GoPh_step (cur s) t) ls s s' Hr P0 Hrun) as P'.
  pose proof (engine_run_reachable _ _ _ Hr Hrun) as Hr'.
  destruct (GoPh_end _ _ s' Hr' P' Hst) as (E1 & E2 & E3 & E4 & E5 & E6 & E7).
  splits; auto. eapply no_livelock; eauto.
Qed.

Corollary timed_go_is_answered : forall s ls s', reachable s -> exited s = false ->
  pc s = PGoRaise true -> max_engine_run s ls s' ->
  In (EBestmove (cur s)) (out s') /\ tst (getg (gos s') (cur s)) = TFired /\
  sst (getg (gos s') (cur s)) = SDone /\ pc s' = PIdle /\ exited s' = false.
Proof.
  intros s ls s' Hr Hex Hp Hm.
  destruct (accepted_go_is_answered s true ls s' Hr Hex Hp Hm)
    as (E1 & E2 & E3 & E4 & E5 & E6 & E7 & E8).
  splits; auto.
Qed.
Print Assumptions accepted_go_is_answered.
Print Assumptions timed_go_is_answered.

(* the same from the input: the stdin thread is idle, a game is set up and no search thread
   is alive.  Then `go` is accepted (no "busy", no "no game"), gets the NEW slot
   `length (gos s)`, and every maximal engine-side continuation prints its bestmove *)
Theorem go_is_answered : forall s t s1, reachable s -> exited s = false ->
  pc s = PIdle -> game s = true -> alive (sst (getg (gos s) (cur s))) = false ->
  step s (LInput (CGo t)) = Some s1 ->
  ~ In (EBestmove (length (gos s))) (out s) /\
  (forall ls s', engine_run s1 ls s' -> pc s' = PIdle ->
     cur s' = length (gos s) /\ sst (getg (gos s') (cur s')) <> SNone) /\
  (forall ls s', max_engine_run s1 ls s' ->
     cur s' = length (gos s) /\ sst (getg (gos s') (cur s')) = SDone /\
     In (EBestmove (length (gos s))) (out s') /\ pc s' = PIdle /\ exited s' = false /\
     flag (getg (gos s') (cur s')) = false /\
     (t = true -> tst (getg (gos s') (cur s')) = TFired) /\
     length ls <= measure s1).
Proof.
  intros s t s1 Hr Hex Hp Hg Ha Hs1.
  pose proof (reachable_step _ _ _ Hr Hs1) as Hr1.
  assert (P1 : GoPh (length (gos s)) t s1).
  { unfold step, input_step in Hs1. rewrite Hex, Hp in Hs1. inversion Hs1; subst s1; simpl.
    unfold GoPh; simpl. split; [exact Hex|]. left. auto 8. }
  split; [|split].
  - intros Hin. apply cnt_In in Hin. rewrite bestmove_count_exact in Hin by auto.
    rewrite getg_overflow in Hin by lia. simpl in Hin. lia.
  - intros ls s' Hrun Hidle.
    pose proof (engine_run_invariant _ (GoPh_step _ t) ls s1 s' Hr1 P1 Hrun) as (_ & Hph).
    destruct Hph as [(Hq & _)|[(Hq & _)|[(Hq & _)|[(Hq & _)|(Hq & Hc & Hn & Ht)]]]];
      try (repeat match goal with
                  | H : _ \/ _ |- _ => destruct H
                  | H : _ /\ _ |- _ => destruct H
                  end; congruence).
    rewrite Hc. auto.
  - intros ls s' [Hrun Hst].
    pose proof (engine_run_invariant _ (GoPh_step _ t) ls s1 s' Hr1 P1 Hrun) as P'.
    pose proof (engine_run_reachable _ _ _ Hr1 Hrun) as Hr'.
    destruct (GoPh_end _ _ s' Hr' P' Hst) as (E1 & E2 & E3 & E4 & E5 & E6 & E7).
    rewrite E1. splits; auto. eapply no_livelock; eauto.
Qed.
Print Assumptions go_is_answered.

(* ------------------------------------------------------------------ *)
(* 4. position + go after a bestmove are honoured                      *)
(* ------------------------------------------------------------------ *)

Lemma search_keeps_printed : forall s k s' j, step s (LSearch k) = Some s' ->
  printed (sst (getg (gos s) j)) = true -> printed (sst (getg (gos s') j)) = true.
Proof.
  intros [p c gs m po gm h o pa ex] k s' j Hstep. unfold step in Hstep; simpl in *.
  destruct ex; [discriminate|].
  unfold search_step in Hstep; simpl in Hstep.
  unfold_step Hstep; break_in Hstep; inversion Hstep; subst s'; clear Hstep; simpl; auto.
  all: upd_cases; auto; simpl; try congruence.
  all: intros Hpr; match goal with H : sst _ = _ |- _ => rewrite H in Hpr end; discriminate.
Qed.

(* the phases of `position ...` (leaving a game) read after the bestmove of the current go
   c0 was printed *)
Definition PosPh (c0 N : nat) (s : state) : Prop :=
  exited s = false /\ cur s = c0 /\ length (gos s) = N /\
  printed (sst (getg (gos s) c0)) = true /\
  (pc s = PPosLoad true \/ pc s = PPosJoin true \/ pc s = PPosLock true \/
   pc s = PPosSet true \/ (pc s = PPosUnlock /\ game s = true) \/
   (pc s = PIdle /\ game s = true /\ sst (getg (gos s) c0) = SDone)).

Lemma PosPh_not_quit : forall c0 N s, PosPh c0 N s -> pc s <> PQuit.
Proof.
  intros c0 N s (_ & _ & _ & _ & H) E. rewrite E in H.
  repeat match goal with
         | H : _ \/ _ |- _ => destruct H
         | H : _ /\ _ |- _ => destruct H
         end; discriminate.
Qed.

Lemma printed_not_running : forall x, printed x = true -> running x = false.
Proof. destruct x; simpl; auto; discriminate. Qed.

Lemma PosPh_step : forall c0 N s l s', reachable s -> PosPh c0 N s -> engine l ->
  step s l = Some s' -> PosPh c0 N s'.
Proof.
  intros c0 N s l s' Hr HP Hl Hstep.
  pose proof (PosPh_not_quit c0 N s HP) as Hnq.
  destruct HP as (Hex & Hc & HN & Hpr & Hph).
  assert (Hex' : exited s' = false) by (eapply not_exited_after; eauto).
  destruct l as [cm| |k|k].
  - exfalso. apply (Hl cm); reflexivity.
  - (* the stdin thread *)
    pose proof (flag_down_when_dead s Hr) as Hfd.
    pose proof (lock_taken_after_join s c0 Hr) as Hlk.
    unfold PosPh. split; [exact Hex'|].
    destruct s as [p c gs m po gm h o pa ex]; simpl in *. subst ex c.
    destruct Hph as [Hp|[Hp|[Hp|[Hp|[(Hp & Hg)|(Hp & Hg & Hd)]]]]]; subst p.
    + unfold curflag in Hfd; simpl in Hfd.
      specialize (Hfd eq_refl (printed_not_running _ Hpr)).
      unfold step, main_step in Hstep; simpl in Hstep. unfold curflag in Hstep; simpl in Hstep.
      rewrite Hfd in Hstep. inversion Hstep; subst s'; simpl. splits; auto.
    + main_compute Hstep; try discriminate; splits; auto.
    + main_compute Hstep; try discriminate; splits; auto.
    + main_compute Hstep. splits; auto 8.
    + main_compute Hstep. splits; auto. right. right. right. right. right. splits; auto.
      destruct (Hlk eq_refl) as [E|E]; auto. rewrite E in Hpr. discriminate.
    + main_compute Hstep.
  - (* the search thread: only its last step (unlock) is left *)
    destruct (search_step_is_cur s k s' Hr Hstep) as [Hk Hal]. subst k.
    pose proof (search_keeps_printed _ _ _ c0 Hstep Hpr) as Hpr'.
    destruct (search_frame _ _ _ Hstep) as (F1 & F2 & F3 & F4 & F5 & F6 & F7).
    unfold PosPh. rewrite F1, F2, F5. splits; auto.
    destruct Hph as [Hp|[Hp|[Hp|[Hp|[(Hp & Hg)|(Hp & Hg & Hd)]]]]].
    + auto.
    + auto.
    + exfalso. rewrite all_dead_in_data in Hstep; [discriminate|auto|]. rewrite Hp; reflexivity.
    + exfalso. rewrite all_dead_in_data in Hstep; [discriminate|auto|]. rewrite Hp; reflexivity.
    + exfalso. rewrite all_dead_in_data in Hstep; [discriminate|auto|]. rewrite Hp; reflexivity.
    + exfalso. rewrite Hc, Hd in Hal. discriminate.
  - (* a timer *)
    destruct (timer_frame _ _ _ Hstep) as (F1 & F2 & F3 & F4 & F5 & F6 & F7 & F8 & F9 & F10).
    unfold PosPh. rewrite F1, F2, F5, F8, !F9. splits; auto.
Qed.

(* the GUI has seen the bestmove of the last go and sends `position ...` (a legal one: a
   game is left) and, once that line is consumed, `go`.  Whatever the engine-side threads do
   in between (every interleaving):
   - `position` is not refused and every maximal continuation of it ends with the stdin
     thread idle and a game set up;
   - `go` is not refused: whenever the stdin thread is idle again, a NEW search thread has
     been spawned, in the fresh slot `length (gos s)`;
   - every maximal continuation prints the bestmove of that new go. *)
Theorem go_after_bestmove_accepted : forall s t s1, reachable s -> exited s = false ->
  pc s = PIdle -> In (EBestmove (cur s)) (out s) ->
  step s (LInput (CPosition true)) = Some s1 ->
  cur s < length (gos s) /\ ~ In (EBestmove (length (gos s))) (out s) /\
  (forall ls s2, max_engine_run s1 ls s2 -> pc s2 = PIdle /\ exited s2 = false) /\
  (forall ls1 s2 s3, engine_run s1 ls1 s2 -> pc s2 = PIdle ->
     step s2 (LInput (CGo t)) = Some s3 ->
     game s2 = true /\
     (forall ls2 s4, engine_run s3 ls2 s4 -> pc s4 = PIdle ->
        cur s4 = length (gos s) /\ sst (getg (gos s4) (cur s4)) <> SNone) /\
     (forall ls2 s4, max_engine_run s3 ls2 s4 ->
        cur s4 = length (gos s) /\ sst (getg (gos s4) (cur s4)) = SDone /\
        In (EBestmove (length (gos s))) (out s4) /\ pc s4 = PIdle /\ exited s4 = false /\
        length ls2 <= measure s3)).
Proof.
  intros s t s1 Hr Hex Hp Hin Hs1.
  pose proof (reachable_step _ _ _ Hr Hs1) as Hr1.
  assert (Hlen : cur s < length (gos s)).
  { get_inv s Hr. destruct Hslot; auto. }
  assert (Hpr : printed (sst (getg (gos s) (cur s))) = true).
  { apply cnt_In in Hin. rewrite bestmove_count_exact in Hin by auto.
    destruct (printed _); simpl in Hin; auto; lia. }
  assert (P1 : PosPh (cur s) (length (gos s)) s1).
  { unfold step, input_step in Hs1. rewrite Hex, Hp in Hs1. inversion Hs1; subst s1; simpl.
    unfold PosPh; simpl. splits; auto. }
  split; [exact Hlen|split; [|split]].
  - intros Hin2. apply cnt_In in Hin2. rewrite bestmove_count_exact in Hin2 by auto.
    rewrite getg_overflow in Hin2 by lia. simpl in Hin2. lia.
  - intros ls s2 [Hrun Hst].
    pose proof (engine_run_invariant _ (PosPh_step _ _) ls s1 s2 Hr1 P1 Hrun) as (Hx & _).
    pose proof (engine_run_reachable _ _ _ Hr1 Hrun) as Hr2.
    split; auto. apply quiescent_idle; auto. apply stuck_quiescent; auto.
  - intros ls1 s2 s3 Hrun1 Hidle Hs3.
    pose proof (engine_run_invariant _ (PosPh_step _ _) ls1 s1 s2 Hr1 P1 Hrun1)
      as (Hx2 & Hc2 & HN2 & Hpr2 & Hph2).
    pose proof (engine_run_reachable _ _ _ Hr1 Hrun1) as Hr2.
    destruct Hph2 as [Hq|[Hq|[Hq|[Hq|[(Hq & _)|(_ & Hg2 & Hd2)]]]]]; try congruence.
    assert (Ha2 : alive (sst (getg (gos s2) (cur s2))) = false).
    { rewrite Hc2, Hd2. reflexivity. }
    destruct (go_is_answered s2 t s3 Hr2 Hx2 Hidle Hg2 Ha2 Hs3) as (_ & G1 & G2).
    rewrite HN2 in *.
    split; [exact Hg2|split].
    + exact G1.
    + intros ls2 s4 Hm. destruct (G2 ls2 s4 Hm) as (E1 & E2 & E3 & E4 & E5 & E6 & E7 & E8).
      splits; auto.
Qed.
Print Assumptions go_after_bestmove_accepted.

(* ------------------------------------------------------------------ *)
(* 5. when the stdin thread can be blocked, and isready                *)
(* ------------------------------------------------------------------ *)

(* in every join of the stdin thread other than the one of `wait`, the current flag is
   down: ucinewgame / position / go / show reach their join only after the busy check saw
   the flag down (or, ucinewgame, after storing false), stop after storing false - and the
   flag can only be raised by the stdin thread itself, in command_go *)
Definition JoinDown (s : state) : Prop :=
  joinpc (pc s) = true -> pc s <> PWaitJoin -> curflag s = false.

Lemma JoinDown_step : forall s l s', reachable s -> JoinDown s -> step s l = Some s' ->
  JoinDown s'.
Proof.
  intros s l s' Hr HJ Hstep. unfold JoinDown in *.
  destruct l as [cm| |k|k].
  - unfold step, input_step in Hstep. destruct (exited s); [discriminate|].
    destruct (pc s); try discriminate. inversion Hstep; subst s'; simpl.
    destruct cm; simpl; congruence.
  - get_inv s Hr. assert (Hlen : cur s < length (gos s)) by (destruct Hslot; auto).
    destruct s as [p c gs m po gm h o pa ex]; simpl in *.
    unfold curflag in *; simpl in *.
    destruct p; main_compute Hstep; intros Hj Hw; try discriminate; try congruence;
      try (rewrite getg_upd_eq by auto; reflexivity); try (apply HJ; auto).
  - destruct (search_frame _ _ _ Hstep) as (F1 & F2 & _).
    intros Hj Hw. rewrite F1 in *. specialize (HJ Hj Hw).
    unfold curflag in *. rewrite F2.
    destruct (flag (getg (gos s') (cur s))) eqn:E; auto.
    destruct (flag_raised_only_before_timer s _ s' (cur s) Hr Hstep HJ E) as (H & _).
    discriminate.
  - destruct (timer_frame _ _ _ Hstep) as (F1 & F2 & _).
    intros Hj Hw. rewrite F1 in *. specialize (HJ Hj Hw).
    unfold curflag in *. rewrite F2.
    destruct (flag (getg (gos s') (cur s))) eqn:E; auto.
    destruct (flag_raised_only_before_timer s _ s' (cur s) Hr Hstep HJ E) as (H & _).
    discriminate.
Qed.

Lemma JoinDown_run_from : forall ls s s', reachable s -> JoinDown s ->
  run_from s ls = Some s' -> JoinDown s'.
Proof.
  induction ls as [|l t IH]; simpl; intros s s' Hr HJ H.
  - inversion H; subst; auto.
  - destruct (step s l) as [s1|] eqn:E; [|discriminate].
    apply (IH s1 s'); [eapply reachable_step; eauto | eapply JoinDown_step; eauto | auto].
Qed.

Theorem join_flag_down : forall s, reachable s -> joinpc (pc s) = true ->
  pc s <> PWaitJoin -> curflag s = false.
Proof.
  intros s Hr. pose proof Hr as [ls H].
  apply (JoinDown_run_from ls init s reachable_init); auto.
  intros Hj. discriminate.
Qed.

(* the flag of the AWAITED search thread (the slot of the kept JoinHandle) is down in every
   join other than `wait`: the real search that the stdin thread waits for ends at its next
   poll.  No premise "blocked" is needed. *)
Theorem blocked_join_has_flag_down : forall s j, reachable s -> joinpc (pc s) = true ->
  pc s <> PWaitJoin -> handle s = Some j -> flag (getg (gos s) j) = false.
Proof.
  intros s j Hr Hj Hw Hh. pose proof (join_flag_down s Hr Hj Hw) as Hf.
  get_inv s Hr. destruct Hctl as (K1 & _). rewrite Hh in K1. destruct K1 as [-> _]. exact Hf.
Qed.
Print Assumptions blocked_join_has_flag_down.

(* exact characterisation of a blocked stdin thread: it sits in a join on the search
   thread of the current slot, that thread is runnable, and - unless the command is `wait` -
   its flag is down *)
Theorem blocked_main_characterised : forall s, reachable s -> exited s = false ->
  pc s <> PIdle -> step s LMain = None ->
  joinpc (pc s) = true /\ handle s = Some (cur s) /\ step s (LSearch (cur s)) <> None /\
  alive (sst (getg (gos s) (cur s))) = true /\
  (pc s <> PWaitJoin -> curflag s = false).
Proof.
  intros s Hr Hex Hp Hb.
  destruct (blocked_main_waits_for_runnable s Hr Hex Hp Hb) as (Hj & Hh & Hs).
  splits; auto.
  - destruct (step s (LSearch (cur s))) as [s1|] eqn:E; [|congruence].
    destruct (search_step_is_cur s _ s1 Hr E); auto.
  - intros Hw. apply join_flag_down; auto.
Qed.
Print Assumptions blocked_main_characterised.

(* `wait` is the exception, by design (a debugging command: "wait for the search"): the
   stdin thread blocks in its join while the flag is still up; the only enabled engine-side
   label is the search thread itself.  With `go infinite` the real engine stays there. *)
Example ex_wait_blocks_with_flag_up :
  option_map (fun s => (pc s, curflag s, handle s, sst (getg (gos s) (cur s))))
             (run sched_wait_1) = Some (PWaitJoin, true, Some 1, SWaitLock)
  /\ blocked (run sched_wait_1) LMain = true
  /\ option_map (fun s => filter is_engine (enabled s)) (run sched_wait_1) = Some [LSearch 1].
Proof. vm_compute. repeat split; reflexivity. Qed.

(* the flag stays up while the search is searching and `wait` is blocked *)
Example ex_wait_blocks_searching :
  option_map (fun s => (pc s, curflag s, sst (getg (gos s) (cur s)), is_some (step s LMain)))
             (run (sched_wait_1 ++ [LSearch 1])) = Some (PWaitJoin, true, SSearching, false).
Proof. vm_compute. reflexivity. Qed.

(* the stdin thread becomes idle by its own steps and those of the search thread it waits
   for - no timer has to fire - in at most `measure s` steps *)
Definition main_or_search (l : label) : Prop := l = LMain \/ exists i, l = LSearch i.

Lemma idle_dec : forall p : pcT, {p = PIdle} + {p <> PIdle}.
Proof. destruct p; auto; right; discriminate. Qed.

Theorem main_reaches_idle : forall s, reachable s -> exited s = false -> pc s <> PQuit ->
  exists ls s', Forall main_or_search ls /\ run_from s ls = Some s' /\
    pc s' = PIdle /\ exited s' = false /\ length ls <= measure s.
Proof.
  assert (Hgen : forall n s, measure s <= n -> reachable s -> exited s = false -> pc s <> PQuit ->
            exists ls s', Forall main_or_search ls /\ run_from s ls = Some s' /\
              pc s' = PIdle /\ exited s' = false /\ length ls <= measure s).
  2: { intros s. apply (Hgen (measure s)). lia. }
  induction n as [|n IH]; intros s Hle Hr Hex Hq.
  - destruct (idle_dec (pc s)) as [Hp|Hp].
    + exists [], s. simpl. splits; auto. lia.
    + exfalso. unfold measure in Hle. rewrite Hex in Hle.
      destruct (pc s); simpl in Hle; try lia. congruence.
  - destruct (idle_dec (pc s)) as [Hp|Hni].
    + exists [], s. simpl. splits; auto. lia.
    + assert (Hen : exists l, (l = LMain \/ l = LSearch (cur s)) /\ step s l <> None).
      { destruct (main_progress s Hr Hex Hni) as [H|(_ & _ & H)]; eauto. }
      destruct Hen as (l & Hlab & Hen).
      destruct (step s l) as [s1|] eqn:E; [|congruence].
      assert (Hl : engine l) by (destruct Hlab; subst l; auto).
      pose proof (measure_decreases s l s1 E Hl) as Hm.
      pose proof (reachable_step _ _ _ Hr E) as Hr1.
      pose proof (not_exited_after s l s1 Hr E Hq) as Hx1.
      assert (Hq1 : pc s1 <> PQuit)
        by (intros Eq; apply Hq; eapply quit_only_by_input; eauto).
      destruct (IH s1 ltac:(lia) Hr1 Hx1 Hq1) as (ls & s' & Hf & Hrun & Hi & Hx & Hlen).
      exists (l :: ls), s'. simpl. rewrite E. splits; auto; try lia.
      constructor; auto. unfold main_or_search. destruct Hlab; eauto.
Qed.
Print Assumptions main_reaches_idle.

(* isready: unless the process has ended or is about to (quit read), EVERY maximal
   engine-side continuation ends with the stdin thread idle, and there `isready` is
   answered by two steps.  (By `isready_answered` it is answered as soon as the stdin
   thread is idle, and by `main_reaches_idle` that needs only steps of the stdin thread and
   of the search thread it joins.)  In the real engine the only thing that can delay this
   is a search that keeps searching while the stdin thread is in a join - and by
   `blocked_main_characterised` that search has its flag down unless the command is `wait`. *)
Theorem isready_always_answered_eventually : forall s, reachable s -> exited s = false ->
  pc s <> PQuit ->
  (exists ls s', max_engine_run s ls s') /\
  (forall ls s', max_engine_run s ls s' ->
     length ls <= measure s /\ pc s' = PIdle /\ exited s' = false /\
     exists s1 s2, step s' (LInput CIsReady) = Some s1 /\ step s1 LMain = Some s2 /\
       out s2 = EReadyOk :: out s' /\ pc s2 = PIdle).
Proof.
  intros s Hr Hex Hq. split; [apply max_engine_run_exists|].
  intros ls s' [Hrun Hst].
  set (P := fun x : state => exited x = false /\ pc x <> PQuit).
  assert (HP : forall x l x', reachable x -> P x -> engine l -> step x l = Some x' -> P x').
  { intros x l x' Hrx (Hxx & Hqx) Hl Hs. split.
    - eapply not_exited_after; eauto.
    - intros Eq. apply Hqx. eapply quit_only_by_input; eauto. }
  destruct (engine_run_invariant P HP ls s s' Hr (conj Hex Hq) Hrun) as (Hx' & Hq').
  pose proof (engine_run_reachable _ _ _ Hr Hrun) as Hr'.
  pose proof (quiescent_idle s' (stuck_quiescent s' Hr' Hst) Hx') as Hidle.
  splits; auto.
  - eapply no_livelock; eauto.
  - destruct (isready_answered s' Hidle Hx') as (s1 & s2 & A & B & C & D & _).
    exists s1, s2. auto.
Qed.
Print Assumptions isready_always_answered_eventually.

(* ------------------------------------------------------------------ *)
(* 6. no refusal on the way; a constant bound per command              *)
(* ------------------------------------------------------------------ *)

(* on the way of the accepted go / the position after a bestmove the refusing program
   points (`error: search is still running`, `error: No game to play`) are never visited *)
Theorem go_never_refused : forall s t s1 ls s', reachable s -> exited s = false ->
  pc s = PIdle -> game s = true -> alive (sst (getg (gos s) (cur s))) = false ->
  step s (LInput (CGo t)) = Some s1 -> engine_run s1 ls s' ->
  pc s' <> PGoBusy /\ pc s' <> PGoErr /\ exited s' = false.
Proof.
  intros s t s1 ls s' Hr Hex Hp Hg Ha Hs1 Hrun.
  pose proof (reachable_step _ _ _ Hr Hs1) as Hr1.
  assert (P1 : GoPh (length (gos s)) t s1).
  { unfold step, input_step in Hs1. rewrite Hex, Hp in Hs1. inversion Hs1; subst s1; simpl.
    unfold GoPh; simpl. split; [exact Hex|]. left. auto 8. }
  pose proof (engine_run_invariant _ (GoPh_step _ t) ls s1 s' Hr1 P1 Hrun) as (Hx & Hph).
  splits; auto; intros E; rewrite E in Hph;
    repeat match goal with
           | H : _ \/ _ |- _ => destruct H
           | H : _ /\ _ |- _ => destruct H
           end; discriminate.
Qed.

Theorem position_after_bestmove_never_refused : forall s s1 ls s', reachable s ->
  exited s = false -> pc s = PIdle -> In (EBestmove (cur s)) (out s) ->
  step s (LInput (CPosition true)) = Some s1 -> engine_run s1 ls s' ->
  pc s' <> PPosBusy /\ exited s' = false.
Proof.
  intros s s1 ls s' Hr Hex Hp Hin Hs1 Hrun.
  pose proof (reachable_step _ _ _ Hr Hs1) as Hr1.
  assert (Hlen : cur s < length (gos s)).
  { get_inv s Hr. destruct Hslot; auto. }
  assert (Hpr : printed (sst (getg (gos s) (cur s))) = true).
  { apply cnt_In in Hin. rewrite bestmove_count_exact in Hin by auto.
    destruct (printed _); simpl in Hin; auto; lia. }
  assert (P1 : PosPh (cur s) (length (gos s)) s1).
  { unfold step, input_step in Hs1. rewrite Hex, Hp in Hs1. inversion Hs1; subst s1; simpl.
    unfold PosPh; simpl. splits; auto. }
  pose proof (engine_run_invariant _ (PosPh_step _ _) ls s1 s' Hr1 P1 Hrun)
    as (Hx & _ & _ & _ & Hph).
  split; auto. intros E; rewrite E in Hph;
    repeat match goal with
           | H : _ \/ _ |- _ => destruct H
           | H : _ /\ _ |- _ => destruct H
           end; discriminate.
Qed.
Print Assumptions go_never_refused.
Print Assumptions position_after_bestmove_never_refused.

(* the part of the measure that does not count timers: it decreases with every step of the
   stdin thread and of a search thread, a timer step leaves it alone, and it is at most 23
   in a reachable state: 17 (the longest command, go) + 6 (the one live search thread) *)
Definition rk (g : gorec) : nat := rank (sst g).
Definition sl (g : gorec) : nat := tmr (tst g).

Definition work (s : state) : nat :=
  if exited s then 0 else pcm (pc s) + sumg rk (gos s).
Definition sleeping (s : state) : nat := sumg sl (gos s).

Lemma sumg_plus : forall a b l, sumg (fun g => a g + b g) l = sumg a l + sumg b l.
Proof. intros a b l; induction l as [|g t IH]; simpl; lia. Qed.

Lemma measure_split : forall s, exited s = false -> measure s = work s + sleeping s.
Proof.
  intros s Hex. unfold measure, work, sleeping. rewrite Hex.
  change wgt with (fun g => rk g + sl g). rewrite sumg_plus. lia.
Qed.

Lemma sumg_single : forall w l c, c < length l ->
  (forall j, j <> c -> w (getg l j) = 0) -> sumg w l = w (getg l c).
Proof.
  unfold getg; intros w l; induction l as [|g t IH]; intros [|c] Hc H; simpl in *; try lia.
  - assert (Z : sumg w t = 0).
    { clear IH Hc. assert (H' : forall j, w (nth j t gfresh) = 0).
      { intros j. apply (H (S j)). lia. }
      clear H. induction t as [|g' t' IHt]; simpl; auto.
      pose proof (H' 0) as Z0. simpl in Z0. rewrite Z0. simpl. apply IHt. intros j. apply (H' (S j)). }
    lia.
  - rewrite (IH c); try lia.
    + pose proof (H 0 ltac:(lia)) as H0. simpl in H0. lia.
    + intros j Hj. apply (H (S j)). lia.
Qed.

Lemma work_bound : forall s, reachable s -> work s <= 23.
Proof.
  intros s Hr. unfold work. destruct (exited s); [lia|].
  get_inv s Hr. assert (Hlen : cur s < length (gos s)) by (destruct Hslot; auto).
  rewrite (sumg_single rk (gos s) (cur s) Hlen).
  - assert (A : pcm (pc s) <= 17) by (destruct (pc s); simpl; lia).
    assert (B : rk (getg (gos s) (cur s)) <= 6)
      by (unfold rk; destruct (sst _); simpl; lia).
    lia.
  - intros j Hj. unfold rk. destruct (one_search_thread s j Hr Hj) as [E|E]; rewrite E; reflexivity.
Qed.

Lemma sumg_rk_upd_le : forall f l i d,
  (forall g, rk (f g) <= rk g + d) -> sumg rk (upd i f l) <= sumg rk l + d.
Proof.
  intros f l i d H. destruct (lt_dec i (length l)) as [Hi|Hi].
  - pose proof (sumg_upd rk f l i Hi) as E. specialize (H (getg l i)). lia.
  - rewrite upd_overflow by lia. lia.
Qed.

Lemma work_main : forall s s', exited s = false -> main_step s = Some s' -> work s' < work s.
Proof.
  intros [p c gs m po gm h o pa ex] s' Hex Hstep; simpl in *. subst ex.
  unfold main_step in Hstep; simpl in Hstep.
  destruct p; unfold_step Hstep; break_in Hstep; inversion Hstep; subst s'; clear Hstep;
    unfold work; simpl; try lia.
  all: try (match goal with |- context [sumg rk (upd ?i ?f ?l)] =>
              let B := fresh "B" in
              first [ assert (B : sumg rk (upd i f l) <= sumg rk l + 0)
                        by (apply sumg_rk_upd_le; intros [fl ss ts st]; unfold rk; simpl; lia)
                    | assert (B : sumg rk (upd i f l) <= sumg rk l + 6)
                        by (apply sumg_rk_upd_le; intros [fl ss ts st]; unfold rk; simpl; lia) ]
            end; lia).
  - rewrite sumg_app. simpl. unfold rk; simpl. lia.
Qed.

Lemma work_search : forall s i s', exited s = false -> search_step s i = Some s' ->
  work s' < work s.
Proof.
  intros [p c gs m po gm h o pa ex] i s' Hex Hstep; simpl in *. subst ex.
  unfold search_step in Hstep; simpl in Hstep.
  assert (Hi : i < length gs).
  { apply sst_in_range. intros E. rewrite E in Hstep. discriminate. }
  destruct (sst (getg gs i)) eqn:Es; unfold_step Hstep; break_in Hstep;
    inversion Hstep; subst s'; clear Hstep; unfold work; simpl.
  all: apply Nat.add_lt_mono_l;
    match goal with |- sumg rk (upd ?i ?f ?l) < _ =>
      pose proof (sumg_upd rk f l i Hi) as E end;
    unfold rk in *; simpl in *; rewrite Es in E; simpl in E; lia.
Qed.

Theorem work_decreases : forall s l s', step s l = Some s' -> main_or_search l ->
  work s' < work s.
Proof.
  intros s l s' Hstep Hl. unfold step in Hstep.
  destruct (exited s) eqn:Hex; [discriminate|].
  destruct Hl as [->|[i ->]].
  - apply work_main; auto.
  - eapply work_search; eauto.
Qed.

(* bounded response: in a reachable state, the stdin thread and the search threads together
   can take at most 23 steps without new input, whatever the timers do in between *)
Theorem at_most_23_steps : forall ls s s', reachable s -> run_from s ls = Some s' ->
  Forall engine ls -> length (filter (fun l => match l with LTimer _ => false | _ => true end) ls) <= 23.
Proof.
  intros ls s s' Hr Hrun Hf.
  cut (length (filter (fun l => match l with LTimer _ => false | _ => true end) ls) + work s'
       <= work s).
  { pose proof (work_bound s Hr). lia. }
  clear Hr. revert s Hrun Hf. induction ls as [|l t IH]; intros s Hrun Hf; simpl in *.
  - inversion Hrun; subst. lia.
  - destruct (step s l) as [s1|] eqn:E; [|discriminate].
    inversion Hf as [|? ? Hl Ht]; subst.
    specialize (IH s1 Hrun Ht).
    destruct l as [cm| |i|i]; simpl.
    + exfalso. apply (Hl cm); reflexivity.
    + pose proof (work_decreases s LMain s1 E (or_introl eq_refl)). lia.
    + pose proof (work_decreases s (LSearch i) s1 E (or_intror (ex_intro _ i eq_refl))). lia.
    + assert (W : work s1 = work s).
      { destruct s as [p c gs m po gm h o pa ex]. unfold step in E; simpl in E.
        destruct ex; [discriminate|]. unfold timer_step in E; simpl in E.
        destruct (tst (getg gs i)) eqn:Et; try discriminate E.
        assert (Hi : i < length gs) by (apply tst_in_range; congruence).
        inversion E; subst s1. unfold work, upd_slot, set_gos; simpl.
        pose proof (sumg_upd rk g_fire gs i Hi) as U. unfold rk in *; simpl in *. lia. }
      lia.
Qed.
Print Assumptions at_most_23_steps.

Theorem measure_bound : forall s, reachable s -> measure s <= 23 + sleeping s.
Proof.
  intros s Hr. destruct (exited s) eqn:Hex.
  - unfold measure. rewrite Hex. lia.
  - rewrite measure_split by auto. pose proof (work_bound s Hr). lia.
Qed.
Print Assumptions measure_bound.
