(* C10, mate in two, table on: the upper half of iteration 4.  PARTIAL.

   Proved (tableless = false, repaired model):
   - node_parity / root_parity: in an iteration of depth <= 4 of a position without a mate in one, under the
     hypothesis that the hash separates the side to move within four plies of the root (parity_sep_b, a
     closed check; two positions with different sides to move are never the same position, so only a genuine
     64-bit collision violates it): a node with the opponent to move returns at least -30768 when its beta is
     at least -30768, a node with the root's side to move returns at most 30768 when its alpha is at most
     30768, entries under hashes of the first kind stay >= -30768 and entries of the second kind <= 30768;
     the root's score is at most 30768.  Only ONE side of every value is bounded: the other side is polluted by
     the fail-hard window bounds (a node may store its own alpha as best score) and cannot be bounded without
     the flags.
   - C10_table_on_iteration4_partial: after the iterations 1..3 of C10_mate_in_two_table_on_partial, a
     completed fourth iteration has a score <= 30768: it cannot leave through the HIGH exit band, so a
     mate score above the band is first announced at iteration 5.
   MISSING: the lower half of iteration 4 (score >= -30768: it needs "the child after a key returns at
   most 30768", i.e. the OTHER side of the values, hence the consistency of the flags of the entries with
   upper bounds), and iteration 5 altogether.  The same one-sided argument carried to iteration 5 would
   give "no root move scores above 32665" under a further separation of the hashes of the positions at
   ply 1 from those at ply 3; "a root move scoring 32665 is a key" and "a key scores 32665" need the flags. *)
From Coq Require Import Lia FSets.FMapPositive.
From Chess Require Import Model.Search
  Proofs.Grid Proofs.Inv Proofs.Abs Proofs.GenOk Proofs.PushPop Proofs.PushPop2
  Proofs.Reach Proofs.Bounds Proofs.BoundsQ Proofs.BoundsInst Proofs.SearchInv1 Proofs.SearchInv2 Proofs.Top
  Proofs.ScoreRange1 Proofs.ScoreRange2 Proofs.MateOne Proofs.MateTwo Proofs.MateTwoTable Proofs.MateTwoTableOn.
Open Scope Z_scope.

Ltac rk :=
  unfold RK, WK, FH, T_BOUND, S_STAR, SCORE_MIN, SCORE_MAX, MATE_OFFSET_NODE, MATE_OFFSET_DEPTH1,
    MATE_OFFSET_QUIESCENCE, BOUND in *; lia.

Section Parity.
  Variable g0 : game.
  Hypothesis Hg0 : GB g0.
  Hypothesis Hnm : NoMateInOne g0.

  (* the positions k plies below the root, along checked moves *)
  Inductive TPk : nat -> game -> Prop :=
  | tp_root : TPk 0 g0
  | tp_push k c m : TPk k c -> In m (checked_moves c) -> TPk (S k) (push c m).

  Lemma TPk_GB k c : TPk k c -> GB c.
  Proof. induction 1 as [|k c m _ IH Hm]; [exact Hg0 | now apply GB_push_checked]. Qed.

  Lemma TPk_1 c : TPk 1 c -> exists m, In m (checked_moves g0) /\ c = push g0 m.
  Proof.
    intros H. inversion H as [|k c' m H' Hm Ek Ec]. subst. inversion H'. subst. exists m. now split.
  Qed.

  Definition OddH (h : N) : Prop := exists k c, (k <= 4)%nat /\ Nat.odd k = true /\ TPk k c /\ g_hash c = h.
  Definition EvenH (h : N) : Prop := exists k c, (k <= 4)%nat /\ Nat.odd k = false /\ TPk k c /\ g_hash c = h.

  (* the hash separates the side to move within four plies of the root (no collision across parities) *)
  Hypothesis Sep : forall h, OddH h -> EvenH h -> False.

  (* entries under the hash of a position with the opponent to move are at least -30768, entries under the
     hash of a position with the root's side to move at most 30768 *)
  Definition PE (h : N) (e : entry) : Prop :=
    (OddH h -> - T_BOUND <= e_score e) /\ (EvenH h -> e_score e <= T_BOUND).
  Definition PT (st : sstate) : Prop := TableAll PE (s_tbl st).

  Lemma PT_poll st : PT st -> PT (poll st).
  Proof. apply TableAll_poll. Qed.

  Lemma read_odd e r : 0 <= r <= 255 -> - T_BOUND <= e -> - T_BOUND <= score_from_table e r.
  Proof.
    intros Hr He. unfold score_from_table, TABLE_MATE_MARGIN.
    destruct (SCORE_MAX - 1000 <? e) eqn:E1; [apply Z.ltb_lt in E1; rk|].
    destruct (e <? SCORE_MIN + 1000) eqn:E2; [apply Z.ltb_lt in E2; rk | exact He].
  Qed.
  Lemma read_even e r : 0 <= r <= 255 -> e <= T_BOUND -> score_from_table e r <= T_BOUND.
  Proof.
    intros Hr He. unfold score_from_table, TABLE_MATE_MARGIN.
    destruct (SCORE_MAX - 1000 <? e) eqn:E1; [apply Z.ltb_lt in E1; rk|].
    destruct (e <? SCORE_MIN + 1000) eqn:E2; [apply Z.ltb_lt in E2; rk | exact He].
  Qed.
  Lemma store_odd s r : 0 <= r <= 255 -> - T_BOUND <= s -> - T_BOUND <= score_to_table s r.
  Proof.
    intros Hr He. unfold score_to_table, TABLE_MATE_MARGIN.
    destruct (SCORE_MAX - 1000 <? s) eqn:E1; [apply Z.ltb_lt in E1; rk|].
    destruct (s <? SCORE_MIN + 1000) eqn:E2; [apply Z.ltb_lt in E2; rk | exact He].
  Qed.
  Lemma store_even s r : 0 <= r <= 255 -> s <= T_BOUND -> score_to_table s r <= T_BOUND.
  Proof.
    intros Hr He. unfold score_to_table, TABLE_MATE_MARGIN.
    destruct (SCORE_MAX - 1000 <? s) eqn:E1; [apply Z.ltb_lt in E1; rk|].
    destruct (s <? SCORE_MIN + 1000) eqn:E2; [apply Z.ltb_lt in E2; rk | exact He].
  Qed.

  (* what a node k plies below the root delivers *)
  Definition parres (k : nat) (x : outcome Z * sstate) : Prop :=
    match x with
    | (Done s, st') => PT st' /\ (Nat.odd k = true -> - T_BOUND <= s) /\ (Nat.odd k = false -> s <= T_BOUND)
    | (Aborted sa, st') => st' = sa /\ PT sa
    | (OutOfFuel, st') => PT st'
    end.

  (* ---- the move loop of a node with the opponent to move (odd ply): the first score decides ---- *)
  Section OddLoop.
    Variable rec : nrec.
    Variable c : game.
    Variables real beta : Z.
    Hypothesis Hbeta : - T_BOUND <= beta.
    Hypothesis rec_ok : forall m st a b, In m (checked_moves c) -> PT st -> a <= T_BOUND ->
      match rec (push c m) st (real + 1) a b with
      | (Done s, st') => PT st' /\ s <= T_BOUND
      | (Aborted sa, st') => st' = sa /\ PT sa
      | (OutOfFuel, st') => PT st'
      end.

    Definition LOdd (l : lstate) : Prop := PT (l_st l) /\ - T_BOUND <= l_alpha l /\ - T_BOUND <= l_bscore l.
    Definition lresO (o : outcome lstate) : Prop :=
      match o with Done l => LOdd l | Aborted sa => PT sa | OutOfFuel => True end.

    Lemma odd_step m index l :
      In m (checked_moves c) -> (index = 0 /\ PT (l_st l)) \/ LOdd l ->
      lresO (node_step rec c real beta m index l).
    Proof.
      intros Hm H. unfold node_step.
      destruct H as [[-> HT] | (HT & Ha & Hb)].
      - change (0 <=? PVS_FULL_WINDOW_LAST_INDEX) with true. cbv iota.
        pose proof (rec_ok m (l_st l) (- beta) (- l_alpha l) Hm HT ltac:(lia)) as H1.
        destruct (rec (push c m) (l_st l) (real + 1) (- beta) (- l_alpha l)) as [[s|sa|] st1]; cbn [lresO].
        + destruct H1 as [HT1 Hs].
          destruct (l_bscore l <? - s) eqn:E; [apply Z.ltb_lt in E | apply Z.ltb_ge in E];
            cbv beta iota zeta; cbn [lresO]; unfold LOdd; cbn [l_st l_alpha l_bscore]; (split; [exact HT1|]); lia.
        + apply H1.
        + exact I.
      - destruct (index <=? PVS_FULL_WINDOW_LAST_INDEX).
        + pose proof (rec_ok m (l_st l) (- beta) (- l_alpha l) Hm HT ltac:(lia)) as H1.
          destruct (rec (push c m) (l_st l) (real + 1) (- beta) (- l_alpha l)) as [[s|sa|] st1]; cbn [lresO].
          * destruct H1 as [HT1 Hs].
            destruct (l_bscore l <? - s) eqn:E; [apply Z.ltb_lt in E | apply Z.ltb_ge in E];
              cbv beta iota zeta; cbn [lresO]; unfold LOdd; cbn [l_st l_alpha l_bscore]; (split; [exact HT1|]); lia.
          * apply H1.
          * exact I.
        + pose proof (rec_ok m (l_st l) (- l_alpha l - 1) (- l_alpha l) Hm HT ltac:(lia)) as H1.
          destruct (rec (push c m) (l_st l) (real + 1) (- l_alpha l - 1) (- l_alpha l)) as [[s|sa|] st1]; cbn [lresO].
          * destruct H1 as [HT1 Hs]. destruct (l_bscore l <? - s).
            -- pose proof (rec_ok m st1 (- beta) (- - s) Hm HT1 ltac:(lia)) as H2.
               destruct (rec (push c m) st1 (real + 1) (- beta) (- - s)) as [[s2|sa2|] st2]; cbn [lresO].
               ++ destruct H2 as [HT2 Hs2]. unfold LOdd. cbn [l_st l_alpha l_bscore]. split; [exact HT2|]. lia.
               ++ apply H2.
               ++ exact I.
            -- cbn [lresO]. unfold LOdd. cbn [l_st l_alpha l_bscore]. split; [exact HT1|]. lia.
          * apply H1.
          * exact I.
    Qed.

    Lemma odd_loop remaining : forall ms index l,
      incl ms (checked_moves c) -> (index = 0 /\ PT (l_st l) /\ ms <> []) \/ LOdd l ->
      lresO (node_loop rec c real beta remaining ms index l).
    Proof.
      induction ms as [|m rest IH]; intros index l Hincl H.
      - rewrite node_loop_nil. cbn [lresO]. destruct H as [(_ & _ & Hne)|H]; [congruence | exact H].
      - rewrite node_loop_cons.
        assert (Hm : In m (checked_moves c)) by (apply Hincl; now left).
        assert (Hs : lresO (node_step rec c real beta m index l)).
        { apply odd_step; [exact Hm|]. destruct H as [(H1 & H2 & _)|H]; [left; now split | now right]. }
        destruct (node_step rec c real beta m index l) as [l'|sa|]; cbn [lresO] in Hs.
        + destruct (beta <=? l_alpha l').
          * cbn [lresO]. unfold node_cutoff, LOdd in *. cbn [l_st l_alpha l_bscore]. exact Hs.
          * apply IH; [intros x Hx; apply Hincl; now right | now right].
        + exact Hs.
        + exact I.
    Qed.
  End OddLoop.

  (* ---- the move loop of a node with the root's side to move (even ply): every score is bounded ---- *)
  Section EvenLoop.
    Variable rec : nrec.
    Variable c : game.
    Variables real beta : Z.
    Hypothesis rec_ok : forall m st a b, In m (checked_moves c) -> PT st -> - T_BOUND <= b ->
      match rec (push c m) st (real + 1) a b with
      | (Done s, st') => PT st' /\ - T_BOUND <= s
      | (Aborted sa, st') => st' = sa /\ PT sa
      | (OutOfFuel, st') => PT st'
      end.

    Definition LEven (l : lstate) : Prop := PT (l_st l) /\ l_alpha l <= T_BOUND /\ l_bscore l <= T_BOUND.
    Definition lresE (o : outcome lstate) : Prop :=
      match o with Done l => LEven l | Aborted sa => PT sa | OutOfFuel => True end.

    Lemma even_step m index l :
      In m (checked_moves c) -> LEven l -> lresE (node_step rec c real beta m index l).
    Proof.
      intros Hm (HT & Ha & Hb). unfold node_step.
      destruct (index <=? PVS_FULL_WINDOW_LAST_INDEX).
      - pose proof (rec_ok m (l_st l) (- beta) (- l_alpha l) Hm HT ltac:(lia)) as H1.
        destruct (rec (push c m) (l_st l) (real + 1) (- beta) (- l_alpha l)) as [[s|sa|] st1]; cbn [lresE].
        + destruct H1 as [HT1 Hs].
          destruct (l_bscore l <? - s); cbv beta iota zeta; cbn [lresE]; unfold LEven; cbn [l_st l_alpha l_bscore];
            (split; [exact HT1|]); lia.
        + apply H1.
        + exact I.
      - pose proof (rec_ok m (l_st l) (- l_alpha l - 1) (- l_alpha l) Hm HT ltac:(lia)) as H1.
        destruct (rec (push c m) (l_st l) (real + 1) (- l_alpha l - 1) (- l_alpha l)) as [[s|sa|] st1]; cbn [lresE].
        + destruct H1 as [HT1 Hs]. destruct (l_bscore l <? - s).
          * pose proof (rec_ok m st1 (- beta) (- - s) Hm HT1 ltac:(lia)) as H2.
            destruct (rec (push c m) st1 (real + 1) (- beta) (- - s)) as [[s2|sa2|] st2]; cbn [lresE].
            -- destruct H2 as [HT2 Hs2]. unfold LEven. cbn [l_st l_alpha l_bscore]. split; [exact HT2|]. lia.
            -- apply H2.
            -- exact I.
          * cbn [lresE]. unfold LEven. cbn [l_st l_alpha l_bscore]. split; [exact HT1|]. lia.
        + apply H1.
        + exact I.
    Qed.

    Lemma even_loop remaining : forall ms index l,
      incl ms (checked_moves c) -> LEven l -> lresE (node_loop rec c real beta remaining ms index l).
    Proof.
      induction ms as [|m rest IH]; intros index l Hincl H.
      - rewrite node_loop_nil. exact H.
      - rewrite node_loop_cons.
        assert (Hm : In m (checked_moves c)) by (apply Hincl; now left).
        pose proof (even_step m index l Hm H) as Hs.
        destruct (node_step rec c real beta m index l) as [l'|sa|]; cbn [lresE] in Hs.
        + destruct (beta <=? l_alpha l').
          * cbn [lresE]. unfold node_cutoff, LEven in *. cbn [l_st l_alpha l_bscore]. exact Hs.
          * apply IH; [intros x Hx; apply Hincl; now right | exact Hs].
        + exact Hs.
        + exact I.
    Qed.
  End EvenLoop.

  Lemma odd_S k : Nat.odd (S k) = negb (Nat.odd k).
  Proof. rewrite Nat.odd_succ, <- Nat.negb_odd. reflexivity. Qed.

  Lemma PE_odd c k e : TPk k c -> (k <= 4)%nat -> Nat.odd k = true -> - T_BOUND <= e_score e -> PE (g_hash c) e.
  Proof.
    intros Hc Hk Ho He. split; [intros _; exact He|]. intros HE. exfalso.
    apply (Sep (g_hash c)); [exists k, c; repeat split; assumption | exact HE].
  Qed.
  Lemma PE_even c k e : TPk k c -> (k <= 4)%nat -> Nat.odd k = false -> e_score e <= T_BOUND -> PE (g_hash c) e.
  Proof.
    intros Hc Hk Ho He. split; [|intros _; exact He]. intros HO. exfalso.
    apply (Sep (g_hash c)); [exact HO | exists k, c; repeat split; assumption].
  Qed.

  (* a node k >= 1 plies below the root in an iteration of depth <= 4 *)
  Lemma node_parity : forall rem k c st a b,
    TPk k c -> (1 <= k)%nat -> (rem + k <= 4)%nat -> PT st ->
    (Nat.odd k = true -> - T_BOUND <= b) -> (Nat.odd k = false -> a <= T_BOUND) ->
    parres k (node rem c st (Z.of_nat k) a b).
  Proof.
    induction rem as [|rem IH]; intros k c st a b Hc Hk1 Hsum HT Hb Ha; rewrite node_unfold;
      pose proof (PT_poll st HT) as HTp; pose proof (TPk_GB k c Hc) as Hg;
      (destruct (s_running (poll st)); cbn [negb]; [|cbn [parres]; split; [reflexivity | exact HTp]]);
      unfold node_body;
      (destruct (probe (node_entry c (poll st) (Z.of_nat k)) _ a b) as [sp|] eqn:Ep;
       [apply probe_some in Ep; destruct Ep as (en & Ef & ->); cbn [parres];
        apply node_entry_some in Ef; destruct Ef as (en0 & Ef & ->); cbn [entry_from_table e_score];
        split; [exact HTp|]; destruct (HTp _ _ Ef) as [HO HE]; split; intros Ek;
        [apply read_odd; [lia | apply HO; exists k, c; repeat split; [lia | exact Ek | exact Hc]]
        |apply read_even; [lia | apply HE; exists k, c; repeat split; [lia | exact Ek | exact Hc]]] |]).
    - destruct (quiescence QFUEL c a b (Z.of_nat k)) as [s|] eqn:Eq; cbn [lift parres]; [|exact HTp].
      split; [exact HTp|]. pose proof (quiescence_FH QFUEL c a b (Z.of_nat k) s Hg ltac:(lia) Eq) as H.
      unfold FH in H. split; intros Ek; [specialize (Hb Ek) | specialize (Ha Ek)]; lia.
    - destruct rem as [|r].
      + destruct (depth1 c a b (Z.of_nat k)) as [s|] eqn:Eq; cbn [lift parres]; [|exact HTp].
        split; [exact HTp|]. pose proof (depth1_FH c a b (Z.of_nat k) s Hg ltac:(lia) Eq) as H.
        unfold FH in H. split; intros Ek; [specialize (Hb Ek) | specialize (Ha Ek)]; lia.
      + rewrite node_deep_eq. destruct (checked_moves c) as [|m0 ms0] eqn:Ecm.
        * cbn [parres]. split; [exact HTp|]. split; intros Ek.
          -- assert (k = 1)%nat by (destruct k as [|[|[|k]]]; try lia; cbn in Ek; congruence). subst k.
             destruct (TPk_1 c Hc) as (m & Hm & ->).
             pose proof (Hnm m Hm) as Hn. rewrite (mated_b_dead _ Ecm) in Hn.
             apply Bool.negb_false_iff in Hn. unfold no_move_score.
             change (king_exists (push g0 m) (g_player (push g0 m)) &&
                     negb (is_targeted (push g0 m) (king_pos (push g0 m) (g_player (push g0 m))) (g_player (push g0 m))))
               with (RefSearch.side_safe (push g0 m)).
             rewrite Hn. rk.
          -- unfold no_move_score. destruct (king_exists c (g_player c) && _); rk.
        * assert (Hincl : incl (node_sorted c (poll st) (Z.of_nat k)) (checked_moves c)).
          { intros x Hx. unfold node_sorted, node_sorted_of in Hx. apply sort_moves_in in Hx. exact Hx. }
          assert (Hne : node_sorted c (poll st) (Z.of_nat k) <> []).
          { intros E. unfold node_sorted, node_sorted_of in E. apply sort_moves_nil in E. congruence. }
          assert (Hrec : forall m st' a' b', In m (checked_moves c) -> PT st' ->
                    (Nat.odd (S k) = true -> - T_BOUND <= b') -> (Nat.odd (S k) = false -> a' <= T_BOUND) ->
                    parres (S k) (node (S r) (push c m) st' (Z.of_nat k + 1) a' b')).
          { intros m st' a' b' Hm HT' Hb' Ha'. replace (Z.of_nat k + 1) with (Z.of_nat (S k)) by lia.
            apply IH; try assumption; [now apply tp_push | lia | lia]. }
          destruct (Nat.odd k) eqn:Ek.
          -- pose proof (odd_loop (node (S r)) c (Z.of_nat k) b (Hb eq_refl)) as HL.
             assert (Hok : forall m st' a' b', In m (checked_moves c) -> PT st' -> a' <= T_BOUND ->
                       match node (S r) (push c m) st' (Z.of_nat k + 1) a' b' with
                       | (Done s, st'') => PT st'' /\ s <= T_BOUND
                       | (Aborted sa, st'') => st'' = sa /\ PT sa
                       | (OutOfFuel, st'') => PT st''
                       end).
             { intros m st' a' b' Hm HT' Ha'.
               pose proof (Hrec m st' a' b' Hm HT') as H. rewrite odd_S, Ek in H. cbn [negb] in H.
               specialize (H ltac:(discriminate) (fun _ => Ha')).
               destruct (node (S r) (push c m) st' (Z.of_nat k + 1) a' b') as [[s|sa|] st'']; cbn [parres] in H;
                 [destruct H as (H1 & H2 & H3); split; [exact H1 | apply H3; rewrite odd_S, Ek; reflexivity] | exact H | exact H]. }
             specialize (HL Hok (Z.of_nat (S (S r))) (node_sorted c (poll st) (Z.of_nat k)) 0
                           (mkL a None SCORE_MIN (poll st)) Hincl
                           (or_introl (conj eq_refl (conj HTp Hne)))).
             destruct (node_loop _ _ _ _ _ _ _ _) as [l|sa|]; cbn [lresO] in HL; cbn [node_finish parres].
             ++ destruct HL as (HTl & Hal & Hbl). split; [|split; [intros _; exact Hal | intros Hx; congruence]].
                unfold PT. cbn [with_tbl s_tbl]. apply TableAll_store_node; [exact HTl|].
                apply (PE_odd c k); [exact Hc | lia | exact Ek|]. cbn [e_score]. apply store_odd; [lia | exact Hbl].
             ++ split; [reflexivity | exact HL].
             ++ exact HTp.
          -- pose proof (even_loop (node (S r)) c (Z.of_nat k) b) as HL.
             assert (Hok : forall m st' a' b', In m (checked_moves c) -> PT st' -> - T_BOUND <= b' ->
                       match node (S r) (push c m) st' (Z.of_nat k + 1) a' b' with
                       | (Done s, st'') => PT st'' /\ - T_BOUND <= s
                       | (Aborted sa, st'') => st'' = sa /\ PT sa
                       | (OutOfFuel, st'') => PT st''
                       end).
             { intros m st' a' b' Hm HT' Hb'.
               pose proof (Hrec m st' a' b' Hm HT') as H. rewrite odd_S, Ek in H. cbn [negb] in H.
               specialize (H (fun _ => Hb') ltac:(discriminate)).
               destruct (node (S r) (push c m) st' (Z.of_nat k + 1) a' b') as [[s|sa|] st'']; cbn [parres] in H;
                 [destruct H as (H1 & H2 & H3); split; [exact H1 | apply H2; rewrite odd_S, Ek; reflexivity] | exact H | exact H]. }
             specialize (HL Hok (Z.of_nat (S (S r))) (node_sorted c (poll st) (Z.of_nat k)) 0
                           (mkL a None SCORE_MIN (poll st)) Hincl).
             assert (Hinit : LEven (mkL a None SCORE_MIN (poll st))).
             { unfold LEven. cbn [l_st l_alpha l_bscore]. split; [exact HTp|]. split; [now apply Ha | rk]. }
             specialize (HL Hinit).
             destruct (node_loop _ _ _ _ _ _ _ _) as [l|sa|]; cbn [lresE] in HL; cbn [node_finish parres].
             ++ destruct HL as (HTl & Hal & Hbl). split; [|split; [intros Hx; congruence | intros _; exact Hal]].
                unfold PT. cbn [with_tbl s_tbl]. apply TableAll_store_node; [exact HTl|].
                apply (PE_even c k); [exact Hc | lia | exact Ek|]. cbn [e_score]. apply store_even; [lia | exact Hbl].
             ++ split; [reflexivity | exact HL].
             ++ exact HTp.
  Qed.
End Parity.

(* ---- the root of an iteration of depth <= 4 ------------------------------------------------------------------------ *)
Section RootParity.
  Variable g0 : game.
  Hypothesis Hg0 : GB g0.
  Hypothesis Hnm : NoMateInOne g0.
  Hypothesis Sep : forall h, OddH g0 h -> EvenH g0 h -> False.
  Variable d : nat.
  Hypothesis Hd : (1 <= d <= 4)%nat.

  Definition RPar (r : rstate) : Prop := PT g0 (r_st r) /\ r_bscore r <= T_BOUND.
  Definition rresP (o : outcome rstate) : Prop :=
    match o with Done r => RPar r | Aborted sa => PT g0 sa | OutOfFuel => True end.

  Lemma child_call m st a b :
    In m (checked_moves g0) -> PT g0 st -> - T_BOUND <= b ->
    match node (pred d) (push g0 m) st 1 a b with
    | (Done s, st') => PT g0 st' /\ - T_BOUND <= s
    | (Aborted sa, st') => st' = sa /\ PT g0 sa
    | (OutOfFuel, st') => PT g0 st'
    end.
  Proof.
    intros Hm HT Hb.
    pose proof (node_parity g0 Hg0 Hnm Sep (pred d) 1 (push g0 m) st a b
                  (tp_push g0 0 g0 m (tp_root g0) Hm) ltac:(lia) ltac:(lia) HT (fun _ => Hb)
                  ltac:(cbn; discriminate)) as H.
    change (Z.of_nat 1) with 1 in H.
    destruct (node (pred d) (push g0 m) st 1 a b) as [[s|sa|] st']; cbn [parres] in H.
    - destruct H as (H1 & H2 & _). split; [exact H1 | apply H2; reflexivity].
    - exact H.
    - exact H.
  Qed.

  Lemma root_step_parity m index r :
    In m (checked_moves g0) -> RPar r -> rresP (root_step g0 (pred d) m index r).
  Proof.
    intros Hm [HT Hb]. unfold root_step.
    destruct (index <=? ROOT_FULL_WINDOW_LAST_INDEX).
    - pose proof (child_call m (r_st r) (SCORE_MIN + 1) (- r_bscore r) Hm HT ltac:(lia)) as H1.
      destruct (node (pred d) (push g0 m) (r_st r) 1 (SCORE_MIN + 1) (- r_bscore r)) as [[s|sa|] st1]; cbn [rresP].
      + destruct H1 as [HT1 Hs]. destruct (r_bscore r <? - s); cbn [rresP]; unfold RPar; cbn [r_st r_bscore];
          (split; [exact HT1 | lia]).
      + apply H1.
      + exact I.
    - pose proof (child_call m (r_st r) (- r_bscore r - 1) (- r_bscore r) Hm HT ltac:(lia)) as H1.
      destruct (node (pred d) (push g0 m) (r_st r) 1 (- r_bscore r - 1) (- r_bscore r)) as [[s|sa|] st1]; cbn [rresP].
      + destruct H1 as [HT1 Hs]. destruct (r_bscore r <? - s).
        * pose proof (child_call m st1 (SCORE_MIN + 1) (- - s) Hm HT1 ltac:(lia)) as H2.
          destruct (node (pred d) (push g0 m) st1 1 (SCORE_MIN + 1) (- - s)) as [[s2|sa2|] st2]; cbn [rresP].
          -- destruct H2 as [HT2 Hs2]. unfold RPar. cbn [r_st r_bscore]. split; [exact HT2 | lia].
          -- apply H2.
          -- exact I.
        * cbn [rresP]. unfold RPar. cbn [r_st r_bscore]. split; [exact HT1 | exact Hb].
      + apply H1.
      + exact I.
  Qed.

  Lemma root_loop_parity : forall ms index r,
    incl ms (checked_moves g0) -> RPar r -> rresP (root_loop g0 (pred d) ms index r).
  Proof.
    induction ms as [|m rest IH]; intros index r Hincl H.
    - rewrite root_loop_nil. exact H.
    - rewrite root_loop_cons.
      pose proof (root_step_parity m index r (Hincl m (or_introl eq_refl)) H) as Hs.
      destruct (root_step g0 (pred d) m index r) as [r1|sa|]; cbn [rresP] in Hs; [|exact Hs|exact I].
      apply IH; [intros x Hx; apply Hincl; now right | exact Hs].
  Qed.

  (* a completed root call of depth <= 4: the table invariant is kept and the score is at most 30768 *)
  Theorem root_parity st :
    PT g0 st ->
    match root g0 st d with
    | (Done (_, score, _), st') => PT g0 st' /\ score <= T_BOUND
    | (Aborted sa, st') => st' = sa /\ PT g0 sa
    | (OutOfFuel, st') => True
    end.
  Proof.
    intros HT. rewrite root_unfold.
    assert (Heven : EvenH g0 (g_hash g0)) by (exists 0%nat, g0; repeat split; [lia | apply tp_root]).
    assert (Hmain : match root_main g0 st d with
                    | (Done (_, score, _), st') => PT g0 st' /\ score <= T_BOUND
                    | (Aborted sa, st') => st' = sa /\ PT g0 sa
                    | (OutOfFuel, st') => True
                    end).
    { unfold root_main. cbv zeta. assert (HT0 : PT g0 (root_clear st)) by exact HT.
      destruct (root_hit (tfind (s_tbl (root_clear st)) (g_hash g0)) d) as [en|] eqn:Eh.
      - apply root_hit_some in Eh. destruct Eh as (E1 & _ & _). split; [exact HT0|].
        exact (proj2 (HT0 _ _ E1) Heven).
      - pose proof (root_loop_parity (root_sorted g0 (root_clear st)) 0 (mkR None (SCORE_MIN + 1) (root_clear st))
                      (root_sorted_incl' g0 (root_clear st))) as HL.
        assert (Hinit : RPar (mkR None (SCORE_MIN + 1) (root_clear st))).
        { split; [exact HT0 | cbn [r_bscore]; rk]. }
        specialize (HL Hinit).
        destruct (root_loop _ _ _ _ _) as [r|sa|]; cbn [rresP] in HL; cbn [root_finish].
        + destruct HL as [HTr Hbr]. split; [|exact Hbr].
          destruct (r_best r); [|exact HTr]. unfold PT. cbn [with_tbl s_tbl].
          apply TableAll_store_root; [exact HTr|].
          split; [|intros _; exact Hbr]. intros HO. exfalso. exact (Sep _ HO Heven).
        + split; [reflexivity | exact HL].
        + exact I. }
    destruct (checked_moves g0) as [|m [|m' t]]; [exact Hmain | | exact Hmain].
    split; [exact HT | rk].
  Qed.
End RootParity.

(* the table left by the first three iterations (C10_mate_in_two_table_on_partial) satisfies the invariant *)
Lemma TH_PT g st : TH g T_BOUND (s_tbl st) -> PT g st.
Proof.
  intros H h e Hf. destruct (H h e Hf) as [_ [H1 H2]]. split; intros _; assumption.
Qed.

(* PARTIAL: the fourth iteration cannot leave through the HIGH exit band *)
Theorem C10_table_on_iteration4_partial g limit stop_at :
  GB g -> NoMateInOne g -> Limit5OK limit -> stop_at < 0 ->
  (2 <= length (checked_moves g))%nat -> repetition_filter g (checked_moves g) <> [] ->
  (forall h, OddH g h -> EvenH g h -> False) ->
  exists b1 s1 st1 b2 s2 st2 b3 s3 st3 n,
    driver_iterations g tempty limit stop_at false =
      mkIt 1 (fresh_state tempty stop_at false) (IDone (Some b1) s1 false) :: mkIt 2 st1 (IDone (Some b2) s2 false) ::
      mkIt 3 st2 (IDone (Some b3) s3 false) :: driver_trace n g st3 4 limit /\
    RK T_BOUND s1 /\ RK T_BOUND s2 /\ RK T_BOUND s3 /\
    forall b4 s4 o4 st4, root g st3 4 = (Done (b4, s4, o4), st4) -> s4 <= T_BOUND /\ PT g st4.
Proof.
  intros Hg Hnm HL Hstop Hlen Hflt Sep.
  destruct (C10_mate_in_two_table_on_partial g limit stop_at Hg Hnm HL Hstop Hlen Hflt)
    as (b1 & s1 & st1 & b2 & s2 & st2 & b3 & s3 & st3 & n & E & R1 & R2 & R3 & Hns & HT).
  exists b1, s1, st1, b2, s2, st2, b3, s3, st3, n.
  split; [exact E|]. split; [exact R1|]. split; [exact R2|]. split; [exact R3|].
  intros b4 s4 o4 st4 E4.
  pose proof (root_parity g Hg Hnm Sep 4 ltac:(lia) st3 (TH_PT g st3 HT)) as H. rewrite E4 in H.
  destruct H as [H1 H2]. split; [exact H2 | exact H1].
Qed.

(* ---- the separation hypothesis as a closed check ------------------------------------------------------------------- *)
Fixpoint level (g : game) (k : nat) : list game :=
  match k with
  | O => [g]
  | S k' => flat_map (fun c => map (push c) (checked_moves c)) (level g k')
  end.

Lemma TPk_level g k c : TPk g k c -> In c (level g k).
Proof.
  induction 1 as [|k c m _ IH Hm]; [now left|].
  cbn [level]. apply in_flat_map. exists c. split; [exact IH|]. now apply in_map.
Qed.

Definition parity_sep_b (g : game) : bool :=
  let odds := map g_hash (level g 1 ++ level g 3) in
  let evens := map g_hash (level g 0 ++ level g 2 ++ level g 4) in
  forallb (fun h => negb (existsb (N.eqb h) evens)) odds.

Lemma parity_sep_b_ok g : parity_sep_b g = true -> forall h, OddH g h -> EvenH g h -> False.
Proof.
  unfold parity_sep_b. intros H h (k & c & Hk & Ho & Hc & <-) (k' & c' & Hk' & Ho' & Hc' & E).
  rewrite forallb_forall in H.
  assert (Hin : In (g_hash c) (map g_hash (level g 1 ++ level g 3))).
  { apply in_map, in_or_app. apply TPk_level in Hc.
    destruct k as [|[|[|[|[|k]]]]]; try lia; cbn in Ho; try discriminate; [left | right]; exact Hc. }
  specialize (H _ Hin). apply Bool.negb_true_iff in H.
  assert (Hex : existsb (N.eqb (g_hash c)) (map g_hash (level g 0 ++ level g 2 ++ level g 4)) = true).
  { apply existsb_exists. exists (g_hash c'). split; [|apply N.eqb_eq; now symmetry].
    apply in_map. apply TPk_level in Hc'.
    destruct k' as [|[|[|[|[|k']]]]]; try lia; cbn in Ho'; try discriminate;
      [apply in_or_app; left | apply in_or_app; right; apply in_or_app; left
      | apply in_or_app; right; apply in_or_app; right]; exact Hc'. }
  congruence.
Qed.

Example pawn_m2_parity_sep : parity_sep_b PAWN_M2 = true.
Proof. vm_compute. reflexivity. Qed.

Example pawn_m2_iteration4 limit :
  Limit5OK limit ->
  exists st3, forall b4 s4 o4 st4, root PAWN_M2 st3 4 = (Done (b4, s4, o4), st4) -> s4 <= T_BOUND.
Proof.
  intros HL. destruct pawn_m2_hyps as (_ & H1 & _).
  destruct (C10_table_on_iteration4_partial PAWN_M2 limit (-1) pawn_m2_good (no_mate_in_one_b_ok _ H1) HL
              ltac:(lia)) as (b1 & s1 & st1 & b2 & s2 & st2 & b3 & s3 & st3 & n & _ & _ & _ & _ & H).
  - vm_compute. lia.
  - vm_compute. discriminate.
  - apply parity_sep_b_ok. exact pawn_m2_parity_sep.
  - exists st3. intros b4 s4 o4 st4 E. exact (proj1 (H b4 s4 o4 st4 E)).
Qed.

Print Assumptions node_parity.
Print Assumptions root_parity.
Print Assumptions C10_table_on_iteration4_partial.
Print Assumptions parity_sep_b_ok.
Print Assumptions pawn_m2_iteration4.
