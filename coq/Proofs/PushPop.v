(* Take-back: push keeps the representation invariant, pop undoes push exactly (whole record),
   the move filter and get_moves leave the game unchanged. *)
From Coq Require Import Lia.
From Chess Require Import Model.MoveGen Proofs.Grid Proofs.Inv.
Open Scope Z_scope.

(* ---- facts about generated constants (re-checked when the tables are regenerated) ------------- *)

Lemma endgame_swap_kind_king : endgame_swap_kind = King.
Proof. reflexivity. Qed.

Lemma color_sign_white : color_sign White = 1.
Proof. reflexivity. Qed.
Lemma color_sign_black : color_sign Black = -1.
Proof. reflexivity. Qed.

Lemma piece_score_kend k1 k2 pc p : pk pc <> King -> piece_score k1 pc p = piece_score k2 pc p.
Proof.
  intros H. unfold piece_score, table_for. rewrite endgame_swap_kind_king.
  assert (kind_eqb (pk pc) King = false) as ->.
  { destruct (kind_eqb (pk pc) King) eqn:E; [apply kind_eqb_eq in E; contradiction | reflexivity]. }
  rewrite !andb_false_r. reflexivity.
Qed.

Lemma side_key_other c : side_key (other c) = N.lxor (side_key c) KEY_BLACK_TO_MOVE.
Proof. destruct c; cbn [side_key other]; [now rewrite N.lxor_0_l | now rewrite N.lxor_nilpotent]. Qed.

Lemma other_other c : other (other c) = c.
Proof. destruct c; reflexivity. Qed.

Lemma other_neq c : other c <> c.
Proof. destruct c; discriminate. Qed.

Lemma ep_rows_valid o c : 0 <= c < 8 -> valid (fst (ep_rows o), c) /\ valid (snd (ep_rows o), c).
Proof. intros H. destruct o; unfold valid; cbn [ep_rows fst snd]; lia. Qed.

Lemma ep_rows_neq o : fst (ep_rows o) <> snd (ep_rows o).
Proof. destruct o; cbn [ep_rows fst snd]; lia. Qed.

Lemma home_row_valid o c : 0 <= c < 8 -> valid (home_row o, c).
Proof. intros H. destruct o; unfold valid; cbn [home_row fst snd]; lia. Qed.

Lemma home_row_other o : home_row (other o) <> home_row o.
Proof. destruct o; cbn [home_row other]; lia. Qed.

(* ---- boards ------------------------------------------------------------------------------------ *)

Lemma pos_eqb_neq a b : pos_eqb a b = false <-> a <> b.
Proof.
  split.
  - intros E H. subst. rewrite pos_eqb_refl in E. discriminate.
  - intros H. destruct (pos_eqb a b) eqn:E; [apply pos_eqb_eq in E; contradiction | reflexivity].
Qed.

Lemma bget_bset b p v q :
  wf_grid b -> valid p -> bget (bset b p v) q = if pos_eqb p q then v else bget b q.
Proof.
  intros Hwf Hv. destruct (pos_eqb p q) eqn:E.
  - apply pos_eqb_eq in E. subst q. now apply bget_bset_same.
  - apply pos_eqb_neq in E. now apply bget_bset_other.
Qed.

Lemma wf_bset b p v : wf_grid b -> wf_grid (bset b p v).
Proof. apply wf_grid_set. Qed.

Lemma board_ext (b1 b2 : board) :
  wf_grid b1 -> wf_grid b2 -> (forall p, valid p -> bget b1 p = bget b2 p) -> b1 = b2.
Proof. intros H1 H2 H. apply (grid_ext b1 b2 None H1 H2). exact H. Qed.

Lemma bset_bget_id b p : bset b p (bget b p) = b.
Proof. apply grid_set_get_id. Qed.

(* case analysis on all [pos_eqb] tests of the goal *)
Ltac pos_cases :=
  repeat match goal with
         | |- context [pos_eqb ?a ?b] =>
             let E := fresh "E" in
             destruct (pos_eqb a b) eqn:E; [apply pos_eqb_eq in E | apply pos_eqb_neq in E]
         end.

Ltac wf_tac := repeat apply wf_bset; assumption.

(* ---- projections ------------------------------------------------------------------------------- *)

Lemma set_position_moves g p v : g_moves (set_position g p v) = g_moves g.
Proof. reflexivity. Qed.
Lemma set_position_endgame g p v : g_endgame (set_position g p v) = g_endgame g.
Proof. reflexivity. Qed.

Lemma skp_player g c p : g_player (set_king_pos g c p) = g_player g.
Proof. destruct c; reflexivity. Qed.
Lemma skp_moves g c p : g_moves (set_king_pos g c p) = g_moves g.
Proof. destruct c; reflexivity. Qed.
Lemma skp_endgame g c p : g_endgame (set_king_pos g c p) = g_endgame g.
Proof. destruct c; reflexivity. Qed.
Lemma skp_kend g c p : g_kend (set_king_pos g c p) = g_kend g.
Proof. destruct c; reflexivity. Qed.
Lemma skp_states g c p : g_states (set_king_pos g c p) = g_states g.
Proof. destruct c; reflexivity. Qed.
Lemma skp_gstate g c p : gstate_of (set_king_pos g c p) = gstate_of g.
Proof. destruct c; reflexivity. Qed.
Lemma skp_board g c p : g_board (set_king_pos g c p) = g_board g.
Proof. destruct c; reflexivity. Qed.
Lemma skp_hash g c p : g_hash (set_king_pos g c p) = g_hash g.
Proof. destruct c; reflexivity. Qed.
Lemma skp_score g c p : g_score (set_king_pos g c p) = g_score g.
Proof. destruct c; reflexivity. Qed.
Lemma skp_ps g c p : g_pscores (set_king_pos g c p) = g_pscores g.
Proof. destruct c; reflexivity. Qed.
Lemma skp_ph g c p : g_phashes (set_king_pos g c p) = g_phashes g.
Proof. destruct c; reflexivity. Qed.
Lemma skp_kings g c p c' :
  king_pos (set_king_pos g c p) c' = if color_eqb c c' then p else king_pos g c'.
Proof. destruct c, c'; reflexivity. Qed.

Lemma pf_player g st : g_player (push_finish g st) = other (g_player g).
Proof. reflexivity. Qed.
Lemma pf_moves g st : g_moves (push_finish g st) = g_moves g.
Proof. reflexivity. Qed.
Lemma pf_endgame g st : g_endgame (push_finish g st) = g_endgame g.
Proof. reflexivity. Qed.
Lemma pf_kend g st : g_kend (push_finish g st) = g_kend g.
Proof. reflexivity. Qed.
Lemma pf_states g st : g_states (push_finish g st) = st :: g_states g.
Proof. reflexivity. Qed.
Lemma pf_gstate g st : gstate_of (push_finish g st) = st.
Proof. reflexivity. Qed.
Lemma pf_board g st : g_board (push_finish g st) = g_board g.
Proof. reflexivity. Qed.
Lemma pf_score g st : g_score (push_finish g st) = g_score g.
Proof. reflexivity. Qed.
Lemma pf_ps g st : g_pscores (push_finish g st) = g_pscores g.
Proof. reflexivity. Qed.
Lemma pf_ph g st : g_phashes (push_finish g st) = g_phashes g.
Proof. reflexivity. Qed.
Lemma pf_kings g st c : king_pos (push_finish g st) c = king_pos g c.
Proof. reflexivity. Qed.
Lemma pf_hash g st :
  g_hash (push_finish g st)
  = N.lxor (N.lxor (N.lxor (g_hash g) KEY_BLACK_TO_MOVE) (key_state (state_byte (gstate_of g))))
           (key_state (state_byte st)).
Proof. reflexivity. Qed.
Lemma pf_king_exists g st c : king_exists (push_finish g st) c = king_exists g c.
Proof. reflexivity. Qed.

(* the head of pop: drop the state, restore the side and the keys *)
Definition unpush (g : game) : game :=
  let h := N.lxor (g_hash g) (key_state (state_byte (gstate_of g))) in
  let g' := with_states g (tl (g_states g)) in
  let h := N.lxor h (key_state (state_byte (gstate_of g'))) in
  let h := N.lxor h KEY_BLACK_TO_MOVE in
  with_player (with_hash g' h) (other (g_player g')).

Definition pop_body (g : game) (m : Move) : game :=
  match m with
  | Normal pc s e cap =>
      let g := set_position g s (Some pc) in
      let g := set_position g e cap in
      if kind_eqb (pk pc) King then set_king_pos g (g_player g) s else g
  | Promotion o np s e cap =>
      let g := set_position g s (Some (mkPiece Pawn o)) in
      set_position g e cap
  | EnPassant o sc ec =>
      let '(r1, r2) := ep_rows o in
      let g := set_position g (r2, ec) None in
      let g := set_position g (r1, ec) (Some (mkPiece Pawn (other o))) in
      set_position g (r1, sc) (Some (mkPiece Pawn o))
  | CastlingLong o =>
      let row := home_row o in
      let g := set_position g (row, 3) None in
      let g := set_position g (row, 2) None in
      let g := set_position g (row, 0) (Some (mkPiece Rook o)) in
      let g := set_position g (row, 4) (Some (mkPiece King o)) in
      set_king_pos g o (row, 4)
  | CastlingShort o =>
      let row := home_row o in
      let g := set_position g (row, 5) None in
      let g := set_position g (row, 6) None in
      let g := set_position g (row, 7) (Some (mkPiece Rook o)) in
      let g := set_position g (row, 4) (Some (mkPiece King o)) in
      set_king_pos g o (row, 4)
  end.

Lemma pop_eq g m : pop g m = pop_body (unpush g) m.
Proof. reflexivity. Qed.

Lemma up_player g : g_player (unpush g) = other (g_player g).
Proof. reflexivity. Qed.
Lemma up_moves g : g_moves (unpush g) = g_moves g.
Proof. reflexivity. Qed.
Lemma up_endgame g : g_endgame (unpush g) = g_endgame g.
Proof. reflexivity. Qed.
Lemma up_kend g : g_kend (unpush g) = g_kend g.
Proof. reflexivity. Qed.
Lemma up_states g : g_states (unpush g) = tl (g_states g).
Proof. reflexivity. Qed.
Lemma up_board g : g_board (unpush g) = g_board g.
Proof. reflexivity. Qed.
Lemma up_score g : g_score (unpush g) = g_score g.
Proof. reflexivity. Qed.
Lemma up_ps g : g_pscores (unpush g) = g_pscores g.
Proof. reflexivity. Qed.
Lemma up_ph g : g_phashes (unpush g) = g_phashes g.
Proof. reflexivity. Qed.
Lemma up_kings g c : king_pos (unpush g) c = king_pos g c.
Proof. reflexivity. Qed.
Lemma up_hash g :
  g_hash (unpush g)
  = N.lxor (N.lxor (N.lxor (g_hash g) (key_state (state_byte (gstate_of g))))
                   (key_state (state_byte (hd state_default (tl (g_states g))))))
           KEY_BLACK_TO_MOVE.
Proof. reflexivity. Qed.

(* ---- a game satisfying CacheInv is determined by its board, side, stacks, flags and kings -------- *)

Lemma game_eq_cache g1 g2 :
  CacheInv g1 -> CacheInv g2 ->
  g_board g1 = g_board g2 -> g_player g1 = g_player g2 -> g_moves g1 = g_moves g2 ->
  g_endgame g1 = g_endgame g2 -> g_kend g1 = g_kend g2 -> g_states g1 = g_states g2 ->
  (forall c, king_pos g1 c = king_pos g2 c) -> g1 = g2.
Proof.
  intros C1 C2 Hb Hp Hm He Hk Hs Hkp.
  assert (g_score g1 = g_score g2) as Hsc.
  { apply cong16_eq; [apply (ci_score_rng _ C1) | apply (ci_score_rng _ C2) |].
    rewrite (ci_score _ C1), (ci_score _ C2), Hb, Hk. reflexivity. }
  assert (g_hash g1 = g_hash g2) as Hh.
  { rewrite (ci_hash _ C1), (ci_hash _ C2). unfold gstate_of. rewrite Hb, Hp, Hs. reflexivity. }
  assert (g_pscores g1 = g_pscores g2) as Hps.
  { apply (grid_ext _ _ 0); [apply (ci_ps_wf _ C1) | apply (ci_ps_wf _ C2) |].
    intros p Hv. rewrite (ci_ps _ C1), (ci_ps _ C2) by assumption. rewrite Hb, Hk. reflexivity. }
  assert (g_phashes g1 = g_phashes g2) as Hph.
  { apply (grid_ext _ _ 0%N); [apply (ci_ph_wf _ C1) | apply (ci_ph_wf _ C2) |].
    intros p Hv. rewrite (ci_ph _ C1), (ci_ph _ C2) by assumption. rewrite Hb. reflexivity. }
  pose proof (Hkp White) as Hw. pose proof (Hkp Black) as Hbk.
  clear C1 C2 Hkp. destruct g1, g2; simpl in *.
  subst. reflexivity.
Qed.

(* ---- CacheInv through the record wrappers ------------------------------------------------------ *)

Lemma set_king_pos_cache g c p : CacheInv g -> CacheInv (set_king_pos g c p).
Proof.
  intros [Hb Hps Hph Hphv Hpsv Hh Hr Hs].
  constructor; rewrite ?skp_board, ?skp_ps, ?skp_ph, ?skp_kend, ?skp_hash, ?skp_score, ?skp_player,
                 ?skp_gstate; assumption.
Qed.

Lemma push_finish_cache g st : CacheInv g -> CacheInv (push_finish g st).
Proof.
  intros [Hb Hps Hph Hphv Hpsv Hh Hr Hs].
  constructor; rewrite ?pf_board, ?pf_ps, ?pf_ph, ?pf_kend, ?pf_score, ?pf_player, ?pf_gstate;
    try assumption.
  rewrite pf_hash, Hh, side_key_other.
  set (B := board_hash (g_board g)). set (S := side_key (g_player g)).
  set (K := key_state (state_byte (gstate_of g))). set (K' := key_state (state_byte st)).
  set (X := KEY_BLACK_TO_MOVE). clearbody B S K K' X. xor_solve.
Qed.

Lemma unpush_cache g : CacheInv g -> CacheInv (unpush g).
Proof.
  intros [Hb Hps Hph Hphv Hpsv Hh Hr Hs].
  constructor; rewrite ?up_board, ?up_ps, ?up_ph, ?up_kend, ?up_score, ?up_player; try assumption.
  rewrite up_hash, Hh, side_key_other.
  change (gstate_of (unpush g)) with (hd state_default (tl (g_states g))).
  set (B := board_hash (g_board g)). set (S := side_key (g_player g)).
  set (K := key_state (state_byte (gstate_of g))).
  set (K' := key_state (state_byte (hd state_default (tl (g_states g))))).
  set (X := KEY_BLACK_TO_MOVE). clearbody B S K K' X. xor_solve.
Qed.

Lemma unpush_push_finish g st : CacheInv g -> unpush (push_finish g st) = g.
Proof.
  intros C. apply game_eq_cache; try reflexivity.
  - apply unpush_cache, push_finish_cache, C.
  - exact C.
  - rewrite up_player, pf_player. apply other_other.
Qed.

(* ---- push, cut into its board part and its state part ------------------------------------------- *)

Definition rook_from (st : gstate) (s : pos) : gstate :=
  if pos_eqb s (0, 0) then set_wq st false
  else if pos_eqb s (0, 7) then set_wk st false
  else if pos_eqb s (7, 0) then set_bq st false
  else if pos_eqb s (7, 7) then set_bk st false
  else st.

Definition normal_game (g : game) (pc : piece) (s e : pos) : game :=
  let g1 := set_position (set_position g s None) e (Some pc) in
  if kind_eqb (pk pc) King then set_king_pos g1 (g_player g) e else g1.

Definition normal_st1 (g : game) (pc : piece) (s : pos) : gstate :=
  let st := set_ep (gstate_of g) 8 in
  if kind_eqb (pk pc) King then clear_rights st (g_player g)
  else if kind_eqb (pk pc) Rook then rook_from st s else st.

Definition ep_step (G : game) (st : gstate) (pc : piece) (s e : pos) : gstate :=
  if kind_eqb (pk pc) Pawn && (Z.abs (fst e - fst s) =? 2) then
    let left := if 0 <? snd e then is_enemy_pawn (gget G (fst e, snd e - 1)) (po pc) else false in
    let right := if snd e <? 7 then is_enemy_pawn (gget G (fst e, snd e + 1)) (po pc) else false in
    if left || right then set_ep st (snd s) else st
  else st.

Lemma push_normal g pc s e cap :
  push g (Normal pc s e cap)
  = push_finish (normal_game g pc s e)
      (ep_step (normal_game g pc s e) (revoke_captured (normal_st1 g pc s) cap e) pc s e).
Proof.
  unfold push, normal_game, normal_st1, ep_step, rook_from.
  destruct (kind_eqb (pk pc) King); [reflexivity|].
  destruct (kind_eqb (pk pc) Rook); reflexivity.
Qed.

Definition promo_game (g : game) (o : color) (np : kind) (s e : pos) : game :=
  set_position (set_position g s None) e (Some (mkPiece np o)).

Lemma push_promo g o np s e cap :
  push g (Promotion o np s e cap)
  = push_finish (promo_game g o np s e) (revoke_captured (set_ep (gstate_of g) 8) cap e).
Proof. reflexivity. Qed.

Definition ep_game (g : game) (o : color) (sc ec : Z) : game :=
  set_position (set_position (set_position g (fst (ep_rows o), ec) None) (fst (ep_rows o), sc) None)
               (snd (ep_rows o), ec) (Some (mkPiece Pawn o)).

Lemma push_ep g o sc ec :
  push g (EnPassant o sc ec) = push_finish (ep_game g o sc ec) (set_ep (gstate_of g) 8).
Proof. destruct o; reflexivity. Qed.

Definition castle_game (g : game) (o : color) (rf rt kt : Z) : game :=
  let row := home_row o in
  set_king_pos
    (set_position (set_position (set_position (set_position g (row, rf) None) (row, 4) None)
                                (row, rt) (Some (mkPiece Rook o)))
                  (row, kt) (Some (mkPiece King o)))
    (g_player g) (row, kt).

Lemma push_short g o :
  push g (CastlingShort o)
  = push_finish (castle_game g o 7 5 6) (clear_rights (set_ep (gstate_of g) 8) (g_player g)).
Proof. unfold push, castle_game. cbv zeta. rewrite skp_player, !set_position_player. reflexivity. Qed.

Lemma push_long g o :
  push g (CastlingLong o)
  = push_finish (castle_game g o 0 3 2) (clear_rights (set_ep (gstate_of g) 8) (g_player g)).
Proof. unfold push, castle_game. cbv zeta. rewrite skp_player, !set_position_player. reflexivity. Qed.

(* the board part and the new state of a push *)
Definition push_game (g : game) (m : Move) : game :=
  match m with
  | Normal pc s e _ => normal_game g pc s e
  | Promotion o np s e _ => promo_game g o np s e
  | EnPassant o sc ec => ep_game g o sc ec
  | CastlingShort o => castle_game g o 7 5 6
  | CastlingLong o => castle_game g o 0 3 2
  end.

Definition push_state (g : game) (m : Move) : gstate :=
  match m with
  | Normal pc s e cap =>
      ep_step (normal_game g pc s e) (revoke_captured (normal_st1 g pc s) cap e) pc s e
  | Promotion o np s e cap => revoke_captured (set_ep (gstate_of g) 8) cap e
  | EnPassant o sc ec => set_ep (gstate_of g) 8
  | CastlingShort o | CastlingLong o => clear_rights (set_ep (gstate_of g) 8) (g_player g)
  end.

Lemma push_eq g m : push g m = push_finish (push_game g m) (push_state g m).
Proof.
  destruct m; cbn [push_game push_state].
  - apply push_normal.
  - apply push_promo.
  - apply push_short.
  - apply push_long.
  - apply push_ep.
Qed.

(* the squares a move touches are on the board *)
Definition move_valid (m : Move) : Prop :=
  match m with
  | Normal _ s e _ | Promotion _ _ s e _ => valid s /\ valid e
  | EnPassant _ sc ec => 0 <= sc < 8 /\ 0 <= ec < 8
  | _ => True
  end.

Lemma gen_ok_valid g m : gen_ok g m -> move_valid m.
Proof. destruct m; cbn [gen_ok move_valid]; intuition. Qed.

Lemma push_game_cache g m : CacheInv g -> move_valid m -> CacheInv (push_game g m).
Proof.
  intros C V. destruct m; cbn [push_game move_valid] in *.
  - destruct V as [Vs Ve]. unfold normal_game.
    destruct (kind_eqb (pk p) King); [apply set_king_pos_cache|];
      repeat (apply set_position_cache; try assumption).
  - destruct V as [Vs Ve]. unfold promo_game. repeat (apply set_position_cache; try assumption).
  - unfold castle_game. apply set_king_pos_cache.
    repeat (apply set_position_cache; try (apply home_row_valid; lia)). exact C.
  - unfold castle_game. apply set_king_pos_cache.
    repeat (apply set_position_cache; try (apply home_row_valid; lia)). exact C.
  - destruct V as [Vs Ve]. unfold ep_game.
    repeat (apply set_position_cache; try (apply ep_rows_valid; assumption)). exact C.
Qed.

Lemma push_cache g m : CacheInv g -> move_valid m -> CacheInv (push g m).
Proof. intros C V. rewrite push_eq. apply push_finish_cache, push_game_cache; assumption. Qed.

Lemma pop_body_cache g m : CacheInv g -> move_valid m -> CacheInv (pop_body g m).
Proof.
  intros C V. destruct m; cbn [pop_body move_valid] in *.
  - destruct V as [Vs Ve].
    destruct (kind_eqb (pk p) King); [apply set_king_pos_cache|];
      repeat (apply set_position_cache; try assumption).
  - destruct V as [Vs Ve]. repeat (apply set_position_cache; try assumption).
  - apply set_king_pos_cache.
    repeat (apply set_position_cache; try (apply home_row_valid; lia)). exact C.
  - apply set_king_pos_cache.
    repeat (apply set_position_cache; try (apply home_row_valid; lia)). exact C.
  - destruct V as [Vs Ve]. destruct o; cbn [ep_rows];
    repeat (apply set_position_cache; try (unfold valid; cbn [fst snd]; lia)); exact C.
Qed.

Lemma pop_cache g m : CacheInv g -> move_valid m -> CacheInv (pop g m).
Proof. intros C V. rewrite pop_eq. apply pop_body_cache; [apply unpush_cache|]; assumption. Qed.

(* ---- the fields push_game / pop_body leave alone ------------------------------------------------- *)

Ltac proj_tac :=
  intros; match goal with m : Move |- _ => destruct m end;
  cbn [pop_body push_game]; unfold normal_game, promo_game, ep_game, castle_game;
  try match goal with |- context [kind_eqb ?a ?b] => destruct (kind_eqb a b) end;
  try match goal with |- context [ep_rows ?o] => destruct (ep_rows o) end;
  rewrite ?skp_player, ?skp_moves, ?skp_endgame, ?skp_kend, ?skp_states; reflexivity.

Lemma pg_player g m : g_player (push_game g m) = g_player g.
Proof. proj_tac. Qed.
Lemma pg_moves g m : g_moves (push_game g m) = g_moves g.
Proof. proj_tac. Qed.
Lemma pg_endgame g m : g_endgame (push_game g m) = g_endgame g.
Proof. proj_tac. Qed.
Lemma pg_kend g m : g_kend (push_game g m) = g_kend g.
Proof. proj_tac. Qed.
Lemma pg_states g m : g_states (push_game g m) = g_states g.
Proof. proj_tac. Qed.
Lemma pb_player g m : g_player (pop_body g m) = g_player g.
Proof. proj_tac. Qed.
Lemma pb_moves g m : g_moves (pop_body g m) = g_moves g.
Proof. proj_tac. Qed.
Lemma pb_endgame g m : g_endgame (pop_body g m) = g_endgame g.
Proof. proj_tac. Qed.
Lemma pb_kend g m : g_kend (pop_body g m) = g_kend g.
Proof. proj_tac. Qed.
Lemma pb_states g m : g_states (pop_body g m) = g_states g.
Proof. proj_tac. Qed.

(* boards *)
Definition push_board (b : board) (m : Move) : board :=
  match m with
  | Normal pc s e _ => bset (bset b s None) e (Some pc)
  | Promotion o np s e _ => bset (bset b s None) e (Some (mkPiece np o))
  | EnPassant o sc ec =>
      bset (bset (bset b (fst (ep_rows o), ec) None) (fst (ep_rows o), sc) None)
           (snd (ep_rows o), ec) (Some (mkPiece Pawn o))
  | CastlingShort o =>
      bset (bset (bset (bset b (home_row o, 7) None) (home_row o, 4) None)
                 (home_row o, 5) (Some (mkPiece Rook o))) (home_row o, 6) (Some (mkPiece King o))
  | CastlingLong o =>
      bset (bset (bset (bset b (home_row o, 0) None) (home_row o, 4) None)
                 (home_row o, 3) (Some (mkPiece Rook o))) (home_row o, 2) (Some (mkPiece King o))
  end.

Lemma pg_board g m : g_board (push_game g m) = push_board (g_board g) m.
Proof.
  destruct m; cbn [push_game push_board]; unfold normal_game, promo_game, ep_game, castle_game;
    try match goal with |- context [kind_eqb ?a ?b] => destruct (kind_eqb a b) end;
    rewrite ?skp_board; reflexivity.
Qed.

Lemma push_board_eq g m : g_board (push g m) = push_board (g_board g) m.
Proof. rewrite push_eq, pf_board. apply pg_board. Qed.

Definition pop_board (b : board) (m : Move) : board :=
  match m with
  | Normal pc s e cap => bset (bset b s (Some pc)) e cap
  | Promotion o np s e cap => bset (bset b s (Some (mkPiece Pawn o))) e cap
  | EnPassant o sc ec =>
      bset (bset (bset b (snd (ep_rows o), ec) None) (fst (ep_rows o), ec) (Some (mkPiece Pawn (other o))))
           (fst (ep_rows o), sc) (Some (mkPiece Pawn o))
  | CastlingShort o =>
      bset (bset (bset (bset b (home_row o, 5) None) (home_row o, 6) None)
                 (home_row o, 7) (Some (mkPiece Rook o))) (home_row o, 4) (Some (mkPiece King o))
  | CastlingLong o =>
      bset (bset (bset (bset b (home_row o, 3) None) (home_row o, 2) None)
                 (home_row o, 0) (Some (mkPiece Rook o))) (home_row o, 4) (Some (mkPiece King o))
  end.

Lemma pb_board g m : g_board (pop_body g m) = pop_board (g_board g) m.
Proof.
  destruct m; cbn [pop_body pop_board];
    try match goal with |- context [kind_eqb ?a ?b] => destruct (kind_eqb a b) end;
    try (destruct o; cbn [ep_rows fst snd]);
    rewrite ?skp_board; reflexivity.
Qed.

Lemma pop_push_board b m :
  wf_grid b ->
  (exists g, g_board g = b /\ gen_ok g m) -> pop_board (push_board b m) m = b.
Proof.
  intros Hwf (g & <- & G). set (b := g_board g) in *.
  destruct m as [pc s e cap | o np s e cap | o | o | o sc ec]; cbn [gen_ok push_board pop_board] in *;
    fold b in G.
  - destruct G as (Vs & Ve & Hse & Hs & He & _).
    apply board_ext; [wf_tac | wf_tac |]. intros q Vq.
    rewrite !bget_bset by (try wf_tac; assumption). pos_cases; congruence.
  - destruct G as (_ & _ & Vs & Ve & Hse & _ & Hs & He & _).
    apply board_ext; [wf_tac | wf_tac |]. intros q Vq.
    rewrite !bget_bset by (try wf_tac; assumption). pos_cases; congruence.
  - destruct G as (_ & _ & H4 & H7 & H5 & H6).
    apply board_ext; [wf_tac | wf_tac |]. intros q Vq.
    rewrite !bget_bset by (try wf_tac; apply home_row_valid; lia). pos_cases; congruence.
  - destruct G as (_ & _ & H4 & H0 & H1 & H2 & H3).
    apply board_ext; [wf_tac | wf_tac |]. intros q Vq.
    rewrite !bget_bset by (try wf_tac; apply home_row_valid; lia). pos_cases; congruence.
  - destruct G as (_ & Vs & Ve & Habs & _ & Hs & He & Hn).
    pose proof (ep_rows_neq o) as Hr.
    apply board_ext; [wf_tac | wf_tac |]. intros q Vq.
    rewrite !bget_bset by (try wf_tac; apply ep_rows_valid; assumption). pos_cases; congruence.
Qed.

Lemma piece_eta pc : pc = mkPiece (pk pc) (po pc).
Proof. destruct pc; reflexivity. Qed.

Lemma pop_push_kings g m c :
  RuleInv g -> gen_ok g m -> king_pos (pop_body (push_game g m) m) c = king_pos g c.
Proof.
  intros R G.
  destruct m as [pc s e cap | o np s e cap | o | o | o sc ec]; cbn [gen_ok push_game pop_body] in *.
  - destruct G as (Vs & Ve & Hse & Hs & He & Hpo & _).
    unfold normal_game. destruct (kind_eqb (pk pc) King) eqn:EK.
    + apply kind_eqb_eq in EK.
      rewrite skp_kings, !set_position_kings, skp_kings, !set_position_kings.
      rewrite !set_position_player, skp_player, !set_position_player.
      destruct (color_eqb (g_player g) c) eqn:EC; [|reflexivity].
      apply color_eqb_eq in EC. subst c. symmetry. apply (ri_kings _ R); [assumption|].
      rewrite Hs, (piece_eta pc), EK, Hpo. reflexivity.
    + rewrite !set_position_kings. reflexivity.
  - unfold promo_game. rewrite !set_position_kings. reflexivity.
  - destruct G as (Ho & Hk & _). unfold castle_game.
    rewrite skp_kings, !set_position_kings, skp_kings, !set_position_kings. rewrite <- Ho.
    destruct (color_eqb o c) eqn:EC; [|reflexivity].
    apply color_eqb_eq in EC. subst c. symmetry. exact Hk.
  - destruct G as (Ho & Hk & _). unfold castle_game.
    rewrite skp_kings, !set_position_kings, skp_kings, !set_position_kings. rewrite <- Ho.
    destruct (color_eqb o c) eqn:EC; [|reflexivity].
    apply color_eqb_eq in EC. subst c. symmetry. exact Hk.
  - unfold ep_game. destruct (ep_rows o). rewrite !set_position_kings. reflexivity.
Qed.

(* ---- taking a move back restores the whole record ----------------------------------------------- *)

Theorem pop_push : forall g m, RepInv g -> gen_ok g m -> pop (push g m) m = g.
Proof.
  intros g m [C R] G.
  pose proof (gen_ok_valid _ _ G) as V.
  pose proof (push_game_cache g m C V) as C1.
  rewrite pop_eq, push_eq, unpush_push_finish by assumption.
  apply game_eq_cache.
  - apply pop_body_cache; assumption.
  - exact C.
  - rewrite pb_board, pg_board. apply pop_push_board; [apply (ci_board _ C)|]. now exists g.
  - now rewrite pb_player, pg_player.
  - now rewrite pb_moves, pg_moves.
  - now rewrite pb_endgame, pg_endgame.
  - now rewrite pb_kend, pg_kend.
  - now rewrite pb_states, pg_states.
  - intros c. now apply pop_push_kings.
Qed.
Print Assumptions pop_push.

(* ---- the filter loop and get_moves leave the game as it was ------------------------------------- *)

Theorem filter_moves_pure : forall g player kp targeted ms,
  RepInv g -> (forall m, In m ms -> gen_ok g m) ->
  filter_moves g player kp targeted ms
  = (filter (fun m => shortcut targeted kp m
                      || negb (is_targeted (push g m) (king_pos (push g m) player) player)) ms, g).
Proof.
  intros g player kp targeted ms R. induction ms as [|m rest IH]; intros H; cbn [filter_moves filter].
  - reflexivity.
  - destruct (shortcut targeted kp m) eqn:ES.
    + rewrite IH by (intros; apply H; now right). cbn [orb]. reflexivity.
    + rewrite pop_push by (try assumption; apply H; now left).
      rewrite IH by (intros; apply H; now right). cbn [orb]. reflexivity.
Qed.
Print Assumptions filter_moves_pure.

Lemma pseudo_moves_no_king g : king_exists g (g_player g) = false -> pseudo_moves g = [].
Proof. intros H. unfold pseudo_moves. now rewrite H. Qed.

Theorem get_moves_st_pure : forall g v,
  RepInv g -> (forall m, In m (pseudo_moves g) -> gen_ok g m) ->
  get_moves_st g v = (get_moves g v, g).
Proof.
  intros g v R H. unfold get_moves_st, get_moves, checked_moves.
  destruct v; cbn [andb]; [|reflexivity].
  destruct (king_exists g (g_player g)) eqn:EK.
  - rewrite filter_moves_pure by assumption. reflexivity.
  - now rewrite pseudo_moves_no_king.
Qed.
Print Assumptions get_moves_st_pure.
