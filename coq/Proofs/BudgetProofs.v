(* Proofs about the thinking-time computation of `go` (Model/Budget.v).

   Part A (independent of what [share] computes):
     budget_le_clock, timer_le_clock, movetime_bound, and the small facts around them.
   Part B: the binary64 computation of [share] (SpecFloat: u64 -> f64, product with the literal
     0.02, f64 -> u64) is shown equal to an integer expression, [share_formula], directly from
     the definitions of Coq.Floats.SpecFloat (no real numbers, no external library).  From it:
     share_mono, share_bound, share_le_16th, share_exact (share t = t / 50 on all realistic
     clocks), low_clock_shortens, budget_zero_iff, monotone_low_clock.
   Part C: examples by computation (the historical wrap-around case and others).

   Every theorem of this file is closed under the global context. *)
From Coq Require Import ZArith Lia List Bool Zpower.
From Coq Require Import Floats.SpecFloat.
From Chess Require Import Base.SFloat Gen.Consts Model.Budget.

Local Open Scope Z_scope.

Definition in_u64 (x : Z) : Prop := 0 <= x <= U64MAX.

(* ------------------------------------------------------------------------------------------ *)
(* Part A: bounds that hold whatever [share] computes                                          *)
(* ------------------------------------------------------------------------------------------ *)

Lemma side_budget_bounds : forall t inc,
  0 <= t -> 0 <= side_budget t inc <= t.
Proof.
  intros t inc Ht. unfold side_budget. lia.
Qed.

Lemma go_time_clock : forall wt bt wi bi wtm,
  go_time (Some wt) (Some bt) (Some wi) (Some bi) wtm None
  = Some (if wtm then side_budget wt wi else side_budget bt bi).
Proof. reflexivity. Qed.

(* no complete set of clock values and no movetime: no time at all *)
Lemma go_time_none : forall wt bt wi bi wtm,
  (wt = None \/ bt = None \/ wi = None \/ bi = None) ->
  go_time wt bt wi bi wtm None = None.
Proof.
  intros wt bt wi bi wtm H. unfold go_time.
  destruct wt, bt, wi, bi; try reflexivity;
    destruct H as [H | [H | [H | H]]]; discriminate H.
Qed.

Lemma go_time_movetime : forall wt bt wi bi wtm mt,
  go_time wt bt wi bi wtm (Some mt) = Some mt.
Proof. reflexivity. Qed.

(* 1. the budget of the side to move is at most that side's own clock, never negative, and
      inside the u64 range (no wrap-around) *)
Theorem budget_le_clock : forall wt bt wi bi wtm b,
  in_u64 wt -> in_u64 bt -> in_u64 wi -> in_u64 bi ->
  go_time (Some wt) (Some bt) (Some wi) (Some bi) wtm None = Some b ->
  0 <= b /\ b <= (if wtm then wt else bt) /\ b <= U64MAX.
Proof.
  intros wt bt wi bi wtm b Hwt Hbt Hwi Hbi H.
  rewrite go_time_clock in H. injection H as H. subst b.
  unfold in_u64 in *.
  destruct wtm.
  - pose proof (side_budget_bounds wt wi (proj1 Hwt)). lia.
  - pose proof (side_budget_bounds bt bi (proj1 Hbt)). lia.
Qed.

Print Assumptions budget_le_clock.

(* the printed `info time` value / the timer's sleep: between 0 and the own clock *)
Theorem timer_le_clock : forall wt bt wi bi wtm inf s,
  in_u64 wt -> in_u64 bt -> in_u64 wi -> in_u64 bi ->
  go_timer (Some wt) (Some bt) (Some wi) (Some bi) wtm None inf = Some s ->
  0 <= s /\ s <= (if wtm then wt else bt) /\ s <= U64MAX.
Proof.
  intros wt bt wi bi wtm inf s Hwt Hbt Hwi Hbi H.
  unfold go_timer in H.
  destruct (go_time (Some wt) (Some bt) (Some wi) (Some bi) wtm None) as [b|] eqn:Hb;
    [| discriminate H].
  destruct (budget_le_clock _ _ _ _ _ _ Hwt Hbt Hwi Hbi Hb) as (H0 & H1 & H2).
  destruct inf; [discriminate H|].
  injection H as H. subst s. unfold SLEEP_CUT_MS. lia.
Qed.

Print Assumptions timer_le_clock.

(* the timer exists exactly when asked for: not infinite, and some time known *)
Lemma go_timer_infinite : forall wt bt wi bi wtm mt,
  go_timer wt bt wi bi wtm mt true = None.
Proof.
  intros. unfold go_timer. destruct (go_time wt bt wi bi wtm mt); reflexivity.
Qed.

Lemma go_timer_none : forall wt bt wi bi wtm inf,
  (wt = None \/ bt = None \/ wi = None \/ bi = None) ->
  go_timer wt bt wi bi wtm None inf = None.
Proof.
  intros wt bt wi bi wtm inf H. unfold go_timer.
  rewrite (go_time_none wt bt wi bi wtm H). reflexivity.
Qed.

Lemma go_timer_clock : forall wt bt wi bi wtm,
  go_timer (Some wt) (Some bt) (Some wi) (Some bi) wtm None false
  = Some (Z.max 0 ((if wtm then side_budget wt wi else side_budget bt bi) - SLEEP_CUT_MS)).
Proof. reflexivity. Qed.

(* 2. movetime overrides everything else; the timer sleeps movetime - 5 ms (saturating) *)
Theorem movetime_bound : forall wt bt wi bi wtm mt,
  go_timer wt bt wi bi wtm (Some mt) false = Some (Z.max 0 (mt - 5)) /\
  (0 <= mt -> 0 <= Z.max 0 (mt - 5) <= mt).
Proof.
  intros. split; [reflexivity | lia].
Qed.

Print Assumptions movetime_bound.

Corollary movetime_timer_le : forall wt bt wi bi wtm mt inf s,
  in_u64 mt ->
  go_timer wt bt wi bi wtm (Some mt) inf = Some s -> 0 <= s <= mt.
Proof.
  intros wt bt wi bi wtm mt inf s Hmt H. unfold in_u64 in Hmt.
  destruct inf.
  - rewrite go_timer_infinite in H. discriminate H.
  - destruct (movetime_bound wt bt wi bi wtm mt) as [E B].
    rewrite E in H. injection H as H. subst s. apply B. lia.
Qed.

(* ------------------------------------------------------------------------------------------ *)
(* Part B: the binary64 computation of [share]                                                 *)
(* ------------------------------------------------------------------------------------------ *)

(* ------------------------------------------------------------------------------------------ *)
(* B.1 rounding an integer to 53 significant bits, as a function Z -> Z                        *)
(* ------------------------------------------------------------------------------------------ *)

(* N / 2^n rounded to nearest, ties to even *)
Definition rne (N n : Z) : Z :=
  let q := N / 2 ^ n in
  let r := N mod 2 ^ n in
  match 2 * r ?= 2 ^ n with
  | Lt => q
  | Eq => if Z.even q then q else q + 1
  | Gt => q + 1
  end.

(* N (at least 2^52) rounded to 53 significant bits *)
Definition V (N : Z) : Z :=
  let n := Z.log2 N - 52 in rne N n * 2 ^ n.

Lemma pow2_pos : forall k, 0 <= k -> 0 < 2 ^ k.
Proof. intros k Hk. apply Z.pow_pos_nonneg; lia. Qed.

Lemma pow2_split : forall a b, 0 <= a -> 0 <= b -> 2 ^ (a + b) = 2 ^ a * 2 ^ b.
Proof. intros a b Ha Hb. apply Z.pow_add_r; assumption. Qed.

Lemma rne_0 : forall N, rne N 0 = N.
Proof.
  intros N. unfold rne. change (2 ^ 0) with 1.
  rewrite Z.mod_1_r, Z.div_1_r. reflexivity.
Qed.

Lemma rne_between : forall N n, 0 <= n ->
  N / 2 ^ n <= rne N n <= N / 2 ^ n + 1.
Proof.
  intros N n Hn. unfold rne.
  destruct (2 * (N mod 2 ^ n) ?= 2 ^ n); try destruct (Z.even (N / 2 ^ n)); lia.
Qed.

Lemma rne_mono : forall N1 N2 n, 0 <= n -> N1 <= N2 -> rne N1 n <= rne N2 n.
Proof.
  intros N1 N2 n Hn H12.
  pose proof (pow2_pos n Hn) as Hp.
  pose proof (Z.div_le_mono N1 N2 (2 ^ n) Hp H12) as Hq.
  destruct (Z.eq_dec (N1 / 2 ^ n) (N2 / 2 ^ n)) as [E|NE].
  - pose proof (Z.div_mod N1 (2 ^ n) ltac:(lia)) as D1.
    pose proof (Z.div_mod N2 (2 ^ n) ltac:(lia)) as D2.
    assert (Hr : N1 mod 2 ^ n <= N2 mod 2 ^ n) by (rewrite E in D1; lia).
    unfold rne. rewrite E.
    destruct (Z.compare_spec (2 * (N1 mod 2 ^ n)) (2 ^ n));
      destruct (Z.compare_spec (2 * (N2 mod 2 ^ n)) (2 ^ n));
      try destruct (Z.even (N2 / 2 ^ n)); lia.
  - pose proof (rne_between N1 n Hn). pose proof (rne_between N2 n Hn). lia.
Qed.

Lemma rne_scale : forall N n k, 0 <= n -> 0 <= k -> rne (N * 2 ^ k) (n + k) = rne N n.
Proof.
  intros N n k Hn Hk. unfold rne.
  pose proof (pow2_pos n Hn) as Hpn. pose proof (pow2_pos k Hk) as Hpk.
  rewrite (pow2_split n k Hn Hk).
  rewrite Z.div_mul_cancel_r by lia.
  rewrite Z.mul_mod_distr_r by lia.
  replace (2 * (N mod 2 ^ n * 2 ^ k)) with (2 * (N mod 2 ^ n) * 2 ^ k) by ring.
  rewrite <- (Zmult_compare_compat_r (2 * (N mod 2 ^ n)) (2 ^ n) (2 ^ k)) by lia.
  reflexivity.
Qed.

Lemma rne_exact : forall N n, 0 <= n -> N mod 2 ^ n = 0 -> rne N n * 2 ^ n = N.
Proof.
  intros N n Hn Hr. unfold rne. rewrite Hr.
  pose proof (pow2_pos n Hn) as Hp.
  replace (2 * 0 ?= 2 ^ n) with Lt by (symmetry; apply Z.compare_lt_iff; lia).
  pose proof (Z.div_mod N (2 ^ n) ltac:(lia)). lia.
Qed.

(* the number of the shift for N >= 2^52 *)
Lemma log2_ge_52 : forall N, 2 ^ 52 <= N -> 52 <= Z.log2 N.
Proof.
  intros N HN. change 52 with (Z.log2 (2 ^ 52)). apply Z.log2_le_mono. exact HN.
Qed.

Lemma log2_bounds : forall N, 2 ^ 52 <= N ->
  2 ^ (52 + (Z.log2 N - 52)) <= N < 2 ^ (53 + (Z.log2 N - 52)).
Proof.
  intros N HN.
  assert (H0 : 0 < N) by (assert (0 < 2 ^ 52) by reflexivity; lia).
  pose proof (Z.log2_spec N H0) as Hs.
  replace (52 + (Z.log2 N - 52)) with (Z.log2 N) by lia.
  replace (53 + (Z.log2 N - 52)) with (Z.succ (Z.log2 N)) by lia.
  exact Hs.
Qed.

Lemma rne_mantissa : forall N, 2 ^ 52 <= N ->
  2 ^ 52 <= rne N (Z.log2 N - 52) <= 2 ^ 53.
Proof.
  intros N HN.
  pose proof (log2_ge_52 N HN) as Hl.
  pose proof (log2_bounds N HN) as [Hb1 Hb2].
  set (n := Z.log2 N - 52) in *.
  assert (Hn : 0 <= n) by lia.
  pose proof (pow2_pos n Hn) as Hp.
  rewrite (pow2_split 52 n) in Hb1 by lia.
  rewrite (pow2_split 53 n) in Hb2 by lia.
  pose proof (rne_between N n Hn) as Hr.
  assert (2 ^ 52 <= N / 2 ^ n) by (apply Z.div_le_lower_bound; lia).
  assert (N / 2 ^ n < 2 ^ 53) by (apply Z.div_lt_upper_bound; lia).
  lia.
Qed.

Lemma V_scale : forall N k, 2 ^ 52 <= N -> 0 <= k -> V (N * 2 ^ k) = V N * 2 ^ k.
Proof.
  intros N k HN Hk. unfold V.
  assert (H0 : 0 < N) by (assert (0 < 2 ^ 52) by reflexivity; lia).
  pose proof (log2_ge_52 N HN) as Hl.
  rewrite (Z.log2_mul_pow2 N k H0 Hk).
  replace (k + Z.log2 N - 52) with ((Z.log2 N - 52) + k) by lia.
  rewrite rne_scale by lia.
  rewrite pow2_split by lia. ring.
Qed.

Lemma V_mono : forall N1 N2, 2 ^ 52 <= N1 -> N1 <= N2 -> V N1 <= V N2.
Proof.
  intros N1 N2 H1 H12.
  assert (H2 : 2 ^ 52 <= N2) by lia.
  pose proof (log2_ge_52 N1 H1) as Hl1.
  pose proof (Z.log2_le_mono N1 N2 H12) as Hl.
  pose proof (rne_mantissa N1 H1) as Hm1.
  pose proof (rne_mantissa N2 H2) as Hm2.
  unfold V.
  set (n1 := Z.log2 N1 - 52) in *. set (n2 := Z.log2 N2 - 52) in *.
  destruct (Z.eq_dec n1 n2) as [E|NE].
  - rewrite <- E. apply Z.mul_le_mono_nonneg_r.
    + apply Z.lt_le_incl, pow2_pos. lia.
    + apply rne_mono; lia.
  - assert (Hlt : n1 + 1 <= n2) by lia.
    transitivity (2 ^ 53 * 2 ^ n1).
    + apply Z.mul_le_mono_nonneg_r; [apply Z.lt_le_incl, pow2_pos; lia | lia].
    + transitivity (2 ^ 52 * 2 ^ n2).
      * replace n2 with ((n2 - n1 - 1) + 1 + n1) by lia.
        rewrite !pow2_split by lia.
        pose proof (pow2_pos (n2 - n1 - 1) ltac:(lia)).
        pose proof (pow2_pos n1 ltac:(lia)).
        change (2 ^ 53) with (2 ^ 52 * 2). change (2 ^ 1) with 2. nia.
      * apply Z.mul_le_mono_nonneg_r; [apply Z.lt_le_incl, pow2_pos; lia | lia].
Qed.

Lemma V_exact : forall a j, 0 < a < 2 ^ 53 -> 0 <= j -> 2 ^ 52 <= a * 2 ^ j ->
  V (a * 2 ^ j) = a * 2 ^ j.
Proof.
  intros a j Ha Hj HN. unfold V.
  pose proof (log2_ge_52 _ HN) as Hl.
  rewrite (Z.log2_mul_pow2 a j) in * by lia.
  assert (Hla : Z.log2 a <= 52).
  { assert (Z.log2 a < 53); [| lia]. apply Z.log2_lt_pow2; lia. }
  set (n := j + Z.log2 a - 52) in *.
  apply rne_exact; [lia|].
  replace j with ((j - n) + n) by lia.
  rewrite pow2_split by lia. rewrite Z.mul_assoc. apply Z.mod_mul.
  pose proof (pow2_pos n ltac:(lia)). lia.
Qed.

Lemma V_pos : forall N, 2 ^ 52 <= N -> 0 < V N.
Proof.
  intros N HN. unfold V.
  pose proof (rne_mantissa N HN). pose proof (log2_ge_52 N HN).
  apply Z.mul_pos_pos; [assert (0 < 2 ^ 52) by reflexivity; lia | apply pow2_pos; lia].
Qed.

(* ------------------------------------------------------------------------------------------ *)
(* B.2 the SpecFloat rounding algorithm computes [rne] / [V]                                   *)
(* ------------------------------------------------------------------------------------------ *)

Lemma shr_1_spec : forall m r s, 0 <= m ->
  shr_1 (Build_shr_record m r s) = Build_shr_record (m / 2) (Z.odd m) (r || s).
Proof.
  intros m r s Hm. rewrite <- Z.div2_div.
  destruct m as [|p|p]; [reflexivity | | lia].
  destruct p; reflexivity.
Qed.

(* the state after k >= 1 one-bit shifts of N (quotient, round bit, sticky bit) *)
Definition st (N k : Z) : shr_record :=
  Build_shr_record (N / 2 ^ k) (Z.testbit N (k - 1)) (negb (N mod 2 ^ (k - 1) =? 0)).

Lemma st_first : forall N, 0 <= N -> shr_1 (Build_shr_record N false false) = st N 1.
Proof.
  intros N HN. rewrite shr_1_spec by exact HN. unfold st.
  change (1 - 1) with 0. change (2 ^ 1) with 2. change (2 ^ 0) with 1.
  rewrite Z.bit0_odd, Z.mod_1_r. reflexivity.
Qed.

Lemma st_step : forall N k, 0 <= N -> 1 <= k -> shr_1 (st N k) = st N (k + 1).
Proof.
  intros N k HN Hk. unfold st.
  pose proof (pow2_pos k ltac:(lia)) as Hpk.
  pose proof (pow2_pos (k - 1) ltac:(lia)) as Hpk1.
  rewrite shr_1_spec by (apply Z.div_pos; lia).
  replace (k + 1 - 1) with k by lia.
  f_equal.
  - rewrite Z.div_div by lia. rewrite pow2_split by lia. reflexivity.
  - rewrite Z.testbit_odd, Z.shiftr_div_pow2 by lia. reflexivity.
  - replace (2 ^ k) with (2 ^ (k - 1) * 2)
      by (replace k with ((k - 1) + 1) at 2 by lia; rewrite pow2_split by lia; reflexivity).
    rewrite Z.rem_mul_r by lia.
    rewrite Z.testbit_odd, Z.shiftr_div_pow2 by lia.
    rewrite Zmod_odd.
    pose proof (Z.mod_pos_bound N (2 ^ (k - 1)) Hpk1) as Hb.
    destruct (Z.odd (N / 2 ^ (k - 1))).
    + simpl orb. symmetry. apply negb_true_iff. apply Z.eqb_neq. lia.
    + simpl orb. rewrite Z.mul_0_r, Z.add_0_r. reflexivity.
Qed.

Lemma iter_pos_inv : forall (A : Type) (f : A -> A) (R : Z -> A -> Prop),
  (forall k x, 0 <= k -> R k x -> R (k + 1) (f x)) ->
  forall p k x, 0 <= k -> R k x -> R (k + Z.pos p) (iter_pos f p x).
Proof.
  intros A f R Hstep p.
  induction p as [p IH | p IH |]; intros k x Hk HR; simpl iter_pos.
  - replace (k + Z.pos p~1) with (k + 1 + Z.pos p + Z.pos p) by lia.
    apply IH; [lia|]. apply IH; [lia|]. apply Hstep; assumption.
  - replace (k + Z.pos p~0) with (k + Z.pos p + Z.pos p) by lia.
    apply IH; [lia|]. apply IH; assumption.
  - apply Hstep; assumption.
Qed.

Lemma shr_iter : forall N p, 0 <= N ->
  iter_pos shr_1 p (Build_shr_record N false false) = st N (Z.pos p).
Proof.
  intros N p HN.
  pose (R := fun (k : Z) (x : shr_record) =>
               if k =? 0 then x = Build_shr_record N false false else x = st N k).
  assert (Hstep : forall k x, 0 <= k -> R k x -> R (k + 1) (shr_1 x)).
  { intros k x Hk HR. unfold R in *.
    destruct (Z.eqb_spec k 0) as [E|NE].
    - subst k x. simpl. apply st_first. exact HN.
    - destruct (Z.eqb_spec (k + 1) 0) as [E1|_]; [lia|].
      subst x. apply st_step; lia. }
  pose proof (iter_pos_inv _ shr_1 R Hstep p 0 (Build_shr_record N false false)
                ltac:(lia) eq_refl) as H.
  unfold R in H. simpl in H. exact H.
Qed.

Lemma rne_shr : forall N n, 0 <= N -> 0 < n ->
  round_nearest_even (shr_m (st N n)) (loc_of_shr_record (st N n)) = rne N n.
Proof.
  intros N n HN Hn. unfold st, rne. simpl shr_m.
  pose proof (pow2_pos (n - 1) ltac:(lia)) as Hp1.
  assert (E2 : 2 ^ n = 2 ^ (n - 1) * 2).
  { replace n with ((n - 1) + 1) at 1 by lia. rewrite pow2_split by lia. reflexivity. }
  assert (Er : N mod 2 ^ n
               = N mod 2 ^ (n - 1) + 2 ^ (n - 1) * (if Z.testbit N (n - 1) then 1 else 0)).
  { rewrite E2. rewrite Z.rem_mul_r by lia.
    rewrite Z.testbit_odd, Z.shiftr_div_pow2 by lia. rewrite Zmod_odd. reflexivity. }
  pose proof (Z.mod_pos_bound N (2 ^ (n - 1)) Hp1) as Hb.
  rewrite Er. set (a := N mod 2 ^ (n - 1)) in *. set (q := N / 2 ^ n).
  destruct (Z.testbit N (n - 1)).
  - destruct (Z.eqb_spec a 0) as [Ea|Na].
    + replace (2 * (a + 2 ^ (n - 1) * 1) ?= 2 ^ n) with Eq
        by (symmetry; apply Z.compare_eq_iff; lia).
      reflexivity.
    + replace (2 * (a + 2 ^ (n - 1) * 1) ?= 2 ^ n) with Gt
        by (symmetry; apply Z.compare_gt_iff; lia).
      reflexivity.
  - replace (2 * (a + 2 ^ (n - 1) * 0) ?= 2 ^ n) with Lt
      by (symmetry; apply Z.compare_lt_iff; lia).
    destruct (a =? 0); reflexivity.
Qed.

Lemma digits2_bounds : forall p,
  2 ^ (Z.pos (digits2_pos p) - 1) <= Z.pos p < 2 ^ Z.pos (digits2_pos p).
Proof.
  induction p as [p IH | p IH |]; simpl digits2_pos.
  - rewrite Pos2Z.inj_succ.
    replace (Z.succ (Z.pos (digits2_pos p)) - 1) with ((Z.pos (digits2_pos p) - 1) + 1) by lia.
    rewrite Z.pow_succ_r by lia. rewrite pow2_split by lia. change (2 ^ 1) with 2. lia.
  - rewrite Pos2Z.inj_succ.
    replace (Z.succ (Z.pos (digits2_pos p)) - 1) with ((Z.pos (digits2_pos p) - 1) + 1) by lia.
    rewrite Z.pow_succ_r by lia. rewrite pow2_split by lia. change (2 ^ 1) with 2. lia.
  - simpl. lia.
Qed.

Lemma Zdigits2_log2 : forall m, 0 < m -> Zdigits2 m = Z.log2 m + 1.
Proof.
  intros m Hm. destruct m as [|p|p]; try lia. simpl Zdigits2.
  pose proof (digits2_bounds p) as Hb.
  assert (E : Z.log2 (Z.pos p) = Z.pos (digits2_pos p) - 1).
  { apply Z.log2_unique; [lia|].
    replace (Z.succ (Z.pos (digits2_pos p) - 1)) with (Z.pos (digits2_pos p)) by lia.
    exact Hb. }
  lia.
Qed.

(* one normalisation step on an exact value with at least 53 digits *)
Lemma shr_fexp_spec : forall m e, 2 ^ 52 <= m -> -1074 <= e ->
  let n := Z.log2 m - 52 in
  shr_fexp 53 1024 m e loc_Exact
  = if n =? 0 then (Build_shr_record m false false, e) else (st m n, e + n).
Proof.
  intros m e Hm He n.
  pose proof (log2_ge_52 m Hm) as Hl.
  assert (H0 : 0 < m) by (assert (0 < 2 ^ 52) by reflexivity; lia).
  unfold shr_fexp. rewrite (Zdigits2_log2 m H0).
  unfold fexp, emin.
  replace (Z.max (Z.log2 m + 1 + e - 53) (3 - 1024 - 53) - e) with n by (unfold n; lia).
  simpl shr_record_of_loc. unfold shr.
  destruct n as [|pn|pn] eqn:En.
  - reflexivity.
  - simpl Z.eqb. rewrite shr_iter by lia. reflexivity.
  - lia.
Qed.

(* rounding of an exact positive value: the result is finite, its mantissa has 53 bits,
   and its value (in units of 2^e) is V N *)
Lemma bra_spec : forall N e, 2 ^ 52 <= N -> -1074 <= e -> e + (Z.log2 N - 52) + 1 <= 971 ->
  exists m2 e2,
    binary_round_aux 53 1024 false N e loc_Exact = S754_finite false m2 e2 /\
    e <= e2 <= e + (Z.log2 N - 52) + 1 /\
    Z.pos m2 * 2 ^ (e2 - e) = V N /\
    2 ^ 52 <= Z.pos m2 < 2 ^ 53.
Proof.
  intros N e HN He Hmax.
  pose proof (log2_ge_52 N HN) as Hl.
  pose proof (rne_mantissa N HN) as Hman.
  unfold binary_round_aux.
  rewrite (shr_fexp_spec N e HN He). unfold V.
  set (n := Z.log2 N - 52) in *.
  assert (Hm1 : (let '(mrs', e') :=
                   if n =? 0 then (Build_shr_record N false false, e) else (st N n, e + n) in
                 (round_nearest_even (shr_m mrs') (loc_of_shr_record mrs'), e'))
                = (rne N n, e + n)).
  { destruct (Z.eqb_spec n 0) as [E|NE].
    - rewrite E. simpl. rewrite rne_0. f_equal. lia.
    - rewrite rne_shr by lia. reflexivity. }
  destruct (if n =? 0 then (Build_shr_record N false false, e) else (st N n, e + n))
    as [mrs' e'].
  injection Hm1 as Em Ee. rewrite Em, Ee. clear Em Ee mrs' e'.
  set (m1 := rne N n) in *.
  assert (Hm1 : 2 ^ 52 <= m1) by lia.
  rewrite (shr_fexp_spec m1 (e + n) Hm1 ltac:(lia)).
  destruct (Z.eq_dec m1 (2 ^ 53)) as [E53|N53].
  - (* carry: the mantissa became 2^53 *)
    rewrite E53. change (Z.log2 (2 ^ 53) - 52) with 1. simpl Z.eqb. cbv iota.
    change (shr_m (st (2 ^ 53) 1)) with (2 ^ 52). change (2 ^ 52) with (Z.pos (2 ^ 52)%positive).
    cbv iota beta.
    replace (e + n + 1 <=? 1024 - 53) with true by (symmetry; apply Z.leb_le; lia).
    exists (2 ^ 52)%positive, (e + n + 1).
    split; [reflexivity|]. split; [lia|]. split.
    + replace (e + n + 1 - e) with (1 + n) by lia. rewrite pow2_split by lia.
      change (Z.pos (2 ^ 52)%positive) with (2 ^ 52). change (2 ^ 1) with 2.
      change (2 ^ 53) with (2 ^ 52 * 2). ring.
    + split; [apply Z.le_refl | reflexivity].
  - assert (Hlt : m1 < 2 ^ 53) by lia.
    assert (El : Z.log2 m1 = 52).
    { apply Z.log2_unique; [lia|]. change (Z.succ 52) with 53. lia. }
    rewrite El. simpl Z.eqb. cbv iota. simpl shr_m.
    destruct m1 as [|pm|pm] eqn:Epm; try (exfalso; assert (0 < 2 ^ 52) by reflexivity; lia).
    replace (e + n <=? 1024 - 53) with true by (symmetry; apply Z.leb_le; lia).
    exists pm, (e + n).
    split; [reflexivity|]. split; [lia|]. split.
    + replace (e + n - e) with n by lia. reflexivity.
    + lia.
Qed.

(* ------------------------------------------------------------------------------------------ *)
(* B.3 [share] as an integer expression                                                        *)
(* ------------------------------------------------------------------------------------------ *)

(* mantissa of the binary64 literal 0.02 (exponent -58) *)
Definition MC : Z := 5764607523034235.

Lemma f_lit_val :
  f_lit FRACTION_MANTISSA FRACTION_EXPONENT = S754_finite false 5764607523034235 (-58).
Proof. vm_compute. reflexivity. Qed.

Lemma norm_value : forall N e m2 e2 T,
  2 ^ 52 <= N -> 0 <= e + 52 -> N * 2 ^ (e + 52) = T -> e <= e2 ->
  Z.pos m2 * 2 ^ (e2 - e) = V N ->
  Z.pos m2 * 2 ^ (e2 + 52) = V T.
Proof.
  intros N e m2 e2 T HN He HT He2 HV.
  rewrite <- HT. rewrite V_scale by lia. rewrite <- HV.
  replace (e2 + 52) with ((e2 - e) + (e + 52)) by lia.
  rewrite pow2_split by lia. ring.
Qed.

(* `t as f64` *)
Lemma f_of_Z_spec : forall t, 1 <= t <= 2 ^ 64 ->
  exists mX eX,
    f_of_Z t = S754_finite false mX eX /\
    -52 <= eX <= 13 /\
    Z.pos mX * 2 ^ (eX + 52) = V (t * 2 ^ 52) /\
    2 ^ 52 <= Z.pos mX < 2 ^ 53.
Proof.
  intros t Ht.
  destruct t as [|p|p]; try lia.
  assert (Hl64 : Z.log2 (Z.pos p) <= 64).
  { change 64 with (Z.log2 (2 ^ 64)). apply Z.log2_le_mono. lia. }
  assert (Hl0 : 0 <= Z.log2 (Z.pos p)) by apply Z.log2_nonneg.
  pose proof (Z.log2_spec (Z.pos p) ltac:(lia)) as Hspec.
  change (f_of_Z (Z.pos p)) with (binary_round 53 1024 false p 0).
  unfold binary_round.
  pose proof (Zdigits2_log2 (Z.pos p) ltac:(lia)) as Hd. simpl Zdigits2 in Hd.
  rewrite Hd. unfold fexp, emin.
  replace (Z.max (Z.log2 (Z.pos p) + 1 + 0 - 53) (3 - 1024 - 53))
    with (Z.log2 (Z.pos p) - 52) by lia.
  unfold shl_align.
  destruct (Z.log2 (Z.pos p) - 52 - 0) as [|k|k] eqn:Ek.
  - (* exactly 53 digits *)
    assert (El : Z.log2 (Z.pos p) = 52) by lia.
    assert (HN : 2 ^ 52 <= Z.pos p) by (rewrite El in Hspec; lia).
    destruct (bra_spec (Z.pos p) 0 HN ltac:(lia) ltac:(lia)) as (m2 & e2 & E & He2 & HV & Hm2).
    exists m2, e2. split; [exact E|]. split; [lia|]. split; [|exact Hm2].
    apply (norm_value (Z.pos p) 0 m2 e2); try lia; try exact HV.
  - (* more than 53 digits *)
    assert (El : 52 <= Z.log2 (Z.pos p)) by lia.
    assert (HN : 2 ^ 52 <= Z.pos p).
    { transitivity (2 ^ Z.log2 (Z.pos p)); [apply Z.pow_le_mono_r; lia | lia]. }
    destruct (bra_spec (Z.pos p) 0 HN ltac:(lia) ltac:(lia)) as (m2 & e2 & E & He2 & HV & Hm2).
    exists m2, e2. split; [exact E|]. split; [lia|]. split; [|exact Hm2].
    apply (norm_value (Z.pos p) 0 m2 e2); try lia; try exact HV.
  - (* fewer than 53 digits: the mantissa is shifted left first *)
    set (l := Z.log2 (Z.pos p)) in *.
    assert (Ek' : Z.pos k = 52 - l) by lia.
    rewrite shift_pos_correct. change (Z.pow_pos 2 k) with (2 ^ Z.pos k).
    set (N := 2 ^ Z.pos k * Z.pos p).
    assert (Hsucc : 2 ^ Z.succ l = 2 ^ l * 2) by (rewrite Z.pow_succ_r by lia; ring).
    assert (Hk : 2 ^ Z.pos k * 2 ^ l = 2 ^ 52).
    { rewrite <- pow2_split by lia. f_equal. lia. }
    assert (HN : 2 ^ 52 <= N < 2 ^ 53).
    { unfold N. pose proof (pow2_pos (Z.pos k) ltac:(lia)) as Hpk.
      change (2 ^ 53) with (2 ^ 52 * 2). rewrite <- Hk. rewrite Hsucc in Hspec. nia. }
    assert (ElN : Z.log2 N = 52).
    { apply Z.log2_unique; [lia|]. change (Z.succ 52) with 53. exact HN. }
    destruct (bra_spec N (l - 52) ltac:(lia) ltac:(lia) ltac:(lia))
      as (m2 & e2 & E & He2 & HV & Hm2).
    exists m2, e2. split; [exact E|]. split; [lia|]. split; [|exact Hm2].
    apply (norm_value N (l - 52) m2 e2); try lia; try exact HV.
    unfold N. replace (l - 52 + 52) with l by lia.
    rewrite <- Hk. ring.
Qed.

(* `x as u64` on m * 2^e2, expressed through the scaled mantissa m * 2^(e2 - e) *)
Lemma trunc_value : forall m e e2, e <= 0 -> e <= e2 ->
  (if 0 <=? e2 then m * 2 ^ e2 else m / 2 ^ (- e2)) = (m * 2 ^ (e2 - e)) / 2 ^ (- e).
Proof.
  intros m e e2 He He2.
  pose proof (pow2_pos (- e) ltac:(lia)) as Hpe.
  destruct (Z.leb_spec 0 e2) as [H|H].
  - replace (e2 - e) with (e2 + (- e)) by lia. rewrite pow2_split by lia.
    rewrite Z.mul_assoc. rewrite Z.div_mul by lia. reflexivity.
  - replace (- e) with ((- e2) + (e2 - e)) by lia. rewrite pow2_split by lia.
    pose proof (pow2_pos (- e2) ltac:(lia)). pose proof (pow2_pos (e2 - e) ltac:(lia)).
    rewrite Z.div_mul_cancel_r by lia. reflexivity.
Qed.

Definition in_clock (t : Z) : Prop := 1 <= t <= 2 ^ 64.

(* the whole binary64 computation in integer arithmetic *)
Theorem share_formula : forall t, in_clock t ->
  share t = Z.min U64MAX (V (V (t * 2 ^ 52) * MC) / 2 ^ 110).
Proof.
  intros t Ht. unfold share. rewrite f_lit_val.
  destruct (f_of_Z_spec t Ht) as (mX & eX & E & HeX & HvX & HmX).
  rewrite E.
  change (f_mul (S754_finite false mX eX) (S754_finite false 5764607523034235 (-58)))
    with (binary_round_aux 53 1024 false (Z.pos (mX * 5764607523034235)) (eX + -58) loc_Exact).
  rewrite Pos2Z.inj_mul. fold MC.
  set (N := Z.pos mX * MC).
  assert (HMC : 2 ^ 52 <= MC < 2 ^ 53) by (unfold MC; split; [discriminate | reflexivity]).
  assert (HN : 2 ^ 104 <= N < 2 ^ 106).
  { unfold N. change (2 ^ 104) with (2 ^ 52 * 2 ^ 52). change (2 ^ 106) with (2 ^ 53 * 2 ^ 53).
    assert (0 < 2 ^ 52) by reflexivity. nia. }
  assert (HN52 : 2 ^ 52 <= N).
  { transitivity (2 ^ 104); [discriminate | lia]. }
  assert (HlN : Z.log2 N < 106) by (apply Z.log2_lt_pow2; lia).
  destruct (bra_spec N (eX + -58) HN52 ltac:(lia) ltac:(lia))
    as (m2 & e2 & E2 & He2 & HV2 & Hm2).
  rewrite E2. unfold f_trunc_sat. f_equal.
  rewrite (trunc_value (Z.pos m2) (eX + -58) e2) by lia.
  rewrite HV2.
  (* scale numerator and denominator by 2^(eX + 52) *)
  pose proof (pow2_pos (eX + 52) ltac:(lia)) as Hp1.
  pose proof (pow2_pos (- (eX + -58)) ltac:(lia)) as Hp2.
  rewrite <- (Z.div_mul_cancel_r (V N) (2 ^ (- (eX + -58))) (2 ^ (eX + 52))) by lia.
  rewrite <- pow2_split by lia.
  replace (- (eX + -58) + (eX + 52)) with 110 by lia.
  rewrite <- V_scale by lia.
  f_equal. f_equal. unfold N. rewrite <- HvX. ring.
Qed.

Lemma scaled_ge : forall t, 1 <= t -> 2 ^ 52 <= t * 2 ^ 52.
Proof. intros t Ht. assert (0 < 2 ^ 52) by reflexivity. nia. Qed.

Lemma inner_ge : forall t, 1 <= t -> 2 ^ 52 <= V (t * 2 ^ 52) * MC.
Proof.
  intros t Ht.
  assert (H1 : 2 ^ 52 <= V (t * 2 ^ 52)).
  { assert (E : V (1 * 2 ^ 52) = 1 * 2 ^ 52).
    { apply V_exact; [split; reflexivity | lia | discriminate]. }
    transitivity (V (1 * 2 ^ 52)); [rewrite E; discriminate|].
    apply V_mono; [discriminate|]. assert (0 < 2 ^ 52) by reflexivity. nia. }
  unfold MC. assert (0 < 2 ^ 52) by reflexivity. nia.
Qed.

Lemma share_0 : share 0 = 0.
Proof. vm_compute. reflexivity. Qed.

Lemma share_nonneg_clock : forall t, in_clock t -> 0 <= share t.
Proof.
  intros t Ht. rewrite (share_formula t Ht).
  pose proof (V_pos _ (inner_ge t (proj1 Ht))) as Hp.
  assert (0 <= V (V (t * 2 ^ 52) * MC) / 2 ^ 110) by (apply Z.div_pos; [lia | reflexivity]).
  unfold U64MAX. lia.
Qed.

Theorem share_mono_clock : forall t1 t2,
  0 <= t1 -> t1 <= t2 -> t2 <= 2 ^ 64 -> share t1 <= share t2.
Proof.
  intros t1 t2 H0 H12 H2.
  destruct (Z.eq_dec t1 0) as [E|NE].
  - subst t1. rewrite share_0.
    destruct (Z.eq_dec t2 0) as [E2|NE2]; [subst t2; rewrite share_0; lia|].
    apply share_nonneg_clock. unfold in_clock. lia.
  - rewrite (share_formula t1) by (unfold in_clock; lia).
    rewrite (share_formula t2) by (unfold in_clock; lia).
    apply Z.min_le_compat_l. apply Z.div_le_mono; [reflexivity|].
    apply V_mono; [apply inner_ge; lia|].
    apply Z.mul_le_mono_nonneg_r; [unfold MC; lia|].
    apply V_mono; [apply scaled_ge; lia|].
    apply Z.mul_le_mono_nonneg_r; [discriminate | exact H12].
Qed.

Print Assumptions share_mono_clock.

(* below 50 * 2^46 the share is exactly the integer quotient t / 50 *)
Theorem share_exact_clock : forall t, 0 <= t < 50 * 2 ^ 46 -> share t = t / 50.
Proof.
  intros t Ht.
  destruct (Z.eq_dec t 0) as [E|NE]; [subst t; vm_compute; reflexivity|].
  assert (H246 : 2 ^ 46 = 70368744177664) by reflexivity.
  rewrite share_formula by (unfold in_clock; change (2 ^ 64) with 18446744073709551616; lia).
  set (q := t / 50).
  pose proof (Z.div_mod t 50 ltac:(lia)) as Hdm. fold q in Hdm.
  pose proof (Z.mod_pos_bound t 50 ltac:(lia)) as Hr.
  assert (Hq0 : 0 <= q) by (apply Z.div_pos; lia).
  rewrite (V_exact t 52) by (try lia; apply scaled_ge; lia).
  set (Y := t * 2 ^ 52 * MC).
  assert (HY : 2 ^ 52 <= Y).
  { unfold Y, MC. assert (0 < 2 ^ 52) by reflexivity. nia. }
  assert (Hq : V Y / 2 ^ 110 = q).
  { apply Z.le_antisymm.
    - (* Y <= (128 q + 127) * 2^103, which is a 53-bit number times a power of two *)
      assert (HU : Y <= (128 * q + 127) * 2 ^ 103).
      { unfold Y, MC. change (2 ^ 103) with (2 ^ 58 * 2 ^ 45). change (2 ^ 52) with (128 * 2 ^ 45).
        change (2 ^ 58) with 288230376151711744.
        assert (0 < 2 ^ 45) by reflexivity.
        assert (128 * t * 5764607523034235 <= (128 * q + 127) * 288230376151711744) by lia.
        nia. }
      assert (HVU : V Y <= (128 * q + 127) * 2 ^ 103).
      { rewrite <- (V_exact (128 * q + 127) 103); [apply V_mono; assumption | lia | lia |].
        transitivity Y; assumption. }
      assert (HD : V Y / 2 ^ 110 <= (128 * q + 127) * 2 ^ 103 / 2 ^ 110)
        by (apply Z.div_le_mono; [reflexivity | exact HVU]).
      change (2 ^ 110) with (2 ^ 7 * 2 ^ 103) in HD.
      rewrite Z.div_mul_cancel_r in HD by discriminate.
      change (2 ^ 7) with 128 in HD.
      assert ((128 * q + 127) / 128 < q + 1) by (apply Z.div_lt_upper_bound; lia).
      change (2 ^ 110) with (128 * 2 ^ 103). lia.
    - destruct (Z.eq_dec q 0) as [Eq0|Nq0].
      + rewrite Eq0. apply Z.div_pos; [|reflexivity].
        apply Z.lt_le_incl, V_pos. exact HY.
      + assert (HL : q * 2 ^ 110 <= Y).
        { unfold Y, MC. change (2 ^ 110) with (2 ^ 58 * 2 ^ 52).
          change (2 ^ 58) with 288230376151711744.
          assert (0 < 2 ^ 52) by reflexivity.
          assert (q * 288230376151711744 <= t * 5764607523034235) by lia.
          nia. }
        assert (Hq52 : 2 ^ 52 <= q * 2 ^ 110).
        { change (2 ^ 110) with (2 ^ 52 * 2 ^ 58). assert (0 < 2 ^ 52) by reflexivity.
          assert (0 < 2 ^ 58) by reflexivity. nia. }
        assert (HVL : q * 2 ^ 110 <= V Y).
        { rewrite <- (V_exact q 110); [apply V_mono; assumption | lia | lia | exact Hq52]. }
        apply Z.div_le_lower_bound; [reflexivity | lia]. }
  rewrite Hq. unfold U64MAX. lia.
Qed.

Print Assumptions share_exact_clock.

(* 5a. the 2% share is monotone in the clock *)
Theorem share_mono : forall t1 t2,
  0 <= t1 -> t1 <= t2 -> t2 <= U64MAX -> share t1 <= share t2.
Proof.
  intros t1 t2 H0 H12 H2. apply share_mono_clock; try assumption.
  unfold U64MAX in H2. lia.
Qed.

Print Assumptions share_mono.

(* share (2^k) <= 2^(k-1) for k = 0..64, by computation *)
Definition pow2_table : list Z := map Z.of_nat (seq 0 65).

Lemma pow2_table_ok : forallb (fun k => share (2 ^ k) <=? 2 ^ k / 2) pow2_table = true.
Proof. vm_compute. reflexivity. Qed.

Lemma share_pow2 : forall k, 0 <= k <= 64 -> share (2 ^ k) <= 2 ^ k / 2.
Proof.
  intros k Hk.
  pose proof pow2_table_ok as H. rewrite forallb_forall in H.
  apply Z.leb_le. apply H. unfold pow2_table.
  rewrite <- (Z2Nat.id k) by lia. apply in_map. apply in_seq. lia.
Qed.

(* 4. the share is between 0 and the clock *)
Theorem share_bound : forall t, in_u64 t -> 0 <= share t <= t.
Proof.
  intros t [H0 H1]. split.
  - rewrite <- share_0. apply share_mono; lia.
  - destruct (Z.eq_dec t 0) as [E|NE]; [subst t; rewrite share_0; lia|].
    assert (Ht : 0 < t) by lia.
    set (k := Z.log2_up t).
    assert (Hk0 : 0 <= k) by apply Z.log2_up_nonneg.
    assert (Hk1 : t <= 2 ^ k).
    { destruct (Z.eq_dec t 1) as [E1|N1]; [subst t; vm_compute; discriminate|].
      apply (Z.log2_up_spec t). lia. }
    assert (Hk2 : k <= 64).
    { unfold k. apply Z.log2_up_le_pow2; [lia|]. unfold U64MAX in H1. lia. }
    assert (Hk3 : 2 ^ k / 2 <= t).
    { destruct (Z.eq_dec t 1) as [E1|N1]; [subst t; vm_compute; discriminate|].
      assert (Hk : 0 < k) by (apply Z.log2_up_pos; lia).
      pose proof (Z.log2_up_spec t ltac:(lia)) as [Hs _]. fold k in Hs.
      replace k with (Z.succ (Z.pred k)) by lia.
      rewrite Z.pow_succ_r by lia.
      rewrite Z.mul_comm, Z.div_mul by lia. lia. }
    assert (Hle : 2 ^ k <= 2 ^ 64) by (apply Z.pow_le_mono_r; lia).
    transitivity (share (2 ^ k)).
    + apply share_mono_clock; lia.
    + pose proof (share_pow2 k ltac:(lia)). lia.
Qed.

Print Assumptions share_bound.

(* a cheap corollary of the same kind (table at the powers of two): the share is at most 1/16
   of the clock (the exact factor is 0.02; this only shows that the bound [<= t] above is
   far from tight) *)
Lemma pow2_table16_ok : forallb (fun k => share (2 ^ k) <=? 2 ^ k / 32) pow2_table = true.
Proof. vm_compute. reflexivity. Qed.

Theorem share_le_16th : forall t, in_u64 t -> share t <= t / 16.
Proof.
  intros t [H0 H1].
  destruct (Z.eq_dec t 0) as [E|NE]; [subst t; rewrite share_0; vm_compute; discriminate|].
  destruct (Z.eq_dec t 1) as [E1|N1]; [subst t; vm_compute; discriminate|].
  set (k := Z.log2_up t).
  assert (Hk : 0 < k) by (apply Z.log2_up_pos; lia).
  pose proof (Z.log2_up_spec t ltac:(lia)) as [Hs1 Hs2]. fold k in Hs1, Hs2.
  assert (Hk2 : k <= 64).
  { unfold k. apply Z.log2_up_le_pow2; [lia|]. unfold U64MAX in H1. lia. }
  assert (Hle : 2 ^ k <= 2 ^ 64) by (apply Z.pow_le_mono_r; lia).
  assert (Hsh : share t <= share (2 ^ k)) by (apply share_mono_clock; lia).
  assert (Htab : share (2 ^ k) <= 2 ^ k / 32).
  { pose proof pow2_table16_ok as H. rewrite forallb_forall in H.
    apply Z.leb_le. apply H. unfold pow2_table.
    rewrite <- (Z2Nat.id k) by lia. apply in_map. apply in_seq. lia. }
  assert (Hdiv : 2 ^ k / 32 <= t / 16).
  { assert (E : 2 ^ k = 2 * 2 ^ Z.pred k).
    { replace k with (Z.succ (Z.pred k)) at 1 by lia. apply Z.pow_succ_r. lia. }
    assert (Hp : 0 < 2 ^ Z.pred k) by (apply Z.pow_pos_nonneg; lia).
    assert (D : 2 ^ k / 32 = 2 ^ Z.pred k / 16).
    { rewrite E. replace 32 with (2 * 16) by reflexivity.
      apply Z.div_mul_cancel_l; lia. }
    assert (D2 : 2 ^ Z.pred k / 16 <= t / 16) by (apply Z.div_le_mono; lia).
    lia. }
  lia.
Qed.

Print Assumptions share_le_16th.

(* 4b. on every realistic clock (below 50 * 2^46 ms, i.e. more than 100000 years) the binary64
   computation gives exactly the integer quotient by 50: the rounding of 0.02 and of the
   product never reaches the next integer *)
Theorem share_exact : forall t, 0 <= t < 50 * 2 ^ 46 -> share t = t / 50.
Proof. exact share_exact_clock. Qed.

Print Assumptions share_exact.

(* so the budget is this float-free expression *)
Corollary side_budget_exact : forall t inc,
  0 <= t < 50 * 2 ^ 46 ->
  side_budget t inc = Z.min t (Z.max 0 (Z.min U64MAX (t / 50 + inc) - 150)).
Proof.
  intros t inc Ht. unfold side_budget. rewrite (share_exact t Ht). reflexivity.
Qed.

(* the exactness does not extend to the whole u64 range *)
Example share_not_exact_high : share (2 ^ 63) = 2 ^ 63 / 50 + 4
                               /\ share U64MAX = U64MAX / 50 + 8.
Proof. vm_compute. split; reflexivity. Qed.

(* sample points of [share] (the same values as `(t as f64 * 0.02) as u64` computed by rustc) *)
Example share_table :
  map share (0 :: 1 :: 49 :: 50 :: 51 :: 99 :: 100 :: 7499 :: 7500 :: 7549 :: 7550 :: 60000
             :: 2 ^ 53 :: 2 ^ 53 + 1 :: 2 ^ 63 :: U64MAX - 1 :: U64MAX :: nil)
  = 0 :: 0 :: 0 :: 1 :: 1 :: 1 :: 2 :: 149 :: 150 :: 150 :: 151 :: 1200
      :: 180143985094819 :: 180143985094819 :: 184467440737095520
      :: 368934881474191040 :: 368934881474191040 :: nil.
Proof. vm_compute. reflexivity. Qed.

Lemma share_7549 : share 7549 = 150.
Proof. vm_compute. reflexivity. Qed.

Lemma share_7550 : share 7550 = 151.
Proof. vm_compute. reflexivity. Qed.

(* 3. a low clock shortens the thinking time: below 7550 ms (increment 0) the budget is 0 *)
Theorem low_clock_shortens : forall t,
  0 <= t < 7550 -> share t <= LATENCY_MS_COMPENSATE /\ side_budget t 0 = 0.
Proof.
  intros t Ht.
  assert (Hs : share t <= 150).
  { rewrite <- share_7549. apply share_mono; unfold U64MAX; lia. }
  assert (Hs0 : 0 <= share t) by (apply share_bound; unfold in_u64, U64MAX; lia).
  split; [exact Hs|].
  unfold side_budget, LATENCY_MS_COMPENSATE. lia.
Qed.

Print Assumptions low_clock_shortens.

(* with an increment: nothing is left whenever share + increment stays within the allowance *)
Theorem low_clock_shortens_inc : forall t inc,
  in_u64 t -> 0 <= inc -> share t + inc <= LATENCY_MS_COMPENSATE -> side_budget t inc = 0.
Proof.
  intros t inc Ht Hinc H. pose proof (share_bound t Ht) as Hs. unfold in_u64 in Ht.
  unfold side_budget, LATENCY_MS_COMPENSATE in *. lia.
Qed.

(* the threshold is exact *)
Theorem budget_zero_iff : forall t, in_u64 t -> (side_budget t 0 = 0 <-> t < 7550).
Proof.
  intros t Ht. split.
  - intros H0.
    destruct (Z_lt_le_dec t 7550) as [Hlt|Hge]; [exact Hlt|exfalso].
    assert (Hs : 151 <= share t).
    { rewrite <- share_7550. apply share_mono; unfold in_u64 in Ht; lia. }
    pose proof (share_bound t Ht) as Hb. unfold in_u64 in Ht.
    unfold side_budget, LATENCY_MS_COMPENSATE in H0. lia.
  - intros Hlt. apply low_clock_shortens. unfold in_u64 in Ht. lia.
Qed.

Print Assumptions budget_zero_iff.

Corollary low_clock_timer : forall wt bt wi bi,
  0 <= wt < 7550 ->
  go_timer (Some wt) (Some bt) (Some 0) (Some bi) true None false = Some 0 /\
  go_timer (Some bt) (Some wt) (Some wi) (Some 0) false None false = Some 0.
Proof.
  intros wt bt wi bi Hwt. rewrite !go_timer_clock.
  destruct (low_clock_shortens wt Hwt) as [_ H]. rewrite H. split; reflexivity.
Qed.

(* 5. a lower clock never yields a larger budget (same increment, any increment) *)
Theorem monotone_low_clock : forall t1 t2 inc,
  0 <= t1 -> t1 <= t2 -> t2 <= U64MAX -> side_budget t1 inc <= side_budget t2 inc.
Proof.
  intros t1 t2 inc H0 H12 H2.
  pose proof (share_mono t1 t2 H0 H12 H2) as Hs.
  unfold side_budget. lia.
Qed.

Print Assumptions monotone_low_clock.

Theorem monotone_low_clock_go : forall (c1 c2 other wi bi : Z) (wtm : bool) b1 b2,
  0 <= c1 -> c1 <= c2 -> c2 <= U64MAX ->
  go_time (Some (if wtm then c1 else other)) (Some (if wtm then other else c1))
          (Some wi) (Some bi) wtm None = Some b1 ->
  go_time (Some (if wtm then c2 else other)) (Some (if wtm then other else c2))
          (Some wi) (Some bi) wtm None = Some b2 ->
  b1 <= b2.
Proof.
  intros c1 c2 other wi bi wtm b1 b2 H0 H12 H2 E1 E2.
  destruct wtm; rewrite go_time_clock in E1, E2;
    injection E1 as E1; injection E2 as E2; subst b1 b2;
    apply monotone_low_clock; assumption.
Qed.

Theorem monotone_low_clock_timer : forall (c1 c2 other wi bi : Z) (wtm : bool) s1 s2,
  0 <= c1 -> c1 <= c2 -> c2 <= U64MAX ->
  go_timer (Some (if wtm then c1 else other)) (Some (if wtm then other else c1))
           (Some wi) (Some bi) wtm None false = Some s1 ->
  go_timer (Some (if wtm then c2 else other)) (Some (if wtm then other else c2))
           (Some wi) (Some bi) wtm None false = Some s2 ->
  s1 <= s2.
Proof.
  intros c1 c2 other wi bi wtm s1 s2 H0 H12 H2 E1 E2.
  pose proof (fun inc => monotone_low_clock c1 c2 inc H0 H12 H2) as M.
  destruct wtm; rewrite go_timer_clock in E1, E2;
    injection E1 as E1; injection E2 as E2; subst s1 s2.
  - specialize (M wi). lia.
  - specialize (M bi). lia.
Qed.

Print Assumptions monotone_low_clock_timer.

(* the budget is also monotone in the increment (float-independent) *)
Lemma monotone_increment : forall t inc1 inc2,
  inc1 <= inc2 -> side_budget t inc1 <= side_budget t inc2.
Proof.
  intros t inc1 inc2 H. unfold side_budget. lia.
Qed.

(* ------------------------------------------------------------------------------------------ *)
(* Part C: examples by computation                                                             *)
(* ------------------------------------------------------------------------------------------ *)

(* `go wtime 1000 btime 1000 winc 0 binc 0`: 20 + 0 - 150 saturates to 0 *)
Example ex_wrap_case :
  go_timer (Some 1000) (Some 1000) (Some 0) (Some 0) true None false = Some 0.
Proof. vm_compute. reflexivity. Qed.

(* 1200 + 0 - 150 - 5 *)
Example ex_minute :
  go_timer (Some 60000) (Some 60000) (Some 0) (Some 0) true None false = Some 1045.
Proof. vm_compute. reflexivity. Qed.

Example ex_minute_black :
  go_timer (Some 1000) (Some 60000) (Some 0) (Some 2000) false None false = Some 3045.
Proof. vm_compute. reflexivity. Qed.

(* a huge increment is clamped to the own clock (then the 5 ms cut) *)
Example ex_huge_increment :
  go_timer (Some 60000) (Some 1000) (Some U64MAX) (Some 0) true None false = Some 59995.
Proof. vm_compute. reflexivity. Qed.

Example ex_increment_above_clock :
  go_timer (Some 1000) (Some 1000) (Some 5000) (Some 5000) false None false = Some 995.
Proof. vm_compute. reflexivity. Qed.

(* the extreme corner: the sum saturates at U64MAX, then - 150 - 5; no wrap-around *)
Example ex_u64_corner :
  go_timer (Some U64MAX) (Some U64MAX) (Some U64MAX) (Some U64MAX) true None false
  = Some (U64MAX - 155).
Proof. vm_compute. reflexivity. Qed.

Example ex_movetime :
  go_timer (Some 60000) (Some 60000) (Some 0) (Some 0) true (Some 100) false = Some 95.
Proof. vm_compute. reflexivity. Qed.

Example ex_movetime_short : go_timer None None None None true (Some 3) false = Some 0.
Proof. vm_compute. reflexivity. Qed.

Example ex_infinite :
  go_timer (Some 60000) (Some 60000) (Some 0) (Some 0) true (Some 100) true = None.
Proof. vm_compute. reflexivity. Qed.

(* a clock value that did not parse: no budget, no timer *)
Example ex_incomplete : go_timer (Some 60000) (Some 60000) (Some 0) None true None false = None.
Proof. vm_compute. reflexivity. Qed.

(* For the record, the computation as it was before the repair (commit "time budget could wrap
   around or exceed the clock"): `share + inc - 150` in plain u64 arithmetic, which wraps in a
   release build.  Not part of the model of the current code. *)
Definition unrepaired_budget (t inc : Z) : Z :=
  (share t + inc - LATENCY_MS_COMPENSATE) mod 2 ^ 64.

Example unrepaired_wraps :
  Z.max 0 (unrepaired_budget 1000 0 - SLEEP_CUT_MS) = 18446744073709551481.
Proof. vm_compute. reflexivity. Qed.

Example unrepaired_above_clock : unrepaired_budget 1000 5000 = 4870.
Proof. vm_compute. reflexivity. Qed.
