(* The pin shortcut of the move filter (Game::get_moves): while the own king is not attacked, a
   move of a piece that starts on a square sharing no rank, file or diagonal with the king
   cannot expose the king.

   Main theorems:
     shortcut_sound_gen  (rule level, minimal premises)
     shortcut_sound      (rule level, the premises as stated in the task)
     shortcut_targeted   (model level: board_targeted / bset, through Proofs/AttackSpec.v) *)
From Coq Require Import Lia ZifyBool.
From Chess Require Import Model.Attack Model.MoveGen Spec.Rules Proofs.Grid Proofs.AttackSpec.
Open Scope Z_scope.

(* ---- geometry ------------------------------------------------------------------------------- *)

(* a square strictly between a and k lies on a common line with k *)
Lemma strictly_between_aligned a k q :
  strictly_between a k q = true -> not_aligned q k = false.
Proof.
  destruct a as [ar ac], k as [kr kc], q as [qr qc].
  unfold strictly_between, not_aligned. cbn [fst snd].
  rewrite !andb_true_iff, !sgn_eqb_iff. intros H. lia.
Qed.

Lemma not_aligned_neq s k : not_aligned s k = true -> s <> k.
Proof. intros H ->. unfold not_aligned in H. lia. Qed.

(* ---- transfer of an attack between two boards ---------------------------------------------------- *)

Lemma attacks_transfer b b' a t pc :
  at_ b a = Some pc -> at_ b' a = Some pc ->
  (clear_path b' a t = true -> clear_path b a t = true) ->
  attacks b' a t = true -> attacks b a t = true.
Proof.
  intros E E' Hcp. unfold attacks. rewrite E, E'.
  destruct (pk pc); try (intros H; exact H); rewrite !andb_true_iff; intuition.
Qed.

(* the board after the move: start square emptied, then the end square set *)
Definition moved (b : grid (option piece)) (s e : pos) (pc : piece) : grid (option piece) :=
  put (put b s None) e (Some pc).

Lemma moved_at_e b s e pc : wf_grid b -> valid e -> at_ (moved b s e pc) e = Some pc.
Proof.
  intros Hwf He. unfold moved, put, at_. apply grid_get_set_same; [|exact He].
  apply wf_grid_set. exact Hwf.
Qed.

Lemma moved_at_s b s e pc :
  wf_grid b -> valid s -> s <> e -> at_ (moved b s e pc) s = None.
Proof.
  intros Hwf Hs Hne. unfold moved, put, at_.
  rewrite grid_get_set_other by (intros F; apply Hne; symmetry; exact F).
  apply grid_get_set_same; assumption.
Qed.

Lemma moved_at_other b s e pc q : q <> s -> q <> e -> at_ (moved b s e pc) q = at_ b q.
Proof.
  intros H1 H2. unfold moved, put, at_.
  rewrite grid_get_set_other by (intros F; apply H2; symmetry; exact F).
  apply grid_get_set_other. intros F; apply H1; symmetry; exact F.
Qed.

(* ---- the shortcut lemma -------------------------------------------------------------------------- *)

(* Minimal premises: the moved piece only has to be of the king's colour; what stood on s and
   what stands on k do not matter. *)
Theorem shortcut_sound_gen b c k s e pc :
  wf_grid b -> valid s -> valid e ->
  attacked b k (other c) = false ->
  not_aligned s k = true ->
  po pc = c ->
  attacked (moved b s e pc) k (other c) = false.
Proof.
  intros Hwf Hs He Hnot Hal Hpc.
  destruct (attacked (moved b s e pc) k (other c)) eqn:Hatt; [|reflexivity].
  exfalso. apply attacked_iff in Hatt. destruct Hatt as (a & pa & Ha & Ea & Hca & Hatk).
  (* the attacker is not the moved piece *)
  assert (Hae : a <> e).
  { intros ->. rewrite (moved_at_e b s e pc Hwf He) in Ea. inversion Ea; subst pa.
    rewrite Hca in Hpc. destruct c; discriminate. }
  (* nor does it stand on the vacated square *)
  assert (Has : a <> s).
  { intros ->. rewrite (moved_at_s b s e pc Hwf Hs Hae) in Ea. discriminate. }
  assert (Ea0 : at_ b a = Some pa) by (rewrite <- (moved_at_other b s e pc a Has Hae); exact Ea).
  assert (Hatk0 : attacks b a k = true).
  { apply (attacks_transfer b (moved b s e pc) a k pa Ea0 Ea); [|exact Hatk].
    rewrite !clear_path_iff. intros Hcp q Hq Hsb.
    assert (Hqs : q <> s).
    { intros ->. apply strictly_between_aligned in Hsb. congruence. }
    assert (Hqe : q <> e).
    { intros ->. specialize (Hcp e Hq Hsb). rewrite (moved_at_e b s e pc Hwf He) in Hcp.
      discriminate. }
    rewrite <- (moved_at_other b s e pc q Hqs Hqe). apply Hcp; assumption. }
  assert (Hyes : attacked b k (other c) = true).
  { apply attacked_iff. exists a, pa. auto. }
  congruence.
Qed.

(* The statement as asked for. *)
Theorem shortcut_sound b c k s e pc ps :
  wf_grid b ->
  valid k -> has b k King c = true ->
  attacked b k (other c) = false ->
  valid s -> valid e -> s <> k -> e <> k ->
  at_ b s = Some ps -> po ps = c ->
  not_aligned s k = true ->
  po pc = c ->
  attacked (put (put b s None) e (Some pc)) k (other c) = false.
Proof.
  intros Hwf _ _ Hnot Hs He _ _ _ _ Hal Hpc.
  exact (shortcut_sound_gen b c k s e pc Hwf Hs He Hnot Hal Hpc).
Qed.

Print Assumptions shortcut_sound.

(* the king stays where it is (needs e <> k) *)
Lemma moved_keeps_king b c k s e pc :
  has b k King c = true -> not_aligned s k = true -> e <> k ->
  has (moved b s e pc) k King c = true.
Proof.
  intros Hk Hal Hek. unfold has in *.
  rewrite (moved_at_other b s e pc k); auto.
  intros ->. apply not_aligned_neq in Hal. congruence.
Qed.

(* Model level: the engine's own attack test, on the board that [push] of a Normal move
   builds (two [set_position] calls = two [bset]) *)
Theorem shortcut_targeted b c k s e pc :
  wf_grid b -> valid k -> valid s -> valid e ->
  board_targeted b k c = false ->
  not_aligned s k = true ->
  po pc = c ->
  board_targeted (bset (bset b s None) e (Some pc)) k c = false.
Proof.
  intros Hwf Hk Hs He Hnot Hal Hpc.
  rewrite targeted_is_attacked_any in * by exact Hk.
  exact (shortcut_sound_gen b c k s e pc Hwf Hs He Hnot Hal Hpc).
Qed.

Print Assumptions shortcut_targeted.

(* ---- game level: the shortcut branch of the filter agrees with the push / is_targeted test -------- *)

Lemma push_finish_board g st : g_board (push_finish g st) = g_board g.
Proof. reflexivity. Qed.

Lemma push_finish_kings g st c : king_pos (push_finish g st) c = king_pos g c.
Proof. destruct c; reflexivity. Qed.

Lemma set_king_pos_board g c p : g_board (set_king_pos g c p) = g_board g.
Proof. destruct c; reflexivity. Qed.

Lemma set_position_board' g p v : g_board (set_position g p v) = bset (g_board g) p v.
Proof. reflexivity. Qed.

Lemma set_position_kings' g p v c : king_pos (set_position g p v) c = king_pos g c.
Proof. destruct c; reflexivity. Qed.

Lemma push_normal_board g pc s e cap :
  g_board (push g (Normal pc s e cap)) = bset (bset (g_board g) s None) e (Some pc).
Proof.
  unfold push.
  destruct (kind_eqb (pk pc) King); [|destruct (kind_eqb (pk pc) Rook)];
    lazy beta iota zeta; rewrite push_finish_board, ?set_king_pos_board, !set_position_board';
    reflexivity.
Qed.

Lemma push_normal_kings g pc s e cap c :
  pk pc <> King -> king_pos (push g (Normal pc s e cap)) c = king_pos g c.
Proof.
  intros Hk. unfold push.
  destruct (kind_eqb (pk pc) King) eqn:E; [apply kind_eqb_eq in E; contradiction|].
  destruct (kind_eqb (pk pc) Rook);
    lazy beta iota zeta; rewrite push_finish_kings, !set_position_kings'; reflexivity.
Qed.

(* When the filter takes the shortcut for a (non-king) Normal move of the side to move, the full
   test - play the move, ask whether the own king is targeted - would have accepted it too. *)
Theorem shortcut_legal_after g pc s e cap :
  wf_grid (g_board g) ->
  valid (king_pos g (g_player g)) -> valid s -> valid e ->
  po pc = g_player g -> pk pc <> King ->
  shortcut (is_targeted g (king_pos g (g_player g)) (g_player g)) (king_pos g (g_player g))
           (Normal pc s e cap) = true ->
  legal_after g (Normal pc s e cap) = true.
Proof.
  intros Hwf Hk Hs He Hpc Hnk Hsh. unfold shortcut in Hsh.
  apply andb_true_iff in Hsh. destruct Hsh as [Hnt Hal]. apply negb_true_iff in Hnt.
  unfold legal_after, is_targeted in *.
  rewrite push_normal_board, (push_normal_kings g pc s e cap _ Hnk).
  apply negb_true_iff. apply shortcut_targeted; assumption.
Qed.

Print Assumptions shortcut_legal_after.
