(* C03 - placeholder obligations while the general theorems are being built (see DESIGN.md). *)
From Chess Require Import Model.Text Spec.Rules Spec.FenSpec Spec.HashSpec Proofs.Abs.

Theorem C03_start_and_kiwipete : checked_is_legal START = true /\ checked_is_legal KIWIPETE = true.
Proof. vm_compute. split; reflexivity. Qed.
Check C03_start_and_kiwipete : checked_is_legal START = true /\ checked_is_legal KIWIPETE = true.
Print Assumptions C03_start_and_kiwipete.
