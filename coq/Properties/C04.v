(* C04 - The position hash depends only on the position and is stable.  Pinned theorems only. *)
From Chess Require Import Model.Text Spec.Rules Spec.FenSpec Spec.HashSpec Proofs.Abs Proofs.KeysLayout.
From Chess Require Import Gen.Keys.

(* the keys are the little-endian words of the key file at the published byte offsets *)
Theorem C04_layout :
  KEY_BLACK_TO_MOVE = word_at OFFSET_BLACK_TO_MOVE /\ KEY_EMPTY_PLACE = word_at OFFSET_EMPTY_PLACE
  /\ KEYS_STATE = words OFFSET_STATE COUNT_STATE /\ KEYS_PIECE = words OFFSET_PIECE COUNT_PIECE.
Proof. exact (conj key_black_layout (conj key_empty_layout (conj keys_state_layout keys_piece_layout))). Qed.
Check C04_layout : KEY_BLACK_TO_MOVE = word_at OFFSET_BLACK_TO_MOVE /\ KEY_EMPTY_PLACE = word_at OFFSET_EMPTY_PLACE
  /\ KEYS_STATE = words OFFSET_STATE COUNT_STATE /\ KEYS_PIECE = words OFFSET_PIECE COUNT_PIECE.
Print Assumptions C04_layout.

(* the standard start position hashes to the published value, in the specification and in the model *)
Theorem C04_startpos :
  option_map H (parse START_FEN) = Some 0xD9C54592621D7040%N /\ g_hash START = 0xD9C54592621D7040%N.
Proof. vm_compute. split; reflexivity. Qed.
Check C04_startpos : option_map H (parse START_FEN) = Some 0xD9C54592621D7040%N /\ g_hash START = 0xD9C54592621D7040%N.
Print Assumptions C04_startpos.
