(* C04 - The position hash depends only on the position and is stable.  Pinned theorems only. *)
From Chess Require Import Model.Text Spec.Rules Spec.FenSpec Spec.HashSpec Proofs.Grid Proofs.Inv Proofs.Abs
  Proofs.KeysLayout Proofs.HashEval.
From Chess Require Import Gen.Keys.

(* the keys are the little-endian words of the key file at the published byte offsets *)
Theorem C04_layout :
  KEY_BLACK_TO_MOVE = word_at OFFSET_BLACK_TO_MOVE /\ KEY_EMPTY_PLACE = word_at OFFSET_EMPTY_PLACE
  /\ KEYS_STATE = words OFFSET_STATE COUNT_STATE /\ KEYS_PIECE = words OFFSET_PIECE COUNT_PIECE.
Proof. exact (conj key_black_layout (conj key_empty_layout (conj keys_state_layout keys_piece_layout))). Qed.
Check C04_layout : KEY_BLACK_TO_MOVE = word_at OFFSET_BLACK_TO_MOVE /\ KEY_EMPTY_PLACE = word_at OFFSET_EMPTY_PLACE
  /\ KEYS_STATE = words OFFSET_STATE COUNT_STATE /\ KEYS_PIECE = words OFFSET_PIECE COUNT_PIECE.
Print Assumptions C04_layout.

(* the standard start position hashes to the published value, in the specification and in the model *)
Theorem C04_startpos :
  option_map H (parse START_FEN) = Some 0xD9C54592621D7040%N /\ g_hash START = 0xD9C54592621D7040%N.
Proof. vm_compute. split; reflexivity. Qed.
Check C04_startpos : option_map H (parse START_FEN) = Some 0xD9C54592621D7040%N /\ g_hash START = 0xD9C54592621D7040%N.
Print Assumptions C04_startpos.

(* whenever the caches of a game agree with its board (the invariant every import and every
   push / pop preserves, see C03), the maintained hash is the published-key hash of the position *)
Theorem C04_hash_is_H : forall g, CacheInv g -> state_ok (gstate_of g) -> g_hash g = H (abs g).
Proof. exact hash_is_H. Qed.
Check C04_hash_is_H : forall g, CacheInv g -> state_ok (gstate_of g) -> g_hash g = H (abs g).
Print Assumptions C04_hash_is_H.

(* hence two games with the same position have the same hash, whatever their histories *)
Theorem C04_transposition : forall g1 g2, CacheInv g1 -> CacheInv g2 -> state_ok (gstate_of g1) ->
  state_ok (gstate_of g2) -> abs g1 = abs g2 -> g_hash g1 = g_hash g2.
Proof. exact hash_depends_on_position_only. Qed.
Check C04_transposition : forall g1 g2, CacheInv g1 -> CacheInv g2 -> state_ok (gstate_of g1) ->
  state_ok (gstate_of g2) -> abs g1 = abs g2 -> g_hash g1 = g_hash g2.
Print Assumptions C04_transposition.
