(* C05 - Different positions get different hashes.  Pinned theorems only. *)
From Chess Require Import Base.Prelude Proofs.KeysLayout.

Theorem C05_keys_distinct : strictly_increasing (sort_n all_keys) = true /\ length all_keys = 1026%nat.
Proof. exact (conj all_keys_sorted_distinct all_keys_count). Qed.
Check C05_keys_distinct : strictly_increasing (sort_n all_keys) = true /\ length all_keys = 1026%nat.
Print Assumptions C05_keys_distinct.
