(* C16 - The evaluation score is the piece-square sum of the board.  Pinned theorems only. *)
From Chess Require Import Model.Text Spec.Rules Spec.EvalSpec Proofs.Grid Proofs.Inv Proofs.Abs Proofs.HashEval.
Open Scope Z_scope.

(* the maintained score is the (i16-wrapped) piece-square sum, both kings valued by the table in force *)
Theorem C16_score_is_sum : forall g, CacheInv g -> g_score g = wrap16 (eval (g_kend g) (g_board g)).
Proof. exact score_is_eval. Qed.
Check C16_score_is_sum : forall g, CacheInv g -> g_score g = wrap16 (eval (g_kend g) (g_board g)).
Print Assumptions C16_score_is_sum.

Theorem C16_no_wrap : forall g, CacheInv g -> in_i16 (eval (g_kend g) (g_board g)) ->
  g_score g = eval (g_kend g) (g_board g).
Proof. exact score_no_wrap. Qed.
Check C16_no_wrap : forall g, CacheInv g -> in_i16 (eval (g_kend g) (g_board g)) ->
  g_score g = eval (g_kend g) (g_board g).
Print Assumptions C16_no_wrap.

(* the colour-mirrored board has the negated sum and the same phase *)
Theorem C16_mirror : forall e b, wf_grid b ->
  eval e (mirror_board b) = - eval e b /\ spec_is_endgame (mirror_board b) = spec_is_endgame b.
Proof. intros e b H. exact (conj (eval_mirror e b H) (spec_is_endgame_mirror b H)). Qed.
Check C16_mirror : forall e b, wf_grid b ->
  eval e (mirror_board b) = - eval e b /\ spec_is_endgame (mirror_board b) = spec_is_endgame b.
Print Assumptions C16_mirror.

(* non-vacuity: the imported start position and Kiwipete satisfy the cache invariant's consequences *)
Example C16_examples : g_score START = eval false (g_board START) /\ g_score KIWIPETE = eval false (g_board KIWIPETE).
Proof. vm_compute. split; reflexivity. Qed.
