(* The evaluation: sum of the piece-square values of the pieces on the board, both kings valued by
   one table (middlegame or endgame). Independent of the engine's incremental bookkeeping.
   No proofs in this file. *)
From Chess Require Export Spec.Rules.
From Chess Require Import Gen.Tables.

Open Scope Z_scope.

(* each kind is valued by the table that bears its name *)
Definition spec_table (endgame : bool) (k : kind) : list Z :=
  match k with
  | Queen => QUEEN_SCORES | Rook => ROOK_SCORES | Bishop => BISHOP_SCORES
  | Knight => KNIGHT_SCORES | Pawn => PAWN_SCORES
  | King => if endgame then KING_SCORES_END else KING_SCORES_MIDDLE
  end.

(* tables are written from White's point of view with the eighth rank first *)
Definition spec_value (endgame : bool) (pc : piece) (s : pos) : Z :=
  match po pc with
  | White => nth (Z.to_nat ((7 - fst s) * 8 + snd s)) (spec_table endgame (pk pc)) 0
  | Black => - nth (Z.to_nat (fst s * 8 + snd s)) (spec_table endgame (pk pc)) 0
  end.

Definition eval (endgame : bool) (b : grid (option piece)) : Z :=
  fold_left (fun acc s => match at_ b s with
                          | Some pc => acc + spec_value endgame pc s
                          | None => acc
                          end) squares 0.

(* the phase test: total of absolute piece values below twice the threshold *)
Definition spec_total (endgame : bool) (b : grid (option piece)) : Z :=
  fold_left (fun acc s => match at_ b s with
                          | Some pc => acc + Z.abs (spec_value endgame pc s)
                          | None => acc
                          end) squares 0.
Definition spec_is_endgame (b : grid (option piece)) : bool :=
  spec_total false b <? 2 * ENDGAME_THRESHOLD.

(* colour mirror: flip the ranks and swap the colours *)
Definition mirror_piece (o : option piece) : option piece :=
  match o with Some pc => Some (mkPiece (pk pc) (other (po pc))) | None => None end.
Definition mirror_board (b : grid (option piece)) : grid (option piece) :=
  rev (map (map mirror_piece) b).
