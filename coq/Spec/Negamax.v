(* The reference the optimised search is compared with (C09): exhaustive negamax over the same
   tree with the same leaf rule - no windows, no ordering, no table, no killers, no history.
   It is written over an abstract game interface so that it does not depend on how the engine's
   move generation works; the instance for chess is made in the driver / in Proofs.
   Besides the value it reports the two tree conditions under which the property is claimed
   (DESIGN.md C09): a "blocked" node at quiescence level, and overlapping king-less / king-ful
   stand-pat ranges. No proofs in this file. *)
From Chess Require Import Base.Prelude.
Open Scope Z_scope.

Section Ref.
  Variable G M : Type.
  Variable unchecked : G -> list M.      (* moves searched at depth <= 1 and in quiescence *)
  Variable checked : G -> list M.        (* moves searched at remaining depth >= 2 *)
  Variable play : G -> M -> G.
  Variable standpat : G -> Z.            (* evaluation from the side to move's point of view *)
  Variable tactical : M -> bool.
  Variable safe : G -> bool.             (* king present and not attacked *)
  Variable has_king : G -> bool.         (* the side to move has its king *)
  Variable MINS : Z.                     (* Score::MIN *)
  Variable off_node off_d1 off_q : Z.    (* mate offsets 100 / 2000 / 3000 *)

  Definition maxl (l : list Z) (d : Z) : Z := fold_left Z.max l d.

  (* value and flags: (value, blocked node seen) *)
  Fixpoint qref (fuel : nat) (g : G) (real : Z) : Z * bool :=
    match fuel with
    | O => (0, true)
    | S f =>
        match unchecked g with
        | [] => (if safe g then Z.max (standpat g) 0 else Z.max (standpat g) (MINS + off_q + real),
                 has_king g)   (* king present but nothing generated: the leaf rule is window dependent *)
        | ms =>
            let rs := map (fun m => qref f (play g m) (Z.min 255 (real + 1))) (filter tactical ms) in
            (maxl (map (fun r => - fst r) rs) (standpat g), existsb snd rs)
        end
    end.

  Definition d1ref (fuel : nat) (g : G) (real : Z) : Z * bool :=
    match unchecked g with
    | [] => (if safe g then 0 else MINS + off_d1 + real, false)
    | m :: ms =>
        let rs := map (fun m => qref fuel (play g m) (real + 1)) (m :: ms) in
        (maxl (map (fun r => - fst r) (tl rs)) (- fst (hd (0, false) rs)), existsb snd rs)
    end.

  Fixpoint nref (fuel : nat) (rem : nat) (g : G) (real : Z) : Z * bool :=
    match rem with
    | O => qref fuel g real
    | S O => d1ref fuel g real
    | S (S _ as rem') =>
        match checked g with
        | [] => (if safe g then 0 else MINS + off_node + real, false)
        | m :: ms =>
            let rs := map (fun m => nref fuel rem' (play g m) (real + 1)) (m :: ms) in
            (maxl (map (fun r => - fst r) (tl rs)) (- fst (hd (0, false) rs)), existsb snd rs)
        end
    end.

  (* the root: best of the root moves, never below MIN + 1 *)
  Definition rootref (fuel : nat) (depth : nat) (g : G) (moves : list M) : Z * bool :=
    let rs := map (fun m => nref fuel (pred depth) (play g m) 1) moves in
    (maxl (map (fun r => - fst r) rs) (MINS + 1), existsb snd rs).
End Ref.
