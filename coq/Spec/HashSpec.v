(* The published hash of a position: XOR of the key-file entries selected by the position.
   Layout of the key file (README: "hashes consistent across versions"): see Proofs/KeysLayout.v.
   Independent of how the engine maintains its hash incrementally. No proofs in this file. *)
From Chess Require Export Spec.Rules.
From Chess Require Import Gen.Keys.

Open Scope Z_scope.

Definition xors (l : list N) : N := fold_left N.lxor l 0%N.

(* index of a piece in a row of the piece key table: Queen, Rook, Bishop, Knight, Pawn, King for
   White (0-5), the same for Black (6-11) *)
Definition spec_piece_index (pc : piece) : nat :=
  ((match pk pc with Queen => 0 | Rook => 1 | Bishop => 2 | Knight => 3 | Pawn => 4 | King => 5 end)
   + match po pc with White => 0 | Black => 6 end)%nat.

Definition spec_square_key (s : pos) (o : option piece) : N :=
  match o with
  | None => KEY_EMPTY_PLACE
  | Some pc => nth (Z.to_nat (fst s * 8 + snd s) * 12 + spec_piece_index pc) KEYS_PIECE 0%N
  end.

(* the state byte: low nibble = en passant file (8 = none), bits 4-7 = K, Q, k, q rights *)
Definition spec_state_byte (r : rights) (e : option Z) : Z :=
  (match e with Some f => f | None => 8 end)
  + (if r_wk r then 16 else 0) + (if r_wq r then 32 else 0)
  + (if r_bk r then 64 else 0) + (if r_bq r then 128 else 0).

Definition H (p : position) : N :=
  N.lxor
    (N.lxor (xors (map (fun s => spec_square_key s (at_ (p_board p) s)) squares))
            (match p_turn p with Black => KEY_BLACK_TO_MOVE | White => 0%N end))
    (nth (Z.to_nat (spec_state_byte (p_rights p) (p_ep p))) KEYS_STATE 0%N).
