(* The rules of chess (FIDE laws, articles 3 and 5.1/5.2a), written independently of the
   engine's code: deliberately naive boolean functions over all 64 squares so that they can be
   read against the laws in minutes. Executable; validated against published perft counts.
   No proofs in this file. *)
From Chess Require Export Base.Types Base.Prelude.

Open Scope Z_scope.

(* ---- positions and moves -------------------------------------------------------------- *)

Record rights := mkRights { r_wk : bool; r_wq : bool; r_bk : bool; r_bq : bool }.

Record position := mkPosition {
  p_board  : grid (option piece);   (* 8 rows (rank 1 first) of 8 files (a first) *)
  p_turn   : color;
  p_rights : rights;
  p_ep     : option Z               (* file of a pawn that has just advanced two squares and
                                       can be captured en passant *)
}.

(* a move as UCI describes it: from, to, promotion piece *)
Record smove := mkSMove { m_from : pos; m_to : pos; m_promo : option kind }.

Definition at_ (b : grid (option piece)) (p : pos) : option piece := grid_get b p None.
Definition put (b : grid (option piece)) (p : pos) (v : option piece) := grid_set b p v.

Definition on_board (p : pos) : bool :=
  (0 <=? fst p) && (fst p <? 8) && (0 <=? snd p) && (snd p <? 8).

Definition squares : list pos :=
  flat_map (fun r => map (fun c => (r, c)) [0; 1; 2; 3; 4; 5; 6; 7]) [0; 1; 2; 3; 4; 5; 6; 7].

Definition has (b : grid (option piece)) (p : pos) (k : kind) (c : color) : bool :=
  match at_ b p with Some pc => kind_eqb (pk pc) k && color_eqb (po pc) c | None => false end.

Definition empty (b : grid (option piece)) (p : pos) : bool :=
  match at_ b p with None => true | Some _ => false end.

Definition color_at (b : grid (option piece)) (p : pos) : option color :=
  match at_ b p with Some pc => Some (po pc) | None => None end.

(* ---- how pieces move (article 3) -------------------------------------------------------- *)

Definition sgn (z : Z) : Z := if z <? 0 then -1 else if 0 <? z then 1 else 0.

(* q lies strictly between a and b on a common rank, file or diagonal *)
Definition strictly_between (a b q : pos) : bool :=
  let dr := fst b - fst a in
  let dc := snd b - snd a in
  let er := fst q - fst a in
  let ec := snd q - snd a in
  ((dr =? 0) || (dc =? 0) || (Z.abs dr =? Z.abs dc))                 (* a, b aligned *)
  && (er * dc =? ec * dr)                                            (* q on the same line *)
  && ((er =? 0) || (Z.abs er =? Z.abs ec) || (ec =? 0))
  && (sgn er =? sgn dr) && (sgn ec =? sgn dc)                        (* same direction *)
  && (Z.max (Z.abs er) (Z.abs ec) <? Z.max (Z.abs dr) (Z.abs dc))    (* nearer than b *)
  && (0 <? Z.max (Z.abs er) (Z.abs ec)).                             (* not a itself *)

Definition clear_path (b : grid (option piece)) (a c : pos) : bool :=
  forallb (fun q => negb (strictly_between a c q) || empty b q) squares.

Definition pawn_dir (c : color) : Z := match c with White => 1 | Black => -1 end.

(* the piece standing on [a] attacks square [t] (3.1-3.8; a pawn attacks diagonally forward) *)
Definition attacks (b : grid (option piece)) (a t : pos) : bool :=
  match at_ b a with
  | None => false
  | Some pc =>
      let dr := fst t - fst a in
      let dc := snd t - snd a in
      negb (pos_eqb a t) &&
      match pk pc with
      | Knight => ((Z.abs dr =? 1) && (Z.abs dc =? 2)) || ((Z.abs dr =? 2) && (Z.abs dc =? 1))
      | King => (Z.abs dr <=? 1) && (Z.abs dc <=? 1)
      | Rook => ((dr =? 0) || (dc =? 0)) && clear_path b a t
      | Bishop => (Z.abs dr =? Z.abs dc) && clear_path b a t
      | Queen => ((dr =? 0) || (dc =? 0) || (Z.abs dr =? Z.abs dc)) && clear_path b a t
      | Pawn => (dr =? pawn_dir (po pc)) && (Z.abs dc =? 1)
      end
  end.

(* square [t] is attacked by some piece of colour [by] *)
Definition attacked (b : grid (option piece)) (t : pos) (by_ : color) : bool :=
  existsb (fun a => match color_at b a with
                    | Some c => color_eqb c by_ && attacks b a t
                    | None => false
                    end) squares.

Definition king_square (b : grid (option piece)) (c : color) : option pos :=
  find (fun s => has b s King c) squares.

Definition in_check (p : position) (c : color) : bool :=
  match king_square (p_board p) c with
  | Some k => attacked (p_board p) k (other c)
  | None => false
  end.

(* ---- pseudo-legal moves ------------------------------------------------------------------ *)

Definition back_rank (c : color) : Z := match c with White => 0 | Black => 7 end.
Definition pawn_start (c : color) : Z := match c with White => 1 | Black => 6 end.
Definition promo_rank (c : color) : Z := match c with White => 7 | Black => 0 end.
(* rank (as a row index) on which a pawn stands when it may capture en passant *)
Definition ep_from_rank (c : color) : Z := match c with White => 4 | Black => 3 end.

Definition right_of (r : rights) (c : color) (kingside : bool) : bool :=
  match c, kingside with
  | White, true => r_wk r | White, false => r_wq r
  | Black, true => r_bk r | Black, false => r_bq r
  end.

Definition promo_ok (o : option kind) : bool :=
  match o with
  | Some Queen | Some Rook | Some Bishop | Some Knight => true
  | _ => false
  end.

(* castling (3.8.2): king and rook on their original squares with the right still held, the
   squares between them empty, the king not in check and not crossing or reaching an attacked
   square *)
Definition castling_ok (p : position) (kingside : bool) : bool :=
  let c := p_turn p in
  let b := p_board p in
  let r := back_rank c in
  right_of (p_rights p) c kingside
  && has b (r, 4) King c
  && has b (r, if kingside then 7 else 0) Rook c
  && (if kingside then empty b (r, 5) && empty b (r, 6)
      else empty b (r, 1) && empty b (r, 2) && empty b (r, 3))
  && negb (attacked b (r, 4) (other c))
  && negb (attacked b (r, if kingside then 5 else 3) (other c))
  && negb (attacked b (r, if kingside then 6 else 2) (other c)).

Definition is_castling (p : position) (m : smove) : option bool :=
  let c := p_turn p in
  let r := back_rank c in
  if has (p_board p) (m_from m) King c && pos_eqb (m_from m) (r, 4) then
    if pos_eqb (m_to m) (r, 6) then Some true
    else if pos_eqb (m_to m) (r, 2) then Some false else None
  else None.

(* en passant (3.7.3.1-2): a pawn on its fifth rank captures a pawn that has just advanced two
   squares on an adjacent file as if it had advanced one *)
Definition is_en_passant (p : position) (m : smove) : bool :=
  let c := p_turn p in
  let b := p_board p in
  has b (m_from m) Pawn c
  && (fst (m_from m) =? ep_from_rank c)
  && (fst (m_to m) =? ep_from_rank c + pawn_dir c)
  && (Z.abs (snd (m_to m) - snd (m_from m)) =? 1)
  && empty b (m_to m)
  && match p_ep p with Some f => f =? snd (m_to m) | None => false end
  && has b (fst (m_from m), snd (m_to m)) Pawn (other c).

Definition pseudo_legal (p : position) (m : smove) : bool :=
  let c := p_turn p in
  let b := p_board p in
  let a := m_from m in
  let t := m_to m in
  on_board a && on_board t &&
  match at_ b a with
  | None => false
  | Some pc =>
      color_eqb (po pc) c &&
      match color_at b t with Some c' => negb (color_eqb c' c) | None => true end &&
      match pk pc with
      | Pawn =>
          let dr := fst t - fst a in
          let dc := snd t - snd a in
          (if fst t =? promo_rank c then promo_ok (m_promo m)
           else match m_promo m with None => true | Some _ => false end)
          && (   ((dc =? 0) && (dr =? pawn_dir c) && empty b t)
              || ((dc =? 0) && (dr =? 2 * pawn_dir c) && (fst a =? pawn_start c)
                  && empty b (fst a + pawn_dir c, snd a) && empty b t)
              || ((Z.abs dc =? 1) && (dr =? pawn_dir c) && negb (empty b t))
              || is_en_passant p m)
      | King =>
          match m_promo m with Some _ => false | None =>
            attacks b a t
            || match is_castling p m with Some side => castling_ok p side | None => false end
          end
      | _ => match m_promo m with Some _ => false | None => attacks b a t end
      end
  end.

(* ---- playing a move ---------------------------------------------------------------------- *)

(* a right survives a move iff the move neither starts on the king's or that rook's home
   square nor ends on that rook's home square *)
Definition touches (m : smove) (s : pos) : bool := pos_eqb (m_from m) s || pos_eqb (m_to m) s.

Definition rights_after (r : rights) (m : smove) : rights :=
  mkRights (r_wk r && negb (pos_eqb (m_from m) (0, 4)) && negb (touches m (0, 7)))
           (r_wq r && negb (pos_eqb (m_from m) (0, 4)) && negb (touches m (0, 0)))
           (r_bk r && negb (pos_eqb (m_from m) (7, 4)) && negb (touches m (7, 7)))
           (r_bq r && negb (pos_eqb (m_from m) (7, 4)) && negb (touches m (7, 0))).

Definition apply (p : position) (m : smove) : position :=
  let c := p_turn p in
  let b := p_board p in
  let a := m_from m in
  let t := m_to m in
  let moving := at_ b a in
  let placed := match m_promo m, moving with
                | Some k, Some _ => Some (mkPiece k c)
                | _, _ => moving
                end in
  let b1 := put (put b a None) t placed in
  (* the rook of a castling move *)
  let b2 := match is_castling p m with
            | Some true => put (put b1 (fst a, 7) None) (fst a, 5) (Some (mkPiece Rook c))
            | Some false => put (put b1 (fst a, 0) None) (fst a, 3) (Some (mkPiece Rook c))
            | None => b1
            end in
  (* the pawn captured en passant *)
  let b3 := if is_en_passant p m then put b2 (fst a, snd t) None else b2 in
  (* a two-square pawn advance landing beside an enemy pawn can be captured en passant *)
  let double := has b a Pawn c && (Z.abs (fst t - fst a) =? 2) in
  let beside := has b3 (fst t, snd t - 1) Pawn (other c) || has b3 (fst t, snd t + 1) Pawn (other c) in
  mkPosition b3 (other c) (rights_after (p_rights p) m)
             (if double && beside then Some (snd a) else None).

(* ---- legality, mate, stalemate ------------------------------------------------------------- *)

Definition legal (p : position) (m : smove) : bool :=
  pseudo_legal p m && negb (in_check (apply p m) (p_turn p)).

Definition promo_options : list (option kind) := [None; Some Queen; Some Rook; Some Bishop; Some Knight].

Definition candidate_moves (p : position) : list smove :=
  flat_map (fun a =>
              match color_at (p_board p) a with
              | Some c =>
                  if color_eqb c (p_turn p) then
                    flat_map (fun t => map (fun o => mkSMove a t o) promo_options) squares
                  else []
              | None => []
              end) squares.

Definition legal_moves (p : position) : list smove := filter (legal p) (candidate_moves p).
Definition pseudo_legal_moves (p : position) : list smove := filter (pseudo_legal p) (candidate_moves p).

Definition checkmate (p : position) : bool :=
  in_check p (p_turn p) && match legal_moves p with [] => true | _ => false end.
Definition stalemate (p : position) : bool :=
  negb (in_check p (p_turn p)) && match legal_moves p with [] => true | _ => false end.

(* the side to move can force checkmate within n of its own moves *)
Fixpoint forced_mate_in (n : nat) (p : position) : bool :=
  match n with
  | O => false
  | S n' =>
      existsb (fun m =>
                 let q := apply p m in
                 checkmate q
                 || (match legal_moves q with [] => false | _ => true end
                     && forallb (fun r => forced_mate_in n' (apply q r)) (legal_moves q)))
              (legal_moves p)
  end.

(* moves after which the opponent is still mated within n-1 moves (n >= 1) *)
Definition keeps_mate (n : nat) (p : position) (m : smove) : bool :=
  let q := apply p m in
  checkmate q
  || match n with
     | O => false
     | S n' => match legal_moves q with [] => false | _ => true end
               && forallb (fun r => forced_mate_in n' (apply q r)) (legal_moves q)
     end.

(* ---- sane positions (the quantifier of C01/C02) -------------------------------------------- *)

Definition count (b : grid (option piece)) (k : kind) (c : color) : nat :=
  length (filter (fun s => has b s k c) squares).

Definition sane (p : position) : bool :=
  let b := p_board p in
  let c := p_turn p in
  Nat.eqb (count b King White) 1 && Nat.eqb (count b King Black) 1
  && forallb (fun f => negb (has b (0, f) Pawn White) && negb (has b (0, f) Pawn Black)
                       && negb (has b (7, f) Pawn White) && negb (has b (7, f) Pawn Black))
             [0; 1; 2; 3; 4; 5; 6; 7]
  && negb (in_check p (other c))
  && (negb (r_wk (p_rights p)) || (has b (0, 4) King White && has b (0, 7) Rook White))
  && (negb (r_wq (p_rights p)) || (has b (0, 4) King White && has b (0, 0) Rook White))
  && (negb (r_bk (p_rights p)) || (has b (7, 4) King Black && has b (7, 7) Rook Black))
  && (negb (r_bq (p_rights p)) || (has b (7, 4) King Black && has b (7, 0) Rook Black))
  && match p_ep p with
     | None => true
     | Some f =>
         (* the pawn that just advanced two squares stands on the mover's fifth rank with the
            two squares behind it empty *)
         let r := ep_from_rank c in
         (0 <=? f) && (f <? 8)
         && has b (r, f) Pawn (other c)
         && empty b (r + pawn_dir c, f) && empty b (r + 2 * pawn_dir c, f)
     end.

(* perft: number of legal move sequences of length n *)
Fixpoint perft (n : nat) (p : position) : N :=
  match n with
  | O => 1%N
  | S n' => fold_left (fun acc m => (acc + perft n' (apply p m))%N) (legal_moves p) 0%N
  end.
