(* What a well-formed FEN is and which position it denotes; how a position is written as FEN.
   Independent of the engine's reader (Model/Fen.v). Executable. No proofs in this file. *)
From Chess Require Export Spec.Rules.

Open Scope Z_scope.

Definition stext := list N.   (* Unicode scalar values *)

Definition white_space (c : N) : bool :=
  (N.eqb c 32 || N.eqb c 9 || N.eqb c 10 || N.eqb c 12 || N.eqb c 13)%N.

(* maximal runs of non-separator characters *)
Fixpoint split_on (sep : N -> bool) (keep_empty : bool) (s : stext) (cur : stext) : list stext :=
  match s with
  | [] => if keep_empty then [rev cur] else match cur with [] => [] | _ => [rev cur] end
  | c :: t =>
      if sep c then
        (if keep_empty then [rev cur] else match cur with [] => [] | _ => [rev cur] end)
        ++ split_on sep keep_empty t []
      else split_on sep keep_empty t (c :: cur)
  end.

Definition fields (s : stext) : list stext := split_on white_space false s [].
Definition ranks (s : stext) : list stext := split_on (N.eqb 47) true s [].

(* piece letters: PNBRQK white, pnbrqk black *)
Definition letter_piece (c : N) : option piece :=
  match c with
  | 80%N => Some (mkPiece Pawn White)   | 112%N => Some (mkPiece Pawn Black)
  | 78%N => Some (mkPiece Knight White) | 110%N => Some (mkPiece Knight Black)
  | 66%N => Some (mkPiece Bishop White) | 98%N => Some (mkPiece Bishop Black)
  | 82%N => Some (mkPiece Rook White)   | 114%N => Some (mkPiece Rook Black)
  | 81%N => Some (mkPiece Queen White)  | 113%N => Some (mkPiece Queen Black)
  | 75%N => Some (mkPiece King White)   | 107%N => Some (mkPiece King Black)
  | _ => None
  end.

Definition piece_letter (pc : piece) : N :=
  let base := match pk pc with
              | Pawn => 80 | Knight => 78 | Bishop => 66 | Rook => 82 | Queen => 81 | King => 75
              end%N in
  match po pc with White => base | Black => (base + 32)%N end.

(* one rank: letters and digits 1-8 describing exactly eight squares *)
Fixpoint parse_rank (s : stext) : option (list (option piece)) :=
  match s with
  | [] => Some []
  | c :: t =>
      match parse_rank t with
      | None => None
      | Some rest =>
          if ((49 <=? c) && (c <=? 56))%N then Some (repeat None (N.to_nat (c - 48)) ++ rest)
          else match letter_piece c with
               | Some pc => Some (Some pc :: rest)
               | None => None
               end
      end
  end.

Definition parse_rank8 (s : stext) : option (list (option piece)) :=
  match parse_rank s with
  | Some l => if Nat.eqb (length l) 8 then Some l else None
  | None => None
  end.

Fixpoint all_some {A} (l : list (option A)) : option (list A) :=
  match l with
  | [] => Some []
  | Some x :: t => match all_some t with Some r => Some (x :: r) | None => None end
  | None :: _ => None
  end.

(* the placement field: eight ranks, rank 8 first *)
Definition parse_placement (s : stext) : option (grid (option piece)) :=
  let rs := ranks s in
  if Nat.eqb (length rs) 8 then
    match all_some (map parse_rank8 rs) with
    | Some rows => Some (rev rows)
    | None => None
    end
  else None.

Definition parse_side (s : stext) : option color :=
  match s with [119%N] => Some White | [98%N] => Some Black | _ => None end.

Fixpoint nodup_n (l : list N) : bool :=
  match l with
  | [] => true
  | x :: t => negb (existsb (N.eqb x) t) && nodup_n t
  end.

(* "-" or one to four distinct letters out of KQkq *)
Definition parse_castling (s : stext) : option rights :=
  match s with
  | [] => None
  | [45%N] => Some (mkRights false false false false)
  | _ =>
      if forallb (fun c => N.eqb c 75 || N.eqb c 81 || N.eqb c 107 || N.eqb c 113)%N s && nodup_n s
      then Some (mkRights (existsb (N.eqb 75) s) (existsb (N.eqb 81) s)
                          (existsb (N.eqb 107) s) (existsb (N.eqb 113) s))
      else None
  end.

(* "-" or the square behind the pawn that just moved: file a-h, rank 6 if White is to move,
   rank 3 if Black is *)
Definition parse_ep (s : stext) (side : color) : option (option Z) :=
  match s with
  | [45%N] => Some None
  | [f; r] =>
      if ((97 <=? f) && (f <=? 104))%N && N.eqb r (match side with White => 54 | Black => 51 end)%N
      then Some (Some (Z.of_N (f - 97)))
      else None
  | _ => None
  end.

Definition is_number (s : stext) : bool :=
  match s with [] => false | _ => forallb (fun c => (48 <=? c) && (c <=? 57))%N s end.

(* a well-formed FEN and the position it denotes (the en passant file is kept as written) *)
Definition parse (s : stext) : option position :=
  match fields s with
  | pl :: sd :: ca :: ep :: counters =>
      match parse_placement pl, parse_side sd, parse_castling ca with
      | Some b, Some side, Some r =>
          match parse_ep ep side with
          | Some e =>
              let counters_ok := match counters with
                                 | [] => true
                                 | [h] => is_number h
                                 | [h; f] => is_number h && is_number f
                                 | _ => false
                                 end in
              if counters_ok
                 && existsb (fun q => has b q King White) squares
                 && existsb (fun q => has b q King Black) squares
              then Some (mkPosition b side r e) else None
          | None => None
          end
      | _, _, _ => None
      end
  | _ => None
  end.

(* ---- writing a position: fields 1 to 4 ------------------------------------------------------ *)

Fixpoint render_rank (l : list (option piece)) (run : N) : stext :=
  match l with
  | [] => if (0 <? run)%N then [(48 + run)%N] else []
  | None :: t => render_rank t (run + 1)%N
  | Some pc :: t => (if (0 <? run)%N then [(48 + run)%N] else []) ++ piece_letter pc :: render_rank t 0%N
  end.

Fixpoint join (sep : N) (l : list stext) : stext :=
  match l with
  | [] => []
  | [x] => x
  | x :: t => x ++ sep :: join sep t
  end.

Definition render_castling (r : rights) : stext :=
  let s := (if r_wk r then [75%N] else []) ++ (if r_wq r then [81%N] else [])
           ++ (if r_bk r then [107%N] else []) ++ (if r_bq r then [113%N] else []) in
  match s with [] => [45%N] | _ => s end.

Definition render_ep (e : option Z) (side : color) : stext :=
  match e with
  | None => [45%N]
  | Some f => [(97 + Z.to_N f)%N; match side with White => 54%N | Black => 51%N end]
  end.

Definition render (p : position) : stext :=
  join 32%N [ join 47%N (map (fun row => render_rank row 0%N) (rev (p_board p)));
              [match p_turn p with White => 119%N | Black => 98%N end];
              render_castling (p_rights p);
              render_ep (p_ep p) (p_turn p) ].

(* the first four fields of a FEN text, single-spaced *)
Definition fields14 (s : stext) : stext := join 32%N (firstn 4 (fields s)).

(* a six-field FEN: four position fields, a halfmove clock and a fullmove number *)
Definition six_fields (s : stext) : bool :=
  match fields s with
  | [_; _; _; _; h; f] => is_number h && is_number f
  | _ => false
  end.
