(* UCI long algebraic text of a move, and the entries of the printed move record.
   Independent of the engine's writers. No proofs in this file. *)
From Chess Require Export Spec.Rules.

Open Scope Z_scope.

Definition file_letter (c : Z) : N := (97 + Z.to_N c)%N.
Definition rank_digit (r : Z) : N := (49 + Z.to_N r)%N.

(* from-square, to-square, lower-case promotion letter; castling is the king's two-square move *)
Definition move_text (m : smove) : list N :=
  [file_letter (snd (m_from m)); rank_digit (fst (m_from m));
   file_letter (snd (m_to m)); rank_digit (fst (m_to m))]
  ++ match m_promo m with
     | Some Queen => [113%N] | Some Rook => [114%N] | Some Bishop => [98%N] | Some Knight => [110%N]
     | _ => []
     end.

Definition upper_letter (k : kind) : list N :=
  match k with
  | King => [75%N] | Queen => [81%N] | Rook => [82%N] | Bishop => [66%N] | Knight => [78%N]
  | Pawn => []
  end.

(* the engine's record format (README: "Ngf3"): piece letter (none for a pawn), origin file,
   'x' iff a capture, destination square; O-O / O-O-O; en passant "dxe6";
   promotion "[x]e8=Q" with the letter of the piece promoted to *)
Definition record_entry (p : position) (m : smove) : list N :=
  match at_ (p_board p) (m_from m) with
  | None => []
  | Some pc =>
      match is_castling p m with
      | Some true => [79; 45; 79]%N
      | Some false => [79; 45; 79; 45; 79]%N
      | None =>
          let capture := negb (empty (p_board p) (m_to m)) in
          if is_en_passant p m then
            [file_letter (snd (m_from m)); 120%N; file_letter (snd (m_to m)); rank_digit (fst (m_to m))]
          else match m_promo m with
               | Some k =>
                   (if capture then [120%N] else [])
                   ++ [file_letter (snd (m_to m)); rank_digit (fst (m_to m)); 61%N] ++ upper_letter k
               | None =>
                   upper_letter (pk pc) ++ [file_letter (snd (m_from m))]
                   ++ (if capture then [120%N] else [])
                   ++ [file_letter (snd (m_to m)); rank_digit (fst (m_to m))]
               end
      end
  end.

(* reading a move text: two squares and an optional promotion letter (lower case) *)
Definition parse_move (s : list N) : option smove :=
  let sq (f r : N) : option pos :=
    if ((97 <=? f) && (f <=? 104) && (49 <=? r) && (r <=? 56))%N
    then Some (Z.of_N (r - 49), Z.of_N (f - 97)) else None in
  match s with
  | f1 :: r1 :: f2 :: r2 :: rest =>
      match sq f1 r1, sq f2 r2 with
      | Some a, Some t =>
          match rest with
          | [] => Some (mkSMove a t None)
          | [113%N] => Some (mkSMove a t (Some Queen))
          | [114%N] => Some (mkSMove a t (Some Rook))
          | [98%N] => Some (mkSMove a t (Some Bishop))
          | [110%N] => Some (mkSMove a t (Some Knight))
          | _ => None
          end
      | _, _ => None
      end
  | _ => None
  end.
