(* Trace inclusion for C14: is an observed session of the real binary (inputs in the order sent,
   stdout lines in the order printed, and for every input how many output lines had been seen
   when it was sent) explained by SOME schedule of the extracted thread model (coq/Model/Sched.v)?
   Breadth-first search over (model state, inputs consumed, outputs matched).
   Line format:  trace <tok> <tok> ...   with tokens  I:<cmd>  and  O:<event>  in observation order.
   Answer:       trace ok states=<n>   |   trace stuck inputs=<i> outputs=<o> states=<n> *)
open Sched

let cmd_of = function
  | "uci" -> Some CUci | "isready" -> Some CIsReady | "newgame" -> Some CNewGame
  | "pos1" -> Some (CPosition true) | "pos0" -> Some (CPosition false)
  | "go1" -> Some (CGo true) | "go0" -> Some (CGo false)
  | "stop" -> Some CStop | "wait" -> Some CWait | "show" -> Some CShow | "quit" -> Some CQuit
  | _ -> None

let ev_matches (e : event) (tok : string) =
  match e, tok with
  | EBestmove _, "bestmove" | EReadyOk, "readyok" | EErrorBusy, "busy" | EErrorNoGame, "nogame"
  | EInfoTime, "infotime" | EShown, "shown" | EUciOk, "uciok" -> true
  | _ -> false

let check (toks : string list) : string =
  (* inputs with the number of outputs observed before each was sent *)
  let inputs = ref [] and outputs = ref [] and seen = ref 0 and bad = ref false in
  List.iter (fun t ->
      if String.length t > 2 && String.sub t 0 2 = "I:" then
        (match cmd_of (String.sub t 2 (String.length t - 2)) with
         | Some c -> inputs := (c, !seen) :: !inputs
         | None -> bad := true)
      else if String.length t > 2 && String.sub t 0 2 = "O:" then begin
        outputs := String.sub t 2 (String.length t - 2) :: !outputs; incr seen end
      else bad := true) toks;
  if !bad then "trace badtoken" else begin
    let inputs = Array.of_list (List.rev !inputs) and outputs = Array.of_list (List.rev !outputs) in
    let ni = Array.length inputs and no = Array.length outputs in
    let visited = Hashtbl.create 4096 in
    let q = Queue.create () in
    let push s i o = let k = (s, i, o) in if not (Hashtbl.mem visited k) then (Hashtbl.add visited k (); Queue.add k q) in
    push init 0 0;
    let best = ref (0, 0) and found = ref false in
    while not !found && not (Queue.is_empty q) && Hashtbl.length visited < 2_000_000 do
      let (s, i, o) = Queue.pop q in
      if (i, o) > !best then best := (i, o);
      if i = ni && o = no then found := true
      else begin
        (* the next input, once every output seen before it was sent has been produced *)
        if i < ni then begin
          let (c, need) = inputs.(i) in
          if o >= need then
            match step s (LInput c) with Some s' -> push s' (i + 1) o | None -> ()
        end;
        List.iter (fun l ->
            match l with
            | LInput _ -> ()
            | _ ->
                (match step s l with
                 | None -> ()
                 | Some s' ->
                     (match s'.out with
                      | [] -> push s' i o
                      | [e] -> if o < no && ev_matches e outputs.(o) then push { s' with out = [] } i (o + 1)
                      | _ -> ()))) (enabled s)
      end
    done;
    if !found then Printf.sprintf "trace ok states=%d" (Hashtbl.length visited)
    else Printf.sprintf "trace stuck inputs=%d outputs=%d states=%d" (fst !best) (snd !best) (Hashtbl.length visited)
  end

let () =
  (try
     while true do
       let line = input_line stdin in
       if String.length line >= 2 && String.sub line 0 2 = "# " then print_string (line ^ "\n")
       else begin
         let toks = List.filter (fun x -> x <> "") (String.split_on_char ' ' line) in
         match toks with
         | "trace" :: rest -> print_string (check rest ^ "\n")
         | [] -> ()
         | _ -> print_string "unknown\n"
       end
     done
   with End_of_file -> ());
  flush stdout
