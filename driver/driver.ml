(* Driver for the extracted Coq model: same line protocol as /verif/harness (DESIGN.md
   appendix B). Hand-written glue only: number/text conversions, the session state and
   printing. Every chess decision is made by functions extracted from coq/Model. *)
open Model

(* ---- conversions ------------------------------------------------------------------ *)
let rec pos_of_int (i : int) : positive =
  if i = 1 then XH else if i land 1 = 0 then XO (pos_of_int (i lsr 1)) else XI (pos_of_int (i lsr 1))
let n_of_int i = if i = 0 then N0 else Npos (pos_of_int i)
let z_of_int i = if i = 0 then Z0 else if i > 0 then Zpos (pos_of_int i) else Zneg (pos_of_int (-i))
let rec int_of_pos = function XH -> 1 | XO p -> 2 * int_of_pos p | XI p -> 2 * int_of_pos p + 1
let int_of_n = function N0 -> 0 | Npos p -> int_of_pos p
let int_of_z = function Z0 -> 0 | Zpos p -> int_of_pos p | Zneg p -> - (int_of_pos p)
let dec_of_z (v : z) : string =
  (* decimal text of a non-negative Z of any size *)
  let ten = Zpos (XO (XI (XO XH))) in
  let rec go v acc =
    match v with
    | Z0 -> if acc = "" then "0" else acc
    | _ ->
        let q = Z.div v ten and r = Z.modulo v ten in
        go q (String.make 1 (Char.chr (48 + (match r with Z0 -> 0 | Zpos p -> int_of_pos p | Zneg _ -> 0))) ^ acc) in
  match v with Zneg _ -> "-?" | _ -> go v ""
let rec int_of_nat = function O -> 0 | S n -> 1 + int_of_nat n
let rec nat_of_int i = if i <= 0 then O else S (nat_of_int (i - 1))

(* 64-bit values do not fit an OCaml int: print hex from the bits *)
let bits_of_n (v : n) : bool list (* lsb first *) =
  let rec go = function XH -> [true] | XO p -> false :: go p | XI p -> true :: go p in
  match v with N0 -> [] | Npos p -> go p
let hex_of_n ?(width = 0) (v : n) : string =
  let bits = Array.of_list (bits_of_n v) in
  let nb = Array.length bits in
  let ndig = max 1 ((nb + 3) / 4) in
  let ndig = max ndig width in
  let b = Bytes.make ndig '0' in
  for d = 0 to ndig - 1 do
    let v = ref 0 in
    for k = 0 to 3 do
      let i = d * 4 + k in
      if i < nb && bits.(i) then v := !v lor (1 lsl k)
    done;
    Bytes.set b (ndig - 1 - d) "0123456789abcdef".[!v]
  done;
  Bytes.to_string b

(* UTF-8 decoding of an input line into scalar values *)
let scalars_of_string (s : string) : n list =
  let len = String.length s in
  let rec go i acc =
    if i >= len then List.rev acc
    else
      let c = Char.code s.[i] in
      let take k init =
        let v = ref init in
        for j = 1 to k do
          if i + j < len then v := (!v lsl 6) lor (Char.code s.[i + j] land 0x3f)
        done;
        go (i + k + 1) (n_of_int !v :: acc) in
      if c < 0x80 then go (i + 1) (n_of_int c :: acc)
      else if c < 0xe0 then take 1 (c land 0x1f)
      else if c < 0xf0 then take 2 (c land 0x0f)
      else take 3 (c land 0x07) in
  go 0 []

let string_of_bytes (l : n list) : string =
  let b = Buffer.create 64 in
  List.iter (fun c -> Buffer.add_char b (Char.chr (int_of_n c land 255))) l;
  Buffer.contents b
let string_of_text (t : n list) : string = string_of_bytes (utf8 t)
let hex_of_string (s : string) : string =
  let b = Buffer.create (2 * String.length s) in
  String.iter (fun c -> Buffer.add_string b (Printf.sprintf "%02x" (Char.code c))) s;
  Buffer.contents b

(* ---- printing of model values ------------------------------------------------------ *)
let sq ((r, c) : pos) = Printf.sprintf "%c%c" (Char.chr (97 + int_of_z c)) (Char.chr (49 + int_of_z r))
let pchar (p : piece) = String.make 1 (Char.chr (int_of_n (char_of_piece p)))
let ochar = function Some p -> pchar p | None -> "-"
let colc = function White -> "w" | Black -> "b"

let describe (m : move) : string =
  match m with
  | Normal (p, s, e, cap) -> Printf.sprintf "N:%s%s%s%s" (pchar p) (sq s) (sq e) (ochar cap)
  | Promotion (o, k, s, e, cap) ->
      Printf.sprintf "P:%s%d%s%s%s" (colc o) (int_of_z (kind_index k)) (sq s) (sq e) (ochar cap)
  | CastlingShort o -> "CS:" ^ colc o
  | CastlingLong o -> "CL:" ^ colc o
  | EnPassant (o, sc, ec) -> Printf.sprintf "EP:%s%d%d" (colc o) (int_of_z sc) (int_of_z ec)

let is_rare = function Normal _ -> false | _ -> true
let uci_s m = string_of_text (uci m)

let obs (g : game) : string =
  Printf.sprintf "fen=%s hash=%s score=%d kings=%s%s len=%d side=%s"
    (String.map (fun c -> if c = ' ' then '_' else c) (string_of_text (fen g)))
    (hex_of_n ~width:16 g.g_hash) (int_of_z g.g_score)
    (sq g.g_wking) (sq g.g_bking) (int_of_nat (glen g)) (colc g.g_player)

let dump (g : game) : string =
  let board = String.concat "" (List.map (function Some p -> pchar p | None -> ".") (List.concat g.g_board)) in
  let ps = String.concat "," (List.map (fun s -> string_of_int (int_of_z s)) (List.concat g.g_pscores)) in
  let ph = String.concat "," (List.map (fun h -> hex_of_n h) (List.concat g.g_phashes)) in
  let st = String.concat "," (List.rev_map (fun s -> Printf.sprintf "%x" (int_of_z (state_byte s))) g.g_states) in
  let pz (r, c) = Printf.sprintf "%d%d" (int_of_z r) (int_of_z c) in
  Printf.sprintf "board=%s ps=%s ph=%s state=%s ktab=%s phase=%s kings=%s,%s score=%d hash=%s player=%s stack=%d"
    board ps ph st (if g.g_kend then "e" else "m") (if g.g_endgame then "e" else "o")
    (pz g.g_wking) (pz g.g_bking) (int_of_z g.g_score) (hex_of_n g.g_hash) (colc g.g_player)
    (List.length g.g_moves)

(* ---- session ----------------------------------------------------------------------- *)
type session = { mutable last_best : move option; mutable game : game option; mutable pushed : move list; mutable table : table; mutable hist : z list }
let zero_hist () = List.init 768 (fun _ -> Z0)
let sess = { last_best = None; game = None; pushed = []; table = tempty; hist = zero_hist () }
let ints_of (s : string) : int list =
  List.filter_map (fun x -> if x = "" then None else Some (try int_of_string x with _ -> 0)) (String.split_on_char ' ' s)

let full_state (g : game) : string * game =
  (* both generators threaded as the implementation does; returns the game left behind *)
  let (c, g1) = get_moves_st g true in
  let (u, g2) = get_moves_st g1 false in
  (Printf.sprintf "%s | %s | %s | %s" (dump g2) (obs g2)
     (String.concat "," (List.map describe c)) (String.concat "," (List.map describe u)), g2)

let with_game cmd f =
  match sess.game with
  | None -> Printf.printf "%s nogame\n" cmd
  | Some g -> f g

let split_first (s : string) : string * string =
  match String.index_opt s ' ' with
  | None -> (s, "")
  | Some i -> (String.sub s 0 i, String.trim (String.sub s (i + 1) (String.length s - i - 1)))

(* the sequential session model (Model/Session.v) behind a textual UCI front: `uci <command line>` *)
let usess = ref init_session
let print_out (o : out) : unit =
  match o with
  | OErrorPosition -> print_string "error: Invalid position command\n"
  | OErrorFen _ -> print_string "error: Invalid FEN string\n"
  | OErrorMove s -> Printf.printf "error: Invalid move: %s\n" (string_of_text s)
  | OErrorTooLong -> print_string "error: Game became too long, please try again\n"
  | OErrorNoGameShow -> print_string "error: No game to show, please set a position first\n"
  | OErrorNoGameGo -> print_string "error: No game to play, please set a position first\n"
  | OPanic _ -> print_string "!! panic\n"
  | ODisplay t -> print_string (string_of_text t ^ "\n")
  | OInfo t -> print_string (string_of_text t ^ "\n")
  | OBestMove None -> print_string "bestmove none\n"
  | OBestMove (Some t) -> Printf.printf "bestmove %s\n" (string_of_text t)
  | OReadyOk -> print_string "readyok\n"
  | OIdName -> print_string "id name rustybait\n"
  | OIdAuthor -> print_string "id author Malanca Daniel\n"
  | OUciOk -> print_string "uciok\n"

let uci_line (rest : string) : unit =
  let toks = List.filter (fun x -> x <> "") (String.split_on_char ' ' (String.map (fun c -> if c = '\t' then ' ' else c) rest)) in
  let c =
    match toks with
    | "position" :: args -> Some (CPosition (List.map scalars_of_string args))
    | ["ucinewgame"] -> Some CNewGame
    | ["show"] | ["d"] -> Some CShow
    | ["isready"] -> Some CIsReady
    | ["uci"] -> Some CUci
    | ["go"; "depth"; n] -> (try Some (CGo (Some (z_of_int (int_of_string n)), z_of_int (-1))) with _ -> None)
    | _ -> None in
  match c with
  | None -> print_string "uci unsupported\n"
  | Some c ->
      let (s', outs) = run_cmd !usess c in
      usess := s';
      List.iter print_out outs

let run (line : string) : unit =
  let (cmd, rest) = split_first line in
  match cmd with
  | "uci" -> uci_line rest
  | "ucireset" -> usess := init_session; print_string "ucireset ok\n"
  | "new" ->
      sess.pushed <- [];
      (match import (scalars_of_string rest) with
       | Ok g -> sess.game <- Some g; print_string "new ok\n"
       | Err _ -> sess.game <- None; print_string "new err\n"
       | Panic _ -> sess.game <- None; print_string "new panic\n")
  | "obs" -> with_game cmd (fun g -> Printf.printf "obs %s\n" (obs g))
  | "dump" -> with_game cmd (fun g -> Printf.printf "dump %s\n" (dump g))
  | "gen" ->
      with_game cmd (fun g ->
          let (c, g1) = get_moves_st g true in
          let (u, g2) = get_moves_st g1 false in
          sess.game <- Some g2;
          Printf.printf "gen checked=%s unchecked=%s\n"
            (String.concat "," (List.map uci_s c)) (String.concat "," (List.map uci_s u)))
  | "gend" ->
      with_game cmd (fun g ->
          let (c, g1) = get_moves_st g true in
          let (u, g2) = get_moves_st g1 false in
          sess.game <- Some g2;
          Printf.printf "gend checked=%s unchecked=%s\n"
            (String.concat "," (List.map describe c)) (String.concat "," (List.map describe u)))
  | "pick" ->
      with_game cmd (fun g ->
          let r = try int_of_string rest with _ -> 0 in
          let (c, g1) = get_moves_st g true in
          let moves = List.stable_sort (fun a b -> compare (uci_s a) (uci_s b)) c in
          if moves = [] then (sess.game <- Some g1; print_string "pick none\n")
          else begin
            let rare = List.filter is_rare moves in
            let m =
              if (r lsr 20) mod 3 = 0 && rare <> [] then List.nth rare (r mod List.length rare)
              else List.nth moves (r mod List.length moves) in
            sess.game <- Some (push_history g1 m);
            Printf.printf "pick %s\n" (uci_s m)
          end)
  | "hist" ->
      with_game cmd (fun g ->
          let (c, g1) = get_moves_st g true in
          match List.find_opt (fun m -> uci_s m = rest) c with
          | Some m -> sess.game <- Some (push_history g1 m); Printf.printf "hist ok %s\n" rest
          | None -> sess.game <- Some g1; print_string "hist bad\n")
  | "push" ->
      with_game cmd (fun g ->
          let (u, g1) = get_moves_st g false in
          match List.find_opt (fun m -> uci_s m = rest) u with
          | Some m -> sess.game <- Some (push g1 m); sess.pushed <- m :: sess.pushed; print_string "push ok\n"
          | None -> sess.game <- Some g1; print_string "push bad\n")
  | "pop" ->
      with_game cmd (fun g ->
          match sess.pushed with
          | m :: t -> sess.game <- Some (pop g m); sess.pushed <- t; print_string "pop ok\n"
          | [] -> print_string "pop bad\n")
  | "pp" ->
      with_game cmd (fun g ->
          let (before, g) = full_state g in
          let (moves, g) = get_moves_st g false in
          let bad = ref "-" in
          let g = List.fold_left (fun g m ->
              let g1 = push g m in
              let (inner, g1) = get_moves_st g1 false in
              let rec take k l = if k = 0 then [] else match l with [] -> [] | x :: t -> x :: take (k - 1) t in
              let g1 = List.fold_left (fun g1 m2 -> pop (push g1 m2) m2) g1 (take 4 inner) in
              let g2 = pop g1 m in
              let (s, g2) = full_state g2 in
              if !bad = "-" && s <> before then bad := uci_s m;
              g2) g moves in
          let (after, g) = full_state g in
          if !bad = "-" && after <> before then bad := "query";
          sess.game <- Some g;
          Printf.printf "pp moves=%d bad=%s\n" (List.length moves) !bad)
  | "imp" ->
      with_game cmd (fun g ->
          let text = fen g in
          let us = String.map (fun c -> if c = ' ' then '_' else c) (string_of_text text) in
          match import text with
          | Ok g2 ->
              let (c, g3) = get_moves_st g2 true in
              Printf.printf "imp ok %s checked=%s\n" (obs g3) (String.concat "," (List.map uci_s c))
          | Err _ -> Printf.printf "imp err text=%s\n" us
          | Panic _ -> Printf.printf "imp panic text=%s\n" us)
  | "parse" ->
      with_game cmd (fun g ->
          match from_uci (scalars_of_string rest) g with
          | Some m ->
              let (c, g1) = get_moves_st g true in
              sess.game <- Some g1;
              Printf.printf "parse %s legal=%d\n" (describe m) (if List.exists (fun x -> move_eqb x m) c then 1 else 0)
          | None -> print_string "parse none legal=0\n")
  | "pgn" -> with_game cmd (fun g -> Printf.printf "pgn %s\n" (hex_of_string (string_of_text (get_pgn g))))
  | "show" -> with_game cmd (fun g -> Printf.printf "show %s\n" (hex_of_string (string_of_text (display g))))
  | "cleartable" -> sess.table <- tempty; sess.hist <- zero_hist (); print_string "cleartable ok\n"
  | "search" ->
      with_game cmd (fun g ->
          let a = ints_of rest in
          let nth k d = try List.nth a k with _ -> d in
          let depth = nth 0 1 and stop_at = nth 1 (-1) and tableless = nth 2 0 <> 0 in
          let r = driver g sess.table (if depth > 0 then Some (z_of_int depth) else None) (z_of_int stop_at) tableless in
          List.iter (fun l -> print_string (string_of_text l ^ "\n")) r.d_lines;
          sess.table <- r.d_st.s_tbl;
          sess.last_best <- r.d_move;
          if not r.d_fuel_ok then print_string "!! out of fuel\n";
          Printf.printf "best %s polls=%d after=%d table=%d\n"
            (match r.d_move with Some m -> uci_s m | None -> "none")
            (int_of_z r.d_st.s_polls) (int_of_z r.d_st.s_after) (int_of_z (tlen r.d_st.s_tbl)))
  | "playbest" ->
      with_game cmd (fun g ->
          match sess.last_best with
          | None -> print_string "playbest none\n"
          | Some m ->
              let (c, g1) = get_moves_st g true in
              if List.exists (fun x -> move_eqb x m) c then begin
                sess.game <- Some (push_history g1 m);
                Printf.printf "playbest %s\n" (uci_s m)
              end else (sess.game <- Some g1; Printf.printf "playbest illegal %s\n" (uci_s m)))
  | "budget" ->
      (* budget <wtime|-> <btime|-> <winc|-> <binc|-> <w|b> <movetime|-> <infinite 0|1> *)
      let toks = List.filter (fun x -> x <> "") (String.split_on_char ' ' rest) in
      let big (s : string) : z option =
        if s = "-" then None else
        (* decimal string to Z without overflow *)
        let ten = z_of_int 10 in
        let acc = ref Z0 in
        String.iter (fun c -> acc := Z.add (Z.mul !acc ten) (z_of_int (Char.code c - 48))) s;
        (* str::parse::<u64> fails on a value above u64::MAX: the engine then treats the parameter as absent *)
        let two64 = Z.mul (z_of_int 4294967296) (z_of_int 4294967296) in
        if String.length s > 20 || Z.compare !acc two64 <> Lt then None else Some !acc in
      (match toks with
       | [wt; bt; wi; bi; side; mt; inf] ->
           let r = go_timer (big wt) (big bt) (big wi) (big bi) (side = "w") (big mt) (inf = "1") in
           (match r with
            | None -> print_string "budget none\n"
            | Some v -> Printf.printf "budget %s\n" (dec_of_z v))
       | _ -> print_string "budget bad\n")
  | "root" ->
      with_game cmd (fun g ->
          let a = ints_of rest in
          let nth k d = try List.nth a k with _ -> d in
          let depth = max 1 (nth 0 1) and tableless = nth 1 0 <> 0 and fresh = nth 2 1 <> 0 in
          if fresh then sess.hist <- zero_hist ();
          if tableless then sess.table <- tempty;
          let st0 = fresh_state sess.table (z_of_int (-1)) tableless in
          let st0 = { st0 with s_hist = sess.hist } in
          (match root g st0 (nat_of_int depth) with
           | (Done ((m, score), only), st1) ->
               sess.table <- st1.s_tbl; sess.hist <- st1.s_hist;
               Printf.printf "root move=%s score=%d only=%d polls=%d\n"
                 (match m with Some m -> uci_s m | None -> "none") (int_of_z score) (if only then 1 else 0)
                 (int_of_z st1.s_polls)
           | (Aborted _, _) -> print_string "root aborted\n"
           | (OutOfFuel, _) -> print_string "!! out of fuel\n"))
  | "win" ->
      with_game cmd (fun g ->
          let toks = List.filter (fun x -> x <> "") (String.split_on_char ' ' rest) in
          let kind = (match toks with k :: _ -> k | [] -> "q") in
          let num k d = (try int_of_string (List.nth toks k) with _ -> d) in
          let rem = num 1 0 and alpha = num 2 (-32767) and beta = num 3 32767 in
          let one = z_of_int 1 in
          let r =
            match kind with
            | "q" -> quiescence qFUEL g (z_of_int alpha) (z_of_int beta) one
            | "d" -> depth1 g (z_of_int alpha) (z_of_int beta) one
            | _ ->
                (match node (nat_of_int rem) g (fresh_state tempty (z_of_int (-1)) true) one (z_of_int alpha) (z_of_int beta) with
                 | (Done v, _) -> Some v
                 | _ -> None) in
          match r with
          | Some v -> Printf.printf "win r=%d\n" (int_of_z v)
          | None -> print_string "win aborted\n")
  | "refn" ->
      (* refn <remaining>: exhaustive reference value of this node (real depth 1) *)
      with_game cmd (fun g ->
          let rem = max 0 (match ints_of rest with d :: _ -> d | [] -> 0) in
          let (v, blocked) = chess_nref (nat_of_int 200) (nat_of_int rem) g (z_of_int 1) in
          Printf.printf "refn v=%d blocked=%d\n" (int_of_z v) (if blocked then 1 else 0))
  | "ref" ->
      (* ref <depth>: exhaustive reference value of the root (Spec/Negamax.v over the model's game functions) *)
      with_game cmd (fun g ->
          let depth = max 1 (match ints_of rest with d :: _ -> d | [] -> 1) in
          let moves = root_moves g in
          (match checked_moves g with
           | [_] -> print_string "ref only\n"
           | _ ->
               let (v, blocked) = chess_rootref (nat_of_int 200) (nat_of_int depth) g moves in
               Printf.printf "ref score=%d blocked=%d moves=%d\n" (int_of_z v) (if blocked then 1 else 0) (List.length moves)))
  | "tables" ->
      let table name t = Printf.printf "table %s %s\n" name (String.concat "," (List.map (fun s -> string_of_int (int_of_z s)) t)) in
      table "QUEEN_SCORES" qUEEN_SCORES; table "ROOK_SCORES" rOOK_SCORES;
      table "BISHOP_SCORES" bISHOP_SCORES; table "KNIGHT_SCORES" kNIGHT_SCORES;
      table "PAWN_SCORES" pAWN_SCORES; table "KING_SCORES_MIDDLE" kING_SCORES_MIDDLE;
      table "KING_SCORES_END" kING_SCORES_END;
      Printf.printf "const ENDGAME_THRESHOLD %d\n" (int_of_z eNDGAME_THRESHOLD);
      Printf.printf "key BLACK_TO_MOVE %s\n" (hex_of_n kEY_BLACK_TO_MOVE);
      Printf.printf "key EMPTY_PLACE %s\n" (hex_of_n kEY_EMPTY_PLACE);
      Printf.printf "keys STATE %s\n" (String.concat "," (List.map (fun k -> hex_of_n k) kEYS_STATE));
      Printf.printf "keys PIECE %s\n" (String.concat "," (List.map (fun k -> hex_of_n k) kEYS_PIECE));
      List.iter (fun k ->
          List.iter (fun o ->
              let p = { pk = k; po = o } in
              Printf.printf "piece %d %s index=%d material=%d ascii=%s pgn=%s glyph=%x\n"
                (int_of_z (kind_index k)) (colc o) (int_of_z (piece_index p))
                (int_of_z (material_value k)) (pchar p) (string_of_text (pGN_LETTER k))
                (int_of_n (glyph p))) [White; Black]) all_kinds;
      print_string "tables end\n"
  | "" -> ()
  | _ -> Printf.printf "%s unknown\n" cmd

let () =
  (try
     while true do
       let line = input_line stdin in
       let line = if String.length line > 0 && line.[String.length line - 1] = '\r' then String.sub line 0 (String.length line - 1) else line in
       if String.length line >= 2 && String.sub line 0 2 = "# " then print_string (line ^ "\n")
       else run line
     done
   with End_of_file -> ());
  flush stdout
