(* Driver for the extracted specifications (coq/Spec): evaluates the independent oracles on
   positions given as FEN text. Hand-written glue only (conversions and printing). *)
open Spec

let rec pos_of_int (i : int) : positive =
  if i = 1 then XH else if i land 1 = 0 then XO (pos_of_int (i lsr 1)) else XI (pos_of_int (i lsr 1))
let n_of_int i = if i = 0 then N0 else Npos (pos_of_int i)
let rec int_of_pos = function XH -> 1 | XO p -> 2 * int_of_pos p | XI p -> 2 * int_of_pos p + 1
let int_of_n = function N0 -> 0 | Npos p -> int_of_pos p
let int_of_z = function Z0 -> 0 | Zpos p -> int_of_pos p | Zneg p -> - (int_of_pos p)
let rec nat_of_int i = if i <= 0 then O else S (nat_of_int (i - 1))

let bits_of_n (v : n) : bool list =
  let rec go = function XH -> [true] | XO p -> false :: go p | XI p -> true :: go p in
  match v with N0 -> [] | Npos p -> go p
let hex_of_n ?(width = 0) (v : n) : string =
  let bits = Array.of_list (bits_of_n v) in
  let nb = Array.length bits in
  let ndig = max (max 1 ((nb + 3) / 4)) width in
  let b = Bytes.make ndig '0' in
  for d = 0 to ndig - 1 do
    let v = ref 0 in
    for k = 0 to 3 do
      let i = d * 4 + k in
      if i < nb && bits.(i) then v := !v lor (1 lsl k)
    done;
    Bytes.set b (ndig - 1 - d) "0123456789abcdef".[!v]
  done;
  Bytes.to_string b

let scalars_of_string (s : string) : n list =
  let len = String.length s in
  let rec go i acc =
    if i >= len then List.rev acc
    else
      let c = Char.code s.[i] in
      let take k init =
        let v = ref init in
        for j = 1 to k do
          if i + j < len then v := (!v lsl 6) lor (Char.code s.[i + j] land 0x3f)
        done;
        go (i + k + 1) (n_of_int !v :: acc) in
      if c < 0x80 then go (i + 1) (n_of_int c :: acc)
      else if c < 0xe0 then take 1 (c land 0x1f)
      else if c < 0xf0 then take 2 (c land 0x0f)
      else take 3 (c land 0x07) in
  go 0 []

(* spec texts are ASCII *)
let string_of_text (t : n list) : string =
  let b = Buffer.create 32 in
  List.iter (fun c -> Buffer.add_char b (Char.chr (int_of_n c land 255))) t;
  Buffer.contents b
let us s = String.map (fun c -> if c = ' ' then '_' else c) s
let hex_of_string (s : string) : string =
  let b = Buffer.create (2 * String.length s) in
  String.iter (fun c -> Buffer.add_string b (Printf.sprintf "%02x" (Char.code c))) s;
  Buffer.contents b

let texts ms = String.concat "," (List.sort compare (List.map (fun m -> string_of_text (move_text m)) ms))
let b01 b = if b then 1 else 0

(* "<arg> | <fen>" *)
let split_bar (s : string) : string * string =
  match String.index_opt s '|' with
  | None -> ("", String.trim s)
  | Some i -> (String.trim (String.sub s 0 i), String.trim (String.sub s (i + 1) (String.length s - i - 1)))

let split_first (s : string) : string * string =
  match String.index_opt s ' ' with
  | None -> (s, "")
  | Some i -> (String.sub s 0 i, String.trim (String.sub s (i + 1) (String.length s - i - 1)))

let with_pos cmd fen f =
  match parse (scalars_of_string fen) with
  | None -> Printf.printf "%s none\n" cmd
  | Some p -> f p

let run (line : string) : unit =
  let (cmd, rest) = split_first line in
  match cmd with
  | "spec" ->
      (* everything the position-level oracles need *)
      with_pos cmd rest (fun p ->
          Printf.printf "spec ok sane=%d six=%d check=%d render=%s H=%s evalm=%d evale=%d endgame=%d legal=%s\n"
            (b01 (sane p)) (b01 (six_fields (scalars_of_string rest))) (b01 (in_check p p.p_turn))
            (us (string_of_text (render p))) (hex_of_n ~width:16 (h p))
            (int_of_z (eval false p.p_board)) (int_of_z (eval true p.p_board))
            (b01 (spec_is_endgame p.p_board)) (texts (legal_moves p)))
  | "specparse" ->
      (* only the grammar: is this text a well-formed FEN, and of which position *)
      (match parse (scalars_of_string rest) with
       | None -> print_string "specparse none\n"
       | Some p -> Printf.printf "specparse ok sane=%d render=%s H=%s\n" (b01 (sane p))
                     (us (string_of_text (render p))) (hex_of_n ~width:16 (h p)))
  | "specpseudo" ->
      (* pseudo-legal moves that leave the own king attacked *)
      with_pos cmd rest (fun p ->
          let extra = List.filter (fun m -> not (legal p m)) (pseudo_legal_moves p) in
          Printf.printf "specpseudo exposing=%s\n" (texts extra))
  | "specapply" ->
      let (mv, fen) = split_bar rest in
      with_pos cmd fen (fun p ->
          match parse_move (scalars_of_string mv) with
          | None -> print_string "specapply badmove\n"
          | Some m ->
              let q = apply p m in
              Printf.printf "specapply legal=%d render=%s H=%s record=%s\n" (b01 (legal p m))
                (us (string_of_text (render q))) (hex_of_n ~width:16 (h q))
                (hex_of_string (string_of_text (record_entry p m))))
  | "specline" ->
      (* specline m1 m2 ... | fen : is the line playable move by move? *)
      let (mvs, fen) = split_bar rest in
      with_pos cmd fen (fun p ->
          let toks = List.filter (fun x -> x <> "") (String.split_on_char ' ' mvs) in
          let rec go p i = function
            | [] -> Printf.printf "specline ok n=%d\n" i
            | t :: rest ->
                (match parse_move (scalars_of_string t) with
                 | Some m when legal p m -> go (apply p m) (i + 1) rest
                 | _ -> Printf.printf "specline bad at=%d move=%s\n" i t) in
          go p 0 toks)
  | "specplay" ->
      (* specplay m1 m2 ... | fen : the game as the RULES play it; one line per ply with the legal moves there *)
      let (mvs, fen) = split_bar rest in
      with_pos cmd fen (fun p ->
          let toks = List.filter (fun x -> x <> "") (String.split_on_char ' ' mvs) in
          let show i p =
            let extra = List.filter (fun m -> not (legal p m)) (pseudo_legal_moves p) in
            Printf.printf "specply %d sane=%d render=%s legal=%s exposing=%s\n" i (b01 (sane p))
              (us (string_of_text (render p))) (texts (legal_moves p)) (texts extra) in
          let rec go p i = function
            | [] -> show i p
            | t :: rest ->
                show i p;
                (match parse_move (scalars_of_string t) with
                 | Some m when legal p m -> go (apply p m) (i + 1) rest
                 | _ -> Printf.printf "specply %d illegal=%s\n" (i + 1) t) in
          go p 0 toks)
  | "speclast" ->
      (* speclast m1 m2 ... | fen : play the line by the rules and print only the last position's line *)
      let (mvs, fen) = split_bar rest in
      with_pos cmd fen (fun p ->
          let toks = List.filter (fun x -> x <> "") (String.split_on_char ' ' mvs) in
          let rec go p i = function
            | [] ->
                Printf.printf "specply %d sane=%d render=%s legal=%s\n" i (b01 (sane p))
                  (us (string_of_text (render p))) (texts (legal_moves p))
            | t :: rest ->
                (match parse_move (scalars_of_string t) with
                 | Some m when legal p m -> go (apply p m) (i + 1) rest
                 | _ -> Printf.printf "specply %d illegal=%s\n" (i + 1) t) in
          go p 0 toks)
  | "specmirror" ->
      with_pos cmd rest (fun p ->
          let mb = mirror_board p.p_board in
          Printf.printf "specmirror evalm=%d evale=%d endgame=%d\n" (int_of_z (eval false mb))
            (int_of_z (eval true mb)) (b01 (spec_is_endgame mb)))
  | "specmate" ->
      let (n, fen) = split_bar rest in
      let n = try int_of_string n with _ -> 1 in
      with_pos cmd fen (fun p ->
          let ms = legal_moves p in
          let forced = forced_mate_in (nat_of_int n) p in
          let keep = List.filter (fun m -> keeps_mate (nat_of_int n) p m) ms in
          Printf.printf "specmate n=%d forced=%d dead=%d checkmate=%d keep=%s\n" n (b01 forced)
            (b01 (ms = [])) (b01 (checkmate p)) (texts keep))
  | "specperft" ->
      let (n, fen) = split_bar rest in
      let n = try int_of_string n with _ -> 1 in
      with_pos cmd fen (fun p -> Printf.printf "specperft %d %d\n" n (int_of_n (perft (nat_of_int n) p)))
  | "" -> ()
  | _ -> Printf.printf "%s unknown\n" cmd

let () =
  (try
     while true do
       let line = input_line stdin in
       if String.length line >= 2 && String.sub line 0 2 = "# " then print_string (line ^ "\n")
       else run line
     done
   with End_of_file -> ());
  flush stdout
