"""Shared machinery of the checks: building, running the three executables in parallel shards,
Coq obligations, known findings, verdict and evidence. See DESIGN.md section 5."""
import hashlib
import json
import os
import re
import subprocess
import sys
import time
from concurrent.futures import ThreadPoolExecutor

ROOT = os.path.dirname(os.path.dirname(os.path.abspath(__file__)))
CACHE = os.path.join(ROOT, ".cache")
REPO = "/repo"
HARNESS = os.path.join(CACHE, "target-harness", "release", "verif_harness")
HARNESS_CHECKED = os.path.join(CACHE, "target-harness", "checked", "verif_harness")
HARNESS_BOUNDS = os.path.join(CACHE, "target-harness", "bounds", "verif_harness")
DRIVER = os.path.join(CACHE, "driver", "driver")
SPECDRIVER = os.path.join(CACHE, "specdriver", "specdriver")
SCHEDDRIVER = os.path.join(CACHE, "scheddriver", "scheddriver")
ENGINE = os.path.join(CACHE, "target-bin", "release", "rustybait")
NPROC = min(16, os.cpu_count() or 4)

FORBIDDEN = re.compile(r"\b(Admitted|admit|Axiom|Parameter|Conjecture|Unset Guard Checking|bypass_check|Admit Obligations|type-in-type|impredicative-set)\b")

TRUSTED_BASE = [
    "Coq 8.16.1 kernel and its vm_compute reduction machine (no native_compute)",
    "translator tools/gen_defs.py (tables, keys, delta lists, letters, constants regenerated from /repo on every run; cross-checked against the compiled engine's own dump)",
    "extraction with ExtrOcamlBasic only (Extract Inductive bool, option, unit, list, prod, sumbool=>bool, sumor=>option; Extract Inlined Constant andb=>(&&), orb=>(||)); no directive of our own; numbers stay positive/N/Z",
    "ocamlfind ocamlopt 4.13.1, hand-written drivers driver/driver.ml and driver/specdriver.ml (conversions and printing only)",
    "Rust harness /verif/harness (includes /repo sources by #[path]), tools/*.py (generators, comparison, verdict)",
    "modelled, not verified: the hand translation of control flow in coq/Model (tied by the correspondence run); GameState bitfield as a record; 64-entry arrays as 8x8 lists; Rust HashMap as a finite map; sort_by_cached_key as a stable insertion sort; println! as atomic append; relaxed atomics on one location as sequentially consistent",
]


def sh(cmd, **kw):
    return subprocess.run(cmd, shell=True, capture_output=True, text=True, **kw)


def repo_digest():
    h = hashlib.sha256()
    for base, _, files in sorted(os.walk(os.path.join(REPO, "src"))):
        for f in sorted(files):
            p = os.path.join(base, f)
            h.update(p.encode())
            h.update(open(p, "rb").read())
    for f in ("zobrist_bytes.bin", "Cargo.toml", "Cargo.lock"):
        p = os.path.join(REPO, f)
        if os.path.exists(p):
            h.update(open(p, "rb").read())
    return h.hexdigest()[:16]


def verif_digest():
    """digest of the model/driver/harness sources, so cached run outputs are never stale"""
    h = hashlib.sha256()
    for d in ("coq/Base", "coq/Model", "coq/Spec", "coq/Extract", "driver", "harness/src", "tools"):
        base = os.path.join(ROOT, d)
        for f in sorted(os.listdir(base)):
            p = os.path.join(base, f)
            if os.path.isfile(p) and not f.endswith((".vo", ".glob", ".aux", ".vos", ".vok", ".pyc")):
                h.update(p.encode())
                h.update(open(p, "rb").read())
    return h.hexdigest()[:16]


class BuildError(Exception):
    def __init__(self, stage, log):
        super().__init__(stage)
        self.stage = stage
        self.log = log


def build():
    """returns dict stage -> bool; raises nothing (the caller decides what a failed stage means)"""
    r = sh(os.path.join(ROOT, "tools", "build.sh"))
    status = {}
    try:
        for ln in open(os.path.join(CACHE, "build_status")):
            k, v = ln.split()
            status[k] = (v == "ok")
    except FileNotFoundError:
        pass
    status["_log"] = (r.stdout + r.stderr)[-3000:]
    return status


# ---- running scripts in shards --------------------------------------------------------------

def split_games(lines):
    """a script is a list of blocks; every block starts with a '# <id>' line"""
    blocks = []
    cur = None
    for ln in lines:
        if ln.startswith("# "):
            cur = [ln]
            blocks.append(cur)
        else:
            if cur is None:
                cur = ["# _"]
                blocks.append(cur)
            cur.append(ln)
    return blocks


CURRENT_TIER = "quick"


def default_timeout(exe):
    """watchdog per shard: the real code must answer quickly in the quick tier (a search that runs on is a finding,
    not something to wait for); the extracted model is slower and gets more room"""
    impl = "target-harness" in exe or "target-bin" in exe
    if CURRENT_TIER == "quick":
        return 150 if impl else 900
    return 1800 if impl else 3000


def run_blocks(exe, blocks, timeout=None, env=None, nshards=None):
    """run blocks over parallel shards; returns dict block-id -> list of output lines.
    A shard that crashes or times out yields '!! crashed' for its unfinished blocks."""
    if not blocks:
        return {}
    timeout = min(timeout, default_timeout(exe)) if timeout else default_timeout(exe)
    nshards = nshards or min(NPROC, max(1, len(blocks)))
    shards = [[] for _ in range(nshards)]
    for i, b in enumerate(blocks):
        shards[i % nshards].append(b)

    def one(shard):
        text = "\n".join("\n".join(b) for b in shard) + "\n"
        try:
            p = subprocess.run([exe], input=text.encode(), capture_output=True, timeout=timeout, env=env)
            out = p.stdout.decode("utf-8", "replace")
            rc = p.returncode
        except subprocess.TimeoutExpired as e:
            out = (e.stdout or b"").decode("utf-8", "replace")
            rc = -999
        res = {}
        cur = None
        for ln in out.split("\n"):
            if ln.startswith("# "):
                cur = ln[2:]
                res[cur] = []
            elif cur is not None and ln != "":
                res[cur].append(ln)
        if rc != 0:
            ids = [b[0][2:] for b in shard]
            seen = list(res.keys())
            last = seen[-1] if seen else None
            for i in ids:
                if i not in res:
                    res[i] = ["!! %s (not reached)" % ("no answer within %d s" % timeout if rc == -999 else "crashed rc=%d" % rc)]
            if last is not None:
                res[last].append("!! %s" % ("no answer within %d s: the command above did not finish" % timeout if rc == -999 else "crashed rc=%d" % rc))
        return res

    result = {}
    with ThreadPoolExecutor(max_workers=nshards) as ex:
        for r in ex.map(one, [s for s in shards if s]):
            result.update(r)
    return result


def cached_run(kind, exe, blocks, key, **kw):
    """run_blocks with an on-disk cache keyed by the repo digest, our own digest and `key`"""
    d = os.path.join(CACHE, "runs")
    os.makedirs(d, exist_ok=True)
    h = hashlib.sha256(("\n".join("\n".join(b) for b in blocks)).encode()).hexdigest()[:16]
    path = os.path.join(d, "%s-%s-%s-%s-%s.json" % (kind, repo_digest(), verif_digest(), key, h))
    if os.path.exists(path) and not os.environ.get("VERIF_NOCACHE"):
        try:
            return json.load(open(path))
        except Exception:
            pass
    res = run_blocks(exe, blocks, **kw)
    tmp = path + ".tmp%d" % os.getpid()
    json.dump(res, open(tmp, "w"))
    os.replace(tmp, path)
    return res


# ---- xorshift PRNG: every random choice of a run derives from VERIF_SEED ----------------------

class Rng:
    def __init__(self, seed):
        self.s = (seed * 0x9E3779B97F4A7C15 + 0x1234567) & 0xFFFFFFFFFFFFFFFF or 1

    def next(self):
        x = self.s
        x ^= (x << 13) & 0xFFFFFFFFFFFFFFFF
        x ^= x >> 7
        x ^= (x << 17) & 0xFFFFFFFFFFFFFFFF
        self.s = x
        return x

    def below(self, n):
        return self.next() % n

    def choice(self, l):
        return l[self.below(len(l))]

    def chance(self, num, den):
        return self.below(den) < num


# ---- Coq obligations ---------------------------------------------------------------------------

ALLOWED_AXIOMS = set()   # every pinned theorem is expected to be closed under the global context


def coq_obligations(prop, extra_targets=()):
    """build Properties/<prop>.vo; returns dict with theorems, assumptions, ok, log"""
    coqdir = os.path.join(ROOT, "coq")
    target = "Properties/%s.vo" % prop
    src = os.path.join(coqdir, "Properties", "%s.v" % prop)
    res = {"theorems": [], "assumptions": {}, "ok": False, "log": "", "failed": None, "forbidden": []}
    if not os.path.exists(src):
        res["log"] = "no Properties/%s.v" % prop
        return res
    # forbidden words anywhere in the development
    for base, _, files in os.walk(coqdir):
        for f in files:
            if f.endswith(".v"):
                p = os.path.join(base, f)
                txt = open(p, encoding="utf-8").read()
                txt_nc = re.sub(r"\(\*.*?\*\)", "", txt, flags=re.S)
                for m in FORBIDDEN.finditer(txt_nc):
                    res["forbidden"].append("%s: %s" % (os.path.relpath(p, coqdir), m.group(0)))
    # a fresh log of the property file itself: remove its .vo so that Print Assumptions output is produced
    for ext in (".vo", ".glob", ".vos", ".vok"):
        try:
            os.remove(src[:-2] + ext)
        except FileNotFoundError:
            pass
    lock = open(os.path.join(CACHE, "build.lock"), "w")
    import fcntl
    fcntl.flock(lock, fcntl.LOCK_EX)
    try:
        r = sh("cd %s && ulimit -s unlimited; timeout 3000 make -j16 %s %s 2>&1" % (coqdir, target, " ".join(extra_targets)))
    finally:
        fcntl.flock(lock, fcntl.LOCK_UN)
    log = r.stdout
    res["log"] = log[-6000:]
    txt = open(src, encoding="utf-8").read()
    res["theorems"] = re.findall(r"^\s*(?:Theorem|Lemma|Definition)\s+(\w+)", txt, flags=re.M)
    res["pins"] = re.findall(r"^\s*Check\s+(\w+)\s*[:.]", txt, flags=re.M)
    if r.returncode != 0:
        m = re.search(r'File "\./([^"]+)", line (\d+)', log)
        res["failed"] = "%s:%s" % (m.group(1), m.group(2)) if m else "make failed"
        return res
    # parse Print Assumptions output: "Closed under the global context" or "Axioms:\n name : type"
    chunks = re.split(r"(?=Closed under the global context|Axioms:)", log)
    closed = log.count("Closed under the global context")
    axioms = re.findall(r"^Axioms:\n((?:.+\n)+?)(?=\S|\Z)", log, flags=re.M)
    names = set()
    for block in re.findall(r"Axioms:\n((?:[ \t]*\S.*\n?)+)", log):
        for ln in block.split("\n"):
            m = re.match(r"^(\S+)\s*:", ln)
            if m:
                names.add(m.group(1))
    res["assumptions"] = {"closed": closed, "axioms": sorted(names)}
    bad = [a for a in names if a not in ALLOWED_AXIOMS]
    if CURRENT_TIER == "thorough":
        # the independent checker re-checks the compiled property file and everything it depends on
        c = sh("cd %s && ulimit -s unlimited; timeout 2400 coqchk -silent -o -Q . Chess Chess.Properties.%s 2>&1" % (coqdir, prop))
        out = c.stdout
        m = re.search(r"\* Axioms:\s*(.*?)\n\s*\n", out, flags=re.S)
        ax = (m.group(1).strip() if m else "?")
        res["coqchk"] = {"exit": c.returncode, "axioms": ax[:2000],
                         "type_in_type": "type-in-type: <none>" in out, "unsafe_fixpoints": "unsafe (co)fixpoints: <none>" in out,
                         "positivity": "positivity is assumed: <none>" in out}
        if c.returncode != 0 or ax != "<none>":
            bad.append("coqchk: exit %d, axioms %s" % (c.returncode, ax[:200]))
    res["ok"] = (not bad) and not res["forbidden"] and closed >= 1
    if bad:
        res["failed"] = "axioms not allowed: %s" % ", ".join(bad)
    if res["forbidden"]:
        res["failed"] = "forbidden: %s" % "; ".join(res["forbidden"][:5])
    return res


# ---- known findings -----------------------------------------------------------------------------

def known_findings(prop):
    p = os.path.join(ROOT, "known_findings.json")
    if not os.path.exists(p):
        return []
    data = json.load(open(p))
    return [e for e in data.get("known", []) if e.get("property") == prop]


# ---- the check object ----------------------------------------------------------------------------

class Check:
    def __init__(self, prop, tier, seed):
        global CURRENT_TIER
        CURRENT_TIER = tier
        self.prop = prop
        self.tier = tier
        self.seed = seed
        self.t0 = time.time()
        self.violations = []        # (description, replay dict, found_input: bool)
        self.known_hits = []
        self.cov = {"obligations": 0, "discharged": 0, "checker_cmd": "", "trusted_base": list(TRUSTED_BASE),
                    "evaluations": 0, "distinct_nontrivial": 0, "rule": "", "samples": [],
                    "traces_validated_against_impl": 0, "disagreements_checked": 0}
        self.assumptions = []
        self.notes = []

    def violation(self, what, replay, found_input=True):
        self.violations.append((what, replay, found_input))

    def add_obligations(self, res):
        n = len(res.get("pins", [])) or len(res.get("theorems", []))
        self.cov["obligations"] += n
        if res["ok"]:
            self.cov["discharged"] += n
        self.cov["checker_cmd"] = "cd coq && make Properties/%s.vo (coqc 8.16.1; Print Assumptions under every pinned theorem)" % self.prop
        self.cov["theorems"] = res.get("pins") or res.get("theorems")
        self.cov["print_assumptions"] = res.get("assumptions")
        if res.get("coqchk"):
            self.cov["coqchk"] = res["coqchk"]
            self.cov["trusted_base"].append("coqchk -o (independent checker) on this property's compiled file: %s" % json.dumps(res["coqchk"]))
        self.cov["trusted_base"].append("Print Assumptions: %s" % json.dumps(res.get("assumptions")))

    def finish(self):
        os.makedirs(os.path.join(ROOT, "evidence"), exist_ok=True)
        os.makedirs(os.path.join(ROOT, "replays"), exist_ok=True)
        known = known_findings(self.prop)
        reported = 0
        lines = []
        for i, (what, replay, found) in enumerate(self.violations):
            # a violation is a known finding only if its class matches a listed entry
            k = None
            for e in known:
                if e.get("class") and replay.get("class") == e["class"]:
                    k = e
            if k is not None:
                if k["id"] not in self.known_hits:
                    self.known_hits.append(k["id"])
                    lines.append("KNOWN-FINDING: property=%s %s" % (self.prop, k["what"]))
                continue
            path = os.path.join("replays", "%s-%d.json" % (self.prop, reported))
            replay = dict(replay)
            replay["property"] = self.prop
            replay["what"] = what
            replay["seed"] = self.seed
            replay["tier"] = self.tier
            json.dump(replay, open(os.path.join(ROOT, path), "w"), indent=1)
            lines.append("VIOLATION property=%s replay=%s%s" % (self.prop, path, "" if found else " no-failing-input-found"))
            lines.append("  " + what[:400])
            reported += 1
            if reported >= 5:
                break
        ev = {
            "property_id": self.prop, "tier": self.tier, "seed": self.seed, "level": "proof",
            "coverage": self.cov, "assumptions": self.assumptions, "wall_s": round(time.time() - self.t0, 2),
            "violations": reported,
        }
        if self.notes:
            ev["coverage"]["notes"] = self.notes
        json.dump(ev, open(os.path.join(ROOT, "evidence", "%s.json" % self.prop), "w"), indent=1)
        for ln in lines:
            print(ln)
        print("%s: %s (%d obligations, %d discharged; %d evaluations, %d non-trivial; %.1fs)" % (
            self.prop, "FAIL" if reported else "ok", self.cov["obligations"], self.cov["discharged"],
            self.cov["evaluations"], self.cov["distinct_nontrivial"], time.time() - self.t0))
        return 1 if reported else 0
