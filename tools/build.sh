#!/bin/bash
# Build everything the checks need from the files on disk (offline). Incremental; serialised
# with a lock so that several checks started together share the work. Every stage is attempted
# even when an earlier one failed (so that the failing-input search still has what it can get);
# the outcome of each stage is written to .cache/build_status and the script exits non-zero if
# any stage failed.
set -u
ROOT="$(cd "$(dirname "$0")/.." && pwd)"
CACHE="$ROOT/.cache"
mkdir -p "$CACHE/driver" "$CACHE/specdriver" "$CACHE/scheddriver" "$CACHE/logs"
exec 9>"$CACHE/build.lock"
flock 9
export CARGO_NET_OFFLINE=true
STATUS="$CACHE/build_status"
: > "$STATUS"
fail=0
stage() { echo "$1 $2" >> "$STATUS"; if [ "$2" != ok ]; then fail=1; echo "BUILD-FAIL $1"; fi; }

cd "$ROOT"
if python3 tools/gen_defs.py > "$CACHE/logs/gen_defs.log" 2>&1; then stage translator ok; else stage translator fail; fi
cat "$CACHE/logs/gen_defs.log"

# --- Coq model and specs (needed by extraction); proofs are built per property by the check
cd "$ROOT/coq"
if [ ! -f Makefile ] || [ _CoqProject -nt Makefile ]; then
  coq_makefile -f _CoqProject -o Makefile > /dev/null 2>&1
fi
MODEL_VO=$(grep -E '^(Base|Gen|Model|Spec)/' _CoqProject | sed 's/\.v$/.vo/' | tr '\n' ' ')
if timeout 1800 make -j16 $MODEL_VO > "$CACHE/logs/coq_model.log" 2>&1; then stage coq_model ok
else tail -20 "$CACHE/logs/coq_model.log"; stage coq_model fail; fi

# --- extraction + OCaml drivers (rebuilt when the model, the specs or the driver sources changed)
build_driver() { # dir extract-file ml-module driver-source exe
  cd "$CACHE/$1"
  local stamp
  stamp=$(cat "$ROOT"/coq/Gen/*.v "$ROOT"/coq/Base/*.v "$ROOT"/coq/Model/*.v "$ROOT"/coq/Spec/*.v "$ROOT/coq/Extract/$2" "$ROOT/driver/$4" 2>/dev/null | sha256sum | cut -d' ' -f1)
  if [ -x "$5" ] && [ "$(cat stamp 2>/dev/null)" = "$stamp" ]; then return 0; fi
  rm -f "$5" stamp
  timeout 900 coqc -Q "$ROOT/coq" Chess "$ROOT/coq/Extract/$2" > "$CACHE/logs/extract_$1.log" 2>&1 || { tail -20 "$CACHE/logs/extract_$1.log"; return 1; }
  cp "$ROOT/driver/$4" .
  (ulimit -s unlimited 2>/dev/null; timeout 900 ocamlfind ocamlopt -O3 -w -a "$3.mli" "$3.ml" "$4" -o "$5" > "$CACHE/logs/ocaml_$1.log" 2>&1) || { tail -20 "$CACHE/logs/ocaml_$1.log"; return 1; }
  echo "$stamp" > stamp
}
if build_driver driver Extract.v model driver.ml driver; then stage driver ok; else stage driver fail; fi
if build_driver specdriver ExtractSpec.v spec specdriver.ml specdriver; then stage specdriver ok; else stage specdriver fail; fi
if build_driver scheddriver ExtractSched.v sched scheddriver.ml scheddriver; then stage scheddriver ok; else stage scheddriver fail; fi

# --- Rust harness (two profiles) and the hooked engine binary, from /repo's working tree
cd "$ROOT/harness"
cp /repo/Cargo.lock Cargo.lock 2>/dev/null && sed -i 's/name = "rustybait"/name = "verif_harness"/' Cargo.lock
export RUSTFLAGS="--cfg daniel729_chess_verif"
for profile in release checked bounds; do
  if timeout 900 cargo build --offline --profile $profile --target-dir "$CACHE/target-harness" > "$CACHE/logs/harness_$profile.log" 2>&1; then stage harness_$profile ok
  else grep -E "^error" -A12 "$CACHE/logs/harness_$profile.log" | head -40; rm -f "$CACHE/target-harness/$profile/verif_harness"; stage harness_$profile fail; fi
done
cd /repo
if timeout 900 cargo build --offline --release --target-dir "$CACHE/target-bin" > "$CACHE/logs/bin.log" 2>&1; then stage engine ok
else grep -E "^error" -A12 "$CACHE/logs/bin.log" | head -40; rm -f "$CACHE/target-bin/release/rustybait"; stage engine fail; fi
if [ $fail -eq 0 ]; then echo "BUILD-OK"; fi
exit $fail
