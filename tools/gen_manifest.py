#!/usr/bin/env python3
"""Writes /verif/MANIFEST.json (kept in one place so that the 20 entries stay consistent)."""
import json
import os

ROOT = os.path.dirname(os.path.dirname(os.path.abspath(__file__)))

COMMON_NOTE = ("Trusted: Coq 8.16.1 kernel + vm_compute (no native_compute); no axioms (every pinned theorem prints 'Closed under the global context'); "
               "translator tools/gen_defs.py (all tables, keys, delta lists, letters, constants regenerated from /repo on every run and cross-checked against the "
               "compiled engine's own dump); ExtrOcamlBasic extraction and the hand-written OCaml drivers, the Rust harness (includes /repo's sources by #[path]) and tools/*.py. "
               "Modelled, not verified: the hand translation of control flow in coq/Model/*.v, tied to the code by the correspondence run of this check (same scripts through the "
               "real code and the extracted model, outputs diffed); ")

T = "machine-checked proof in Coq (invariants by induction over operation sequences) + regenerated data + differential correspondence run"

PROPS = {
 "C01": ("proof",
         "Theorem C01_reachable: for every game reached by legal play from a sane import whose untruncated move list fits the 256-entry buffer, the checked list (as UCI texts) is a "
         "permutation of Rules.legal_moves, without repetition, it is a sub-list of the unchecked list, and every other unchecked move is pseudo-legal under the rules and leaves the mover's king attacked. "
         "Ingredients, all proved: attack test = rules' attack relation on every board; pin shortcut = full test; generator soundness, completeness and duplicate-freeness against Spec/Rules.v; "
         "push = Rules.apply; the legal-play invariant (both kings present, side not to move not attacked) by induction over import / push_history.",
         "positions with more than 256 pseudo-legal moves (list truncated by the buffer) are excluded by the hypothesis Fits; a FEN-acceptable example is pinned (C15_refuted_buffer) and the general bound for reachable material is open (DESIGN.md 11.4)."),
 "C02": ("proof",
         "Theorem C02_push_is_apply: for every game reachable by legal play and every legal move, abs(push g m) = Rules.apply (abs g) (abs_move m) (placement, side, four rights, recorded en-passant file), "
         "also for push_history; lifted to move sequences (C02_sequence). The invariant it needs (castling right => king and rook at home) is itself proved for every reachable game.",
         ""),
 "C03": ("proof",
         "Theorems: pop (push g m) m = g as equality of the whole record for every generated move (checked or not, king captures included) in every reachable game; get_moves threaded through push/pop "
         "returns the game unchanged; nested play/take-back to any depth (explore) is the identity; the representation invariant holds in every reachable game (induction over import / push_history / push).",
         ""),
 "C04": ("proof",
         "Theorems: in every reachable game and after every import g_hash = HashSpec.H (abs g) (XOR of the published keys selected by the position), hence equal positions have equal hashes; key layout "
         "(byte offsets into the key file) and the start-position value D9C54592621D7040 pinned by computation over the regenerated keys.",
         ""),
 "C05": ("proof",
         "Theorems: 1026 keys pairwise distinct; every single-feature change (a square, the side, the rights/en-passant state) of any well-formed position changes H; all 525825 pairwise XORs distinct, hence no collision between positions differing in one or two features; H p = H p' iff the keys of the differing features cancel. Collision freedom over the explored set is an exploration by nature (injectivity on all positions is false by counting): the run enumerates the legal-move trees of the six perft roots (depth 4-5, about 4.7 million distinct positions in the quick tier, more in the thorough tier) on the real code and checks that no two distinct positions share a hash; it is reported separately in the evidence.",
         'the collision-freedom half is exploration over the enumerated trees, not a theorem.'),
 "C06": ("proof",
         'Theorems: every search from a sound table ends in a sound table; the announced move is in the checked list of the root or there is an explicit 64-bit collision witness; every reachable game meets the hypotheses; and (ScoreRange2.v, for games of bounded material - true of the initial array and preserved by every move) for every table a session can produce: no move is announced ONLY when the root has no legal move (C06_none_iff_dead), proved through score-range invariants of quiescence, depth-1, node and root. Proving this exposed a genuine defect (a searched dead root poisoned the table; fix 6a8f7c7).',
         '64-bit hash collisions are an explicit disjunct of the legality theorem (bounded by C05); the none-iff-dead half assumes bounded material (Bounded).'),
 "C07": ("proof",
         'Theorems: after the poll that sees the flag down no further node is entered (hook counter = 0 for every stop index), at most N+1 polls; the answer is the best move of the last completed iteration, or the first checked move when none completed; and (ScoreRange2.v, bounded material, every table a session can produce) a stop at ANY poll index yields a move whenever a legal move exists (C07_answers_when_stopped). The run stops the real search at poll indices 0..39 and a geometric sample up to 10000, with fresh tables and with the root cached exact.',
         'wall-clock promptness is measured, not proved (thread wake-up, OS scheduling); the always-answers theorem assumes bounded material.'),
 "C08": ("proof",
         "Theorems: iteration depths consecutive from the starting depth, none beyond max(limit, cached depth) or 255; with a deeper exact root entry exactly one (table-hit) iteration; the model's recursion never runs out of fuel on any board (quiescence terminates: a potential of at most 128 decreases with every tactical move); killer index in range; and (NoOverflow.v, over a second model in which every i16/u8/u32 operation of search.rs is checked) no arithmetic of the search can overflow for bounded material and every table a session can produce - so a build with overflow checks cannot panic there and a build without computes what the model says. The run searches with limits below / at / above cached depths (including roots cached only as a bound), the longest accepted games followed by unlimited searches, and tiny positions without limit, in the release and the overflow-checked build.",
         'the no-overflow theorem assumes bounded material (true of the initial array, preserved by every move).'),
 "C09": ("proof",
         "Theorems (Proofs/AlphaBeta*.v): move ordering is a permutation; quiescence, the depth-1 specialisation and the full PVS node (null-window probe and re-search included) are bound-consistent with the exhaustive reference for every window, ordering, killer and history state; the table-less root returns exactly the reference value on trees without a blocked node whose king-capture interval is a point (root_exact_iv). Counterexamples machine-checked for the excluded tree classes. The run (a) compares the real code's table-less root score with the extracted reference at depth 1-3(4) and (b) calls the three search functions directly (hook entry points) with about 150 windows per position placed around the node's exhaustive value: same result as the extracted model, and inside the proved bound-consistency relation.",
         'scores beyond +-9000 (mate / king capture) are compared after clamping, as the property allows; trees with a blocked node are skipped and counted.'),
 "C10": ("proof",
         "Theorems (Proofs/MateOne.v): from a fresh table, in every game reached by legal play with bounded material in which some legal move gives checkmate, a search that is not stopped and has no limit or a limit >= 3 announces a "
         "mating move (C10_mate_in_one_found) and stops by itself - only-move shortcut at depth 1, or iterations 1,2,3 with the third scoring 32667 (C10_mate_in_one_stops) - under an explicit, computable no-collision "
         "condition on 64-bit hashes (a mated child's hash differs from the root's and from every non-mated child's). The root's repetition filter never removes a mating move in such a game (C10_filter_keeps_mates). "
         "C10_dead_root: a root without legal moves is answered with no move, for every table/limit/stop. Proving the mate-in-one half exposed a genuine defect (the filter fired on records that repeat nothing and removed "
         "the only mating move - two records, one found by the proof's author; fix a0a0e3f). The mate-in-one theorem is also stated over Spec/Rules.v (C10_mate_in_one_rules, C10_mate_in_one_forced: forced_mate_in 1 implies keeps_mate 0 of the announced move). The mate-in-two half is proved for the table-less mode only and otherwise decided by the correspondence run against the independent solver Rules.forced_mate_in (forced mate in two "
         "at depth 5 and 6, fresh table; at the end of game records a m b n a on which the filter fires; inside sessions of the real binary after a timed go that ended early); known finding C10-K1 (a quiet key of a mate "
         "in two is filtered when the record repeats) is replayed on every run.",
         "Defect F13 (mate scores through the table counted from the wrong ply: a mate-in-three move announced as a mate in two from a fresh table; fix d5b26ce) was found by the table-on proof attempt and its ten witness positions stay in the check. With the table ON (MateTwoTableOn*.v, partial): a ply-aware range for every node under every table in range (true only since the repair), iterations 1-3 complete outside the exit bands, a completed fourth iteration stays below the high band; iteration 5 is open. mate-in-two half: a full theorem only for the model's table-less mode (C10_mate_in_two_tableless_partial, with the reference value 32665 attained only by keys); with the table on it is exploration with an independent oracle. Known finding C10-K1 is listed in known_findings.json."),
 "C11": ("proof",
         'Theorems: fields 1-4 of the exported text = FenSpec.render (abs g) and six well-formed fields, in every reachable game; re-import succeeds with the same position and the same hash, unconditionally for every game reached by legal play; parse (render p) = p; the re-imported game satisfies the invariant of legal play (C11_reimport_legalinv, no premise beyond legal play) and has the same legal moves as UCI texts up to order (C11_roundtrip_moves_partial: the buffer bound of the re-imported game is the one explicit premise, shown satisfiable; without it the re-imported list is still duplicate-free and contained in the original one, C11_roundtrip_moves_incl). The run also re-imports the exported text on the real code (same fields, hash and legal moves), including games of 300 and 396 plies and scripted en-passant / promotion-capture games.',
         ''),
 "C12": ("proof",
         "Theorems: generated moves are written as Notation.move_text (standard UCI); from_uci (uci m) g = Some m; distinct generated moves have distinct texts; a string of move shape is accepted by the "
         "position command's test exactly when it is the text of a checked move and then exactly that move is played. The run pushes all 20480 move-shaped strings through the real parser in each position.",
         "strings outside the move shape (upper-case promotion letter, trailing characters) are outside the property's quantifier; two machine-checked examples document the tolerance."),
 "C13": ("proof",
         "Theorems over the exact binary64 model of the 2% share (pure Gallina SpecFloat, no float axioms): budget <= own clock, non-negative, a u64; movetime bound; share t <= t and monotone; budget = 0 "
         "exactly for clocks below 7550 ms without increment; a lower clock never yields a larger budget. The run compares the binary's `info time` with the extracted model on boundary and random tuples.",
         "that bestmove is printed within the budget depends on thread wake-up and search unwinding: measured with a 2 s margin, not proved."),
 "C14": ("proof",
         "Theorems about the labelled transition system Model/Sched.v (one transition per shared-memory action of uci.rs; every command sequence, every interleaving, unboundedly many go's). Safety by an inductive invariant: at most one bestmove per go and exactly one once its thread is done; a flag is down forever once its timer fired or stop was handled, and is only raised before the timer exists; after the bestmove of the current go the next position/go/show/ucinewgame is not refused; the game is kept while a search thread needs it; no panic; no deadlock; isready answered without the lock; quit exits. Progress (SchedLive.v) by a measure that every engine-side step decreases: no livelock; after stop, and after every accepted go, EVERY maximal continuation prints the bestmove and returns to idle; a position/go pair after a bestmove always starts a new search; the stdin thread can only wait for a search whose flag is already down, except in the wait command. The run drives the real binary with random sessions and stretched schedule points; every observed session must be a trace of the proved model (breadth-first search over its schedules), and an unlimited search must stay silent until stop.",
         'fairness and the real scheduler are outside a transition system without clock; search progress is abstracted (any search may end by itself).'),
 "C15": ("proof",
         'Theorems: piece/square/state/history indices in range; every square stored in a generated move is valid; the unsafe pawn-push constructors are only used where valid; every tactical move lowers a potential <= 128, so quiescence nests at most that deep; state stack: guard + 256 + 128 + 1 <= capacity over the regenerated constants (position command and self-play) and every game reached by a search stays below the capacity; the position command never leaves a game at or above the guard and self-play never searches one; the move list fits the buffer by construction and, for bounded material, is not truncated. The run executes corpus games, dense positions (also pawns on the first and last ranks) and the longest accepted games with deep searches in the checked build.',
         "the general bound 'no reachable position has more than 256 pseudo-legal moves' is open (C15_moves_fit_partial covers material with 27Q+14R+13B+8N+12P+10 <= 256)."),
 "C16": ("proof",
         "Theorems: in every reachable game and after every import the score is wrap16 of EvalSpec.eval with one king table for both kings; equal to the sum whenever the sum fits an i16; the colour-mirrored "
         "board has the negated sum and the same phase.",
         "for material whose piece-square sum leaves the i16 range the engine's score is the wrapped sum (stated as such in the theorem)."),
 "C17": ("proof",
         "Theorems: the reader never panics on any text; whatever it accepts is a well-formed FEN (FenSpec.parse) and is imported as the position described; every well-formed FEN is accepted; everything "
         "else is refused with an error; a sane imported position satisfies the representation invariant. The run feeds structured mutations to the release and the overflow-checked build.",
         ""),
 "C18": ("proof",
         "Theorem: every `info pv` line the driver prints is the text of a line playable move by move, up to an explicit collision witness (pv_walk_sound, driver_lines_sound over the sound-table invariant of C06). "
         "The run replays every printed line through Rules.legal / Rules.apply.",
         "64-bit hash collisions are an explicit disjunct."),
 "C19": ("proof",
         "Theorems (Model/Session.v, Proofs/SessionProofs.v): ucinewgame restores the initial state - whatever was searched before, every following command list produces the same outputs and final session as on a fresh engine; the output of go is a function of (game, table, limit, stop index), killers and history being created inside. What only the tie can show - that the implementation has no hidden input - is checked by running each (position, depth) repeatedly on the real binary under load, different memory layouts, after prefixes ending in ucinewgame and after a timed search that ended before its timer: all transcripts identical and equal to the model's.",
         'absence of hidden inputs in the implementation (time, addresses, map iteration order, stale timer threads) is not provable in a model; it rests on the perturbed runs.'),
 "C20": ("proof",
         "Theorems: every record entry of a generated move equals Notation.record_entry (piece letter, origin file, capture mark, destination, promotion piece - over the regenerated letter tables); "
         "display decomposes into the Hash / Fen / PGN lines and the eight rank lines with the right glyphs; the hex text of the hash is correct. The run compares `show` and the record with the specification.",
         ""),
}


def main():
    checks = []
    for pid in sorted(PROPS):
        cat, text, caveat = PROPS[pid]
        checks.append({
            "property_id": pid,
            "quick_cmd": "./check %s --tier quick" % pid,
            "thorough_cmd": "./check %s --tier thorough" % pid,
            "evidence_file": "evidence/%s.json" % pid,
            "replay_cmd_template": "cat {path}",
            "engine": "coq-proof",
            "level_claimed": {"category": cat, "text": text, "design_ref": "DESIGN.md section 6 (%s) and section 11" % pid},
            "level_note": COMMON_NOTE + (caveat if caveat else "nothing further."),
            "technique": T,
        })
    m = {
        "version": 1,
        "setup_cmd": "./tools/build.sh",
        "hooks": {
            "guard": "daniel729_chess_verif",
            "enable": "RUSTFLAGS=\"--cfg daniel729_chess_verif\" cargo build --release (harness and engine binary are built this way by tools/build.sh)",
            "baseline_off_cmd": "cd /repo && cargo test --workspace --no-fail-fast --offline",
            "source_commits": ["1a97382", "0741360", "6c7ff30", "6c9615f"],
            "add_only": True,
        },
        "engines": [{
            "name": "coq-proof", "path": "coq/", "serves_properties": sorted(PROPS),
            "kind_free_text": "Coq 8.16.1 development: generated data (coq/Gen), executable model (coq/Model), executable specs (coq/Spec), proofs (coq/Proofs), pinned theorems (coq/Properties); "
                              "three extracted OCaml drivers (model, specification, thread model); Rust harness in three profiles; UCI runner for the real binary",
        }],
        "checks": checks,
        "not_applicable": [],
        "notes": "All twenty properties are decided by Coq theorems about a model tied to /repo on every run (regenerated data + correspondence run). Known findings: known_findings.json.",
    }
    json.dump(m, open(os.path.join(ROOT, "MANIFEST.json"), "w"), indent=1)
    print("MANIFEST.json written with %d checks" % len(checks))


if __name__ == "__main__":
    main()
