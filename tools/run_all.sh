#!/bin/bash
# Runs every registered check (quick tier unless VERIF_TIER says otherwise) on /repo as it is and prints one line each.
# Refuses to run when /repo has uncommitted changes, so that committed evidence always comes from the unchanged tree.
cd "$(dirname "$0")/.."
if [ -n "$(git -C /repo status --porcelain)" ]; then echo "/repo is not clean"; exit 2; fi
fail=0
for i in $(seq -w 1 20); do
  p="C$i"
  out=$(timeout 3000 ./check $p --tier "${VERIF_TIER:-quick}" 2>&1); rc=$?
  echo "$out" | tail -1
  echo "$out" | grep -E "^(VIOLATION|KNOWN-FINDING)" 
  [ $rc -ne 0 ] && fail=1
done
exit $fail
