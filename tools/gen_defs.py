#!/usr/bin/env python3
"""Translator: reads every piece of *data* out of /repo's sources (tables, keys, delta lists,
letter tables, constants) and emits Gallina definitions under coq/Gen/.

It is a function-scoped pattern reader, not a Rust parser: it locates an item by name and
reads a literal out of it. If an expected item is not found it raises TranslatorError, which
the check treats as a broken tie (DESIGN.md 3.1 / 5.2). Files are rewritten only when their
content changes so that `make` rebuilds only what depends on a change.
"""
import hashlib
import os
import re
import struct
import sys

REPO = os.environ.get("VERIF_REPO", "/repo")
OUT = os.path.join(os.path.dirname(os.path.abspath(__file__)), "..", "coq", "Gen")


class TranslatorError(Exception):
    pass


def need(cond, msg):
    if not cond:
        raise TranslatorError(msg)


def read(rel):
    p = os.path.join(REPO, rel)
    need(os.path.exists(p), "missing source file " + rel)
    return open(p, encoding="utf-8").read()


def strip_comments(s):
    s = re.sub(r"//[^\n]*", "", s)
    return s


def block_after(src, start_idx):
    """text of the {...} block that opens at or after start_idx (balanced braces)"""
    i = src.index("{", start_idx)
    depth = 0
    j = i
    while True:
        c = src[j]
        if c == "{":
            depth += 1
        elif c == "}":
            depth -= 1
            if depth == 0:
                return src[i : j + 1]
        j += 1


def fn_body(src, name):
    m = re.search(r"\bfn\s+" + re.escape(name) + r"\b", src)
    need(m, "function %s not found" % name)
    return block_after(src, m.end())


def bracket_after(src, start_idx, open_c="[", close_c="]"):
    i = src.index(open_c, start_idx)
    depth = 0
    j = i
    while True:
        c = src[j]
        if c == open_c:
            depth += 1
        elif c == close_c:
            depth -= 1
            if depth == 0:
                return src[i : j + 1]
        j += 1


def tuples(text):
    r = re.findall(r"\(\s*(-?\d+)\s*,\s*(-?\d+)\s*\)", text)
    return [(int(a), int(b)) for a, b in r]


SRC_FILES = ["src/constants.rs", "src/search.rs", "src/uci.rs", "src/autoplay.rs", "src/chess/mod.rs", "src/chess/piece.rs",
             "src/chess/scores.rs", "src/chess/zobrist.rs", "src/chess/move_struct.rs", "src/chess/position.rs"]


def crate_text():
    out = []
    for f in SRC_FILES:
        p = os.path.join(REPO, f)
        if os.path.exists(p):
            out.append(strip_comments(open(p, encoding="utf-8").read()))
    return "\n".join(out)


def const_expr(name, depth=0):
    """right-hand side of `const NAME: T = <expr>;` anywhere in the crate (a harmless clean-up may name a literal)"""
    need(depth < 8, "constant %s: definitions nest too deeply" % name)
    text = crate_text()
    m = re.search(r"\bconst\s+%s\s*:[^=]*=" % re.escape(name), text)
    need(m, "named constant %s not found" % name)
    depth_b = 0
    j = m.end()
    while j < len(text):
        c = text[j]
        if c in "([{":
            depth_b += 1
        elif c in ")]}":
            depth_b -= 1
        elif c == ";" and depth_b == 0:
            break
        j += 1
    return text[m.end():j].strip()


def int_value(expr, what, depth=0):
    """integer value of a literal expression over digits, + * ( ), `as T` casts and named constants of the crate"""
    e = re.sub(r"\bas\s+\w+", "", expr).replace("_", "_")
    def repl(mm):
        tok = mm.group(0)
        name = tok.split("::")[-1]
        return "(%d)" % int_value(const_expr(name, depth + 1), what, depth + 1)
    e = re.sub(r"(?:[A-Za-z_][A-Za-z_0-9]*::)*[A-Za-z_][A-Za-z_0-9]*", repl, e)
    e = re.sub(r"(?<=\d)_(?=\d)", "", e)
    need(re.fullmatch(r"[\d\s+*()\-]+", e), "%s: cannot evaluate '%s'" % (what, expr))
    return int(eval(e))


def list_after_for(body, var, what):
    """the bracketed literal iterated by `for <var> in [ ... ]`, or by `for <var> in NAME` with `const NAME: [..] = [ ... ];`"""
    m = re.search(r"for %s in \[" % var, body)
    if m:
        return bracket_after(body, m.start())
    m = re.search(r"for %s in &?((?:\w+::)*\w+)" % var, body)
    need(m, what)
    rhs = const_expr(m.group(1).split("::")[-1])
    need(rhs.startswith("["), what + " (constant %s is not a list literal)" % m.group(1))
    return rhs


def lists_of_for(body, var):
    """every `for <var> in <list literal or named constant>` of the body, in order: [(offset, literal text)]"""
    res = []
    for m in re.finditer(r"for %s in (\[|&?(?:\w+::)*[A-Z][A-Z_0-9]*\b)" % var, body):
        if m.group(1) == "[":
            res.append((m.start(), bracket_after(body, m.start())))
        else:
            rhs = const_expr(m.group(1).lstrip("&").split("::")[-1])
            need(rhs.startswith("["), "constant %s is not a list literal" % m.group(1))
            res.append((m.start(), rhs))
    return res


def last_full_window_index(body, what):
    """`if index <= N` or the equivalent `if index < N+1`"""
    m = re.search(r"if index (<=|<) ((?:\w+::)*\w+)", body)
    need(m, what)
    v = int_value(m.group(2), what)
    return v if m.group(1) == "<=" else v - 1


def zlist(xs):
    return "[" + "; ".join(str(x) for x in xs) + "]%Z"


def zpairs(ps):
    return "[" + "; ".join("(%d, %d)" % p for p in ps) + "]%Z"


def dirs_of_macro(text):
    """directions out of `(1..).map(|x| (a, b))` arguments, in order"""
    res = []
    for m in re.finditer(r"\(1\.\.\)\.map\(\|x\|\s*\(\s*(-?\w+)\s*,\s*(-?\w+)\s*\)\s*\)", text):
        def val(t):
            if t == "x":
                return 1
            if t == "-x":
                return -1
            need(re.fullmatch(r"-?\d+", t), "unexpected ray component " + t)
            need(int(t) == 0, "ray component must be 0 or +-x, got " + t)
            return 0
        res.append((val(m.group(1)), val(m.group(2))))
    return res


KINDS = ["Queen", "Rook", "Bishop", "Knight", "Pawn", "King"]


def match_arms(text, lhs_prefix=r"(?:PieceType|Player|Self)::"):
    """arms `Prefix::Name => value,` in a match body"""
    res = []
    for m in re.finditer(lhs_prefix + r"(\w+)\s*=>\s*([^,\n]+),", text):
        res.append((m.group(1), m.group(2).strip()))
    return res


def match_on(body, scrutinee):
    """the block of `match <scrutinee> {`"""
    m = re.search(r"match\s+" + scrutinee + r"\s*\{", body)
    need(m, "match %s not found" % scrutinee)
    return block_after(body, m.start())


def char_lit(t):
    m = re.fullmatch(r"'(.)'", t.strip(), re.S)
    need(m, "char literal expected, got " + t)
    return ord(m.group(1))


def per_color(body, varname, conv):
    m = re.search(r"let\s+" + varname + r"\s*=\s*match\s+self\.owner\s*\{", body)
    need(m, "let %s = match self.owner not found" % varname)
    blk = block_after(body, m.start())
    arms = dict(match_arms(blk.replace("\n", " ").replace("),", ")§").replace("],", "]§").replace("§", ",\n") + "\n"))
    # simpler: direct regex
    w = re.search(r"Player::White\s*=>\s*(.+?),\s*Player::Black", blk, re.S)
    b = re.search(r"Player::Black\s*=>\s*(.+?),?\s*\}", blk, re.S)
    need(w and b, "arms of %s not found" % varname)
    return conv(w.group(1)), conv(b.group(1))


def write_if_changed(name, text):
    os.makedirs(OUT, exist_ok=True)
    p = os.path.join(OUT, name)
    old = open(p).read() if os.path.exists(p) else None
    if old != text:
        open(p, "w").write(text)
        return True
    return False


HEADER = "(* GENERATED by tools/gen_defs.py from %s - do not edit *)\n"


def gen_tables():
    scores = strip_comments(read("src/chess/scores.rs"))
    piece = strip_comments(read("src/chess/piece.rs"))
    mod = strip_comments(read("src/chess/mod.rs"))
    out = [HEADER % "src/chess/scores.rs, piece.rs, mod.rs"]
    out.append("From Coq Require Import ZArith List.\nFrom Chess Require Import Base.Types.\nImport ListNotations.\nOpen Scope Z_scope.\n")
    names = ["QUEEN_SCORES", "ROOK_SCORES", "BISHOP_SCORES", "KNIGHT_SCORES", "PAWN_SCORES",
             "KING_SCORES_MIDDLE", "KING_SCORES_END"]
    for n in names:
        m = re.search(r"pub const " + n + r"\s*:\s*\[i16;\s*64\]\s*=\s*\[([^\]]*)\]", scores)
        need(m, "table %s not found" % n)
        vals = [int(x) for x in re.findall(r"-?\d+", m.group(1))]
        need(len(vals) == 64, "table %s has %d entries" % (n, len(vals)))
        out.append("Definition %s : list Z := %s.\n" % (n, zlist(vals)))
    m = re.search(r"pub const ENDGAME_THRESHOLD\s*:\s*u32\s*=\s*([^;]+);", scores)
    need(m, "ENDGAME_THRESHOLD not found")
    expr = m.group(1)
    need(re.fullmatch(r"[\d\s+*()_-]+", expr), "ENDGAME_THRESHOLD expression")
    out.append("Definition ENDGAME_THRESHOLD : Z := %d.\n" % eval(expr.replace("_", "")))
    # discriminant order of PieceType
    m = re.search(r"pub enum PieceType\s*\{([^}]*)\}", piece)
    need(m, "enum PieceType not found")
    order = re.findall(r"\b([A-Z]\w+)\b", m.group(1))
    need(sorted(order) == sorted(KINDS), "PieceType variants changed: %s" % order)
    out.append("(* discriminants of PieceType, in declaration order *)\nDefinition kind_order : list kind := [%s].\n" % "; ".join(order))
    # the piece_scores array in Game::new
    body = fn_body(mod, "new")
    m = re.search(r"let piece_scores[^=]*=\s*\[(.*?)\];", body, re.S)
    need(m, "piece_scores array in Game::new not found")
    cells = re.findall(r"Cell::new\(&scores::(\w+)\)", m.group(1))
    need(len(cells) == 6, "piece_scores array should have 6 cells")
    out.append("(* the piece_scores array of Game::new, in order *)\nDefinition initial_tables : list (list Z) := [%s].\n" % "; ".join(cells))
    # update_phase
    body = fn_body(mod, "update_phase")
    m = re.search(r"self\.piece_scores\[PieceType::(\w+) as usize\]\.set\(&scores::(\w+)\)", body)
    need(m, "table swap in update_phase not found")
    out.append("Definition endgame_swap_kind : kind := %s.\nDefinition endgame_swap_table : list Z := %s.\n" % (m.group(1), m.group(2)))
    body = fn_body(mod, "is_endgame")
    m = re.search(r"total_piece_score\s*<\s*(\d+)\s*\*\s*ENDGAME_THRESHOLD", body)
    need(m, "endgame comparison not found")
    out.append("Definition endgame_factor : Z := %s.\n" % m.group(1))
    # material values (PieceType::material_value)
    m = re.search(r"impl PieceType\s*\{", piece)
    need(m, "impl PieceType not found")
    body = fn_body(block_after(piece, m.start()), "material_value")
    arms = dict(match_arms(body))
    need(sorted(arms) == sorted(KINDS), "material_value arms")
    out.append("Definition material_value (k : kind) : Z :=\n  match k with\n%s  end.\n" %
               "".join("  | %s => %d\n" % (k, int(arms[k])) for k in KINDS))
    # score(): the row flip and the sign
    body = fn_body(piece, "score")
    w = re.search(r"Player::White\s*=>\s*7\s*-\s*pos\.row\(\)", body)
    b = re.search(r"Player::Black\s*=>\s*pos\.row\(\)", body)
    if w and b:
        flip = "White"
    else:
        w2 = re.search(r"Player::Black\s*=>\s*7\s*-\s*pos\.row\(\)", body)
        b2 = re.search(r"Player::White\s*=>\s*pos\.row\(\)", body)
        need(w2 and b2, "row flip in Piece::score not recognised")
        flip = "Black"
    out.append("(* the colour whose rows are flipped (7 - row) when indexing a score table *)\nDefinition score_flip_color : color := %s.\n" % flip)
    m = re.search(r"pub enum Player\s*\{\s*White\s*=\s*(-?\d+)\s*,\s*Black\s*=\s*(-?\d+)", strip_comments(read("src/chess/mod.rs")))
    need(m, "enum Player discriminants not found")
    out.append("Definition color_sign (c : color) : Z := match c with White => %s | Black => %s end.\n" % (m.group(1), m.group(2)))
    # as_index
    body = fn_body(piece, "as_index")
    m = re.search(r"if self\.owner == Player::(\w+)\s*\{\s*index \+= (\d+);", body)
    need(m, "as_index offset not found")
    out.append("Definition index_offset_color : color := %s.\nDefinition index_offset : Z := %s.\n" % (m.group(1), m.group(2)))
    return "\n".join(out)


def gen_keys():
    z = strip_comments(read("src/chess/zobrist.rs"))
    data = open(os.path.join(REPO, "zobrist_bytes.bin"), "rb").read()
    m = re.search(r'(\w+)\s*:\s*&\[u8;\s*(\d+)\]\s*=\s*include_bytes!\("([^"]+)"\)', z)
    need(m, "include_bytes of the key file not found")
    arr = m.group(1)
    need(int(m.group(2)) == len(data), "key file length differs from the declared one")
    need(os.path.basename(m.group(3)) == "zobrist_bytes.bin", "key file name changed")
    mf = re.search(r"fn\s+get_random_nums\s*<\s*const\s+(\w+)\s*:\s*usize\s*>\s*\(\s*(\w+)\s*:\s*usize\s*\)", z)
    need(mf, "signature of get_random_nums changed")
    par = mf.group(2)
    body = fn_body(z, "get_random_nums")
    order = re.findall(r"%s\[%s \+ (\w+) \* 8(?: \+ (\d))?\]" % (re.escape(arr), re.escape(par)), body)
    need(len(order) == 8 and len({v for v, _ in order}) == 1, "the eight bytes of a little-endian word are not read as expected")
    need([int(k or 0) for _, k in order] == list(range(8)), "byte order of the word changed")
    need("u64::from_le_bytes(bytes)" in body, "from_le_bytes not found")

    def start_of(const, count):
        mm = re.search(r"pub const %s\s*:[^=]*=\s*get_random_nums::<%d>\(([^)]*)\)" % (const, count), z)
        need(mm, "key constant %s not found" % const)
        e = mm.group(1)
        need(re.fullmatch(r"[\d\s+*]+", e), "offset expression of " + const)
        return eval(e)
    o_black = start_of("BLACK_TO_MOVE", 1)
    o_empty = start_of("EMPTY_PLACE", 1)
    o_state = start_of("STATE", 256)
    mm = re.search(r"get_random_nums::<768>\(([^)]*)\)", z)
    need(mm, "flat PIECE array not found")
    need(re.fullmatch(r"[\d\s+*]+", mm.group(1)), "offset expression of PIECE")
    o_piece = eval(mm.group(1))
    mr = re.search(r"(\w+)\[(\w+)\]\[(\w+)\]\s*=\s*(\w+)\[(\w+) \* 12 \+ (\w+)\]", z)
    need(mr and mr.group(2) == mr.group(5) and mr.group(3) == mr.group(6) and mr.group(2) != mr.group(3), "PIECE reshaping changed")
    out = [HEADER % "src/chess/zobrist.rs, zobrist_bytes.bin"]
    out.append("From Coq Require Import NArith List String.\nImport ListNotations.\nOpen Scope N_scope.\n")
    out.append('Definition ZOBRIST_SHA256 : string := "%s"%%string.\n' % hashlib.sha256(data).hexdigest())
    out.append("Definition ZOBRIST_BYTES : list N := [%s].\n" % "; ".join(str(b) for b in data))
    out.append("Definition OFFSET_BLACK_TO_MOVE : N := %d.\nDefinition OFFSET_EMPTY_PLACE : N := %d.\nDefinition OFFSET_STATE : N := %d.\nDefinition OFFSET_PIECE : N := %d.\n" % (o_black, o_empty, o_state, o_piece))
    out.append("Definition COUNT_STATE : N := 256.\nDefinition COUNT_PIECE : N := 768.\nDefinition PIECE_ROW : N := 12.\n")
    # the keys as literals too (cross-checked in Coq against the bytes: Proofs/KeysLayout.v)
    def word(off):
        return struct.unpack_from("<Q", data, off)[0]
    out.append("Definition KEY_BLACK_TO_MOVE : N := %d.\nDefinition KEY_EMPTY_PLACE : N := %d.\n" % (word(o_black), word(o_empty)))
    out.append("Definition KEYS_STATE : list N := [%s].\n" % "; ".join(str(word(o_state + 8 * i)) for i in range(256)))
    out.append("Definition KEYS_PIECE : list N := [%s].\n" % "; ".join(str(word(o_piece + 8 * i)) for i in range(768)))
    return "\n".join(out)


def gen_geometry():
    piece = strip_comments(read("src/chess/piece.rs"))
    mod = strip_comments(read("src/chess/mod.rs"))
    out = [HEADER % "src/chess/piece.rs, mod.rs"]
    out.append("From Coq Require Import ZArith List.\nFrom Chess Require Import Base.Types.\nImport ListNotations.\nOpen Scope Z_scope.\n")
    # knight / king generators
    for fn, name in (("get_knight_moves", "GEN_KNIGHT_DELTAS"), ("get_king_moves", "GEN_KING_DELTAS")):
        body = fn_body(piece, fn)
        ds = tuples(list_after_for(body, "delta", "delta list of %s not found" % fn))
        need(len(ds) >= 1, "empty delta list in " + fn)
        out.append("Definition %s : list (Z * Z) := %s.\n" % (name, zpairs(ds)))
    # sliders
    body = fn_body(piece, "get_moves")
    for kind in ("Rook", "Bishop", "Queen"):
        m = re.search(r"PieceType::%s\s*=>\s*\{" % kind, body)
        need(m, "slider arm %s not found" % kind)
        blk = block_after(body, m.start())
        ds = dirs_of_macro(blk)
        need(len(ds) >= 1, "no directions for " + kind)
        out.append("Definition GEN_%s_DIRS : list (Z * Z) := %s.\n" % (kind.upper(), zpairs(ds)))
    # pawns
    body = fn_body(piece, "get_pawn_moves")
    ival = lambda t: int(t.strip())
    tup1 = lambda t: tuples(t)[0]
    fr = per_color(body, "first_row", ival)
    lr = per_color(body, "last_row", ival)
    er = per_color(body, "en_passant_row", ival)
    nd = per_color(body, "normal_delta", tup1)
    fd = per_color(body, "first_row_delta", tup1)
    sd = per_color(body, "side_deltas", tuples)
    def colfun(name, ty, vals, fmt):
        return "Definition %s (c : color) : %s := match c with White => %s | Black => %s end.\n" % (name, ty, fmt(vals[0]), fmt(vals[1]))
    p = lambda t: "(%d, %d)" % t
    out.append(colfun("PAWN_FIRST_ROW", "Z", fr, str))
    out.append(colfun("PAWN_LAST_ROW", "Z", lr, str))
    out.append(colfun("PAWN_EP_ROW", "Z", er, str))
    out.append(colfun("PAWN_NORMAL_DELTA", "Z * Z", nd, p))
    out.append(colfun("PAWN_FIRST_DELTA", "Z * Z", fd, p))
    out.append(colfun("PAWN_SIDE_DELTAS", "list (Z * Z)", sd, zpairs))
    proms = [t for _, t in lists_of_for(body, "new_piece")]
    need(len(proms) in (1, 2), "expected one (shared) or two promotion loops in get_pawn_moves")
    lists = [re.findall(r"PieceType::(\w+)", x) for x in proms]
    if len(lists) == 1:
        lists = [lists[0], lists[0]]      # one loop serving the step and the captures
    out.append("Definition PROMOTION_KINDS_PUSH : list kind := [%s].\nDefinition PROMOTION_KINDS_CAPTURE : list kind := [%s].\n" % ("; ".join(lists[0]), "; ".join(lists[1])))
    # is_targeted
    body = fn_body(mod, "is_targeted")
    lf = lists_of_for(body, "delta")
    need(len(lf) == 2, "expected two delta loops over list literals in is_targeted")
    fors = [o for o, _ in lf]
    kd = tuples(lf[0][1])
    nd2 = tuples(lf[1][1])
    k1 = re.search(r"piece\.piece_type == PieceType::(\w+)", body[fors[0]:fors[1]])
    k2 = re.search(r"piece\.piece_type == PieceType::(\w+)", body[fors[1]:])
    need(k1 and k2, "piece kinds of the delta loops in is_targeted")
    out.append("Definition TARGET_DELTAS_1 : list (Z * Z) := %s.\nDefinition TARGET_KIND_1 : kind := %s.\n" % (zpairs(kd), k1.group(1)))
    out.append("Definition TARGET_DELTAS_2 : list (Z * Z) := %s.\nDefinition TARGET_KIND_2 : kind := %s.\n" % (zpairs(nd2), k2.group(1)))
    m = re.search(r"match player\s*\{", body)
    need(m, "pawn part of is_targeted not found")
    blk = block_after(body, m.start())
    w = re.search(r"Player::White\s*=>\s*\{", blk)
    b = re.search(r"Player::Black\s*=>\s*\{", blk)
    need(w and b, "pawn arms of is_targeted")
    wb = block_after(blk, w.start())
    bb = block_after(blk, b.start())
    pw = tuples(" ".join(re.findall(r"position\.add\((\([^)]*\))\)", wb)))
    pb = tuples(" ".join(re.findall(r"position\.add\((\([^)]*\))\)", bb)))
    need(len(pw) >= 1 and len(pb) >= 1, "pawn attack deltas of is_targeted")
    kp = set(re.findall(r"piece\.piece_type == PieceType::(\w+)", blk))
    need(kp == {"Pawn"}, "pawn attack kind in is_targeted")
    out.append(colfun("TARGET_PAWN_DELTAS", "list (Z * Z)", (pw, pb), zpairs))
    calls = [m for m in re.finditer(r"search_enemies_loops!\[", body)]
    need(len(calls) == 2, "expected two search_enemies_loops! calls")
    for i, c in enumerate(calls):
        blk = bracket_after(body, c.start())
        ks = re.findall(r"PieceType::(\w+)", blk)
        need(len(ks) == 2, "two piece kinds per ray macro call")
        ds = dirs_of_macro(blk)
        out.append("Definition TARGET_RAY_KINDS_%d : kind * kind := (%s, %s).\nDefinition TARGET_RAY_DIRS_%d : list (Z * Z) := %s.\n" % (i + 1, ks[0], ks[1], i + 1, zpairs(ds)))
    # the shape of the ray macro: stop at first piece
    mac = re.search(r"macro_rules! search_enemies_loops", body)
    need(mac, "ray macro not found")
    return "\n".join(out)


def gen_letters():
    piece = strip_comments(read("src/chess/piece.rs"))
    mv = strip_comments(read("src/chess/move_struct.rs"))
    out = [HEADER % "src/chess/piece.rs, move_struct.rs"]
    out.append("From Coq Require Import ZArith NArith List.\nFrom Chess Require Import Base.Types.\nImport ListNotations.\nOpen Scope N_scope.\n")
    def kindfun(name, arms, conv, ty="N"):
        need(sorted(arms) == sorted(KINDS), "%s: arms %s" % (name, sorted(arms)))
        return "Definition %s (k : kind) : %s :=\n  match k with\n%s  end.\n" % (
            name, ty, "".join("  | %s => %s\n" % (k, conv(arms[k])) for k in KINDS))
    # as_char_ascii
    body = fn_body(piece, "as_char_ascii")
    arms = dict(match_arms(match_on(body, r"self\.piece_type")))
    out.append(kindfun("ASCII_LETTER", arms, lambda t: str(char_lit(t))))
    need(re.search(r"Player::White\s*=>\s*piece\s*,", body) and re.search(r"Player::Black\s*=>\s*piece\.to_ascii_lowercase\(\)", body),
         "case rule of as_char_ascii")
    # from_char_ascii
    body = fn_body(piece, "from_char_ascii")
    arms = re.findall(r"'(.)'\s*=>\s*PieceType::(\w+)", body)
    need(len(arms) == 6, "from_char_ascii arms")
    out.append("Definition FROM_ASCII_LETTER : list (N * kind) := [%s].\n" % "; ".join("(%d, %s)" % (ord(c), k) for c, k in arms))
    need(re.search(r"if piece\.is_ascii_lowercase\(\)\s*\{\s*Player::Black\s*\}\s*else\s*\{\s*Player::White", body), "colour rule of from_char_ascii")
    need("piece.to_ascii_uppercase()" in body, "from_char_ascii upper-casing")
    # as_str_pgn
    body = fn_body(piece, "as_str_pgn")
    arms = dict(match_arms(match_on(body, r"self\.piece_type")))
    def strlit(t):
        m = re.fullmatch(r'"(.*)"', t.strip())
        need(m, "string literal expected: " + t)
        return "[" + "; ".join(str(ord(c)) for c in m.group(1)) + "]"
    out.append(kindfun("PGN_LETTER", arms, strlit, "list N"))
    # as_char glyphs
    body = fn_body(piece, "as_char")
    m = re.search(r"match self\.owner\s*\{", body)
    need(m, "as_char")
    blk = block_after(body, m.start())
    w = re.search(r"Player::White\s*=>\s*match self\.piece_type\s*\{", blk)
    b = re.search(r"Player::Black\s*=>\s*match self\.piece_type\s*\{", blk)
    need(w and b, "as_char arms")
    wa = dict(match_arms(block_after(blk, w.end() - 1)))
    ba = dict(match_arms(block_after(blk, b.end() - 1)))
    out.append(kindfun("GLYPH_WHITE", wa, lambda t: str(char_lit(t))))
    out.append(kindfun("GLYPH_BLACK", ba, lambda t: str(char_lit(t))))
    # uci_notation promotion letters
    body = fn_body(mv, "uci_notation")
    arms = dict(match_arms(match_on(body, "new_piece")))
    out.append("Definition UCI_PROMO_LETTER : list (kind * N) := [%s].\n" % "; ".join("(%s, %d)" % (k, char_lit(v)) for k, v in arms.items()))
    # pgn_notation promotion letters
    body = fn_body(mv, "pgn_notation")
    arms = dict(match_arms(match_on(body, "new_piece")))
    out.append("Definition PGN_PROMO_LETTER : list (kind * N) := [%s].\n" % "; ".join("(%s, %d)" % (k, char_lit(v)) for k, v in arms.items()))
    # from_uci_notation accepted letters
    body = fn_body(mv, "from_uci_notation")
    blk = match_on(body, "new_piece")
    acc = []
    for m in re.finditer(r"((?:'.'\s*\|?\s*)+)=>\s*PieceType::(\w+)", blk):
        for c in re.findall(r"'(.)'", m.group(1)):
            acc.append((ord(c), m.group(2)))
    need(len(acc) >= 4, "from_uci_notation promotion letters")
    out.append("Definition FROM_UCI_PROMO_LETTER : list (N * kind) := [%s].\n" % "; ".join("(%d, %s)" % a for a in acc))
    return "\n".join(out)


def gen_consts():
    mod = strip_comments(read("src/chess/mod.rs"))
    search = strip_comments(read("src/search.rs"))
    uci = strip_comments(read("src/uci.rs"))
    auto = strip_comments(read("src/autoplay.rs"))
    out = [HEADER % "src/chess/mod.rs, search.rs, uci.rs, autoplay.rs"]
    out.append("From Coq Require Import ZArith.\nOpen Scope Z_scope.\n")
    def const(name, val):
        out.append("Definition %s : Z := %d.\n" % (name, val))
    m = re.search(r"state:\s*ArrayVec<GameState,\s*((?:\w+::)*\w+)>", mod)
    need(m, "state stack capacity")
    const("STATE_STACK_CAP", int_value(m.group(1), "constant"))
    m = re.search(r"moves:\s*&mut ArrayVec<Move,\s*((?:\w+::)*\w+)>", mod)
    need(m, "move buffer capacity")
    const("MOVE_BUFFER_CAP", int_value(m.group(1), "constant"))
    m = re.search(r"let mut killer_moves = \[None;\s*([\w\s*+:]+)\]", search)
    need(m, "killer table size")
    const("KILLER_SLOTS", int_value(m.group(1), "killer table size"))
    m = re.search(r"history:\s*&mut \[u16;\s*([\w\s*+:]+)\]", search)
    if not m:
        # `history: &mut Alias` with `type Alias = [u16; N];`
        ma = re.search(r"history:\s*&mut (\w+)", search)
        need(ma, "history size")
        m = re.search(r"type\s+%s\s*=\s*\[u16;\s*([\w\s*+:]+)\]" % re.escape(ma.group(1)), crate_text())
    need(m, "history size")
    const("HISTORY_SLOTS", int_value(m.group(1), "history size"))
    def guard_value(src, what):
        """`if game.len() >= <literal or named constant>`; a name is looked up among the crate's `const` items"""
        m = re.search(r"if game\.len\(\) >= ([A-Za-z_0-9:]+)", src)
        need(m, what)
        tok = m.group(1)
        if tok.isdigit():
            return int(tok)
        name = tok.split("::")[-1]
        for text in (src, read("src/constants.rs"), mod, search):
            m2 = re.search(r"const\s+%s\s*:\s*\w+\s*=\s*([\d_]+)\s*;" % re.escape(name), text)
            if m2:
                return int(m2.group(1).replace("_", ""))
        need(None, what + " (named constant %s not found)" % name)
    const("GAME_LENGTH_GUARD", guard_value(uci, "game length guard in command_position"))
    const("AUTOPLAY_LENGTH_GUARD", guard_value(auto, "game length guard in autoplay"))
    body = fn_body(search, "get_best_move_score")
    m = re.search(r"Score::MIN \+ ((?:\w+::)*\w+) \+ real_depth as Score", body)
    need(m, "mate offset of the main search")
    const("MATE_OFFSET_NODE", int_value(m.group(1), "constant"))
    const("PVS_FULL_WINDOW_LAST_INDEX", last_full_window_index(body, "full-window move count of the main search"))
    m = re.search(r"\(remaining_depth as f64\)\.powf\(([\d.]+)\)", body)
    need(m and float(m.group(1)) == 3.0, "history bonus exponent")
    const("HISTORY_BONUS_EXPONENT", 3)
    m = re.search(r"history\[index\] as f64 / ([\d.]+)", body)
    need(m, "history bonus divisor")
    need(float(m.group(1)) == int(float(m.group(1))), "history divisor not integral")
    const("HISTORY_BONUS_DIVISOR", int(float(m.group(1))))
    need(re.search(r"history\[index\] = history\[index\]\.saturating_add\(real_bonus as u16\)", body), "history update shape")
    # the table's recount of mate scores (score_to_table / score_from_table)
    margins = []
    for fn in ("score_to_table", "score_from_table"):
        b2 = fn_body(search, fn)
        m1 = re.search(r"score > Score::MAX - ((?:\w+::)*\w+)", b2)
        m2 = re.search(r"score < Score::MIN \+ ((?:\w+::)*\w+)", b2)
        need(m1 and m2, "mate margins of " + fn)
        margins += [int_value(m1.group(1), "mate margin"), int_value(m2.group(1), "mate margin")]
    need(len(set(margins)) == 1, "the four mate margins of the table recount differ")
    const("TABLE_MATE_MARGIN", margins[0])
    b2 = fn_body(search, "score_to_table")
    m1 = re.search(r"\.saturating_add\(real_depth as Score\)\s*\.min\(-\(Score::MIN \+ ((?:\w+::)*\w+)\)\)", b2)
    m2 = re.search(r"\.saturating_sub\(real_depth as Score\)\s*\.max\(Score::MIN \+ ((?:\w+::)*\w+)\)", b2)
    need(m1 and m2, "clamp of score_to_table")
    node_off = int_value(re.search(r"Score::MIN \+ ((?:\w+::)*\w+) \+ real_depth as Score", body).group(1), "mate offset")
    need(int_value(m1.group(1), "clamp") == node_off and int_value(m2.group(1), "clamp") == node_off, "score_to_table does not clamp at the node's mate score")
    b3 = fn_body(search, "score_from_table")
    need(re.search(r"score - real_depth as Score", b3) and re.search(r"score \+ real_depth as Score", b3), "shape of score_from_table")
    need(re.search(r"let score = score_from_table\(entry\.score, real_depth\);", body), "the probe does not recount the entry's score")
    need(re.search(r"score: score_to_table\(best_score, real_depth\),", body), "the stored entry is not recounted")
    body = fn_body(search, "get_best_move_score_depth_1")
    m = re.search(r"Score::MIN \+ ((?:\w+::)*\w+) \+ real_depth as Score", body)
    need(m, "mate offset of depth 1")
    const("MATE_OFFSET_DEPTH1", int_value(m.group(1), "constant"))
    body = fn_body(search, "quiescence_search")
    m = re.search(r"Score::MIN \+ ((?:\w+::)*\w+) \+ real_depth as Score", body)
    need(m, "mate offset of quiescence")
    const("MATE_OFFSET_QUIESCENCE", int_value(m.group(1), "constant"))
    body = fn_body(search, "get_best_move_entry")
    const("ROOT_FULL_WINDOW_LAST_INDEX", last_full_window_index(body, "full-window move count of the root"))
    body = fn_body(search, "get_best_move_until_stop")
    m = re.search(r"best_score > Score::MAX - ((?:\w+::)*\w+)", body)
    need(m, "upper exit threshold")
    const("EXIT_BAND_HIGH", int_value(m.group(1), "upper exit threshold"))
    m = re.search(r"best_score < Score::MIN \+ ((?:\w+::)*\w+)", body)
    need(m, "lower exit threshold")
    const("EXIT_BAND_LOW", int_value(m.group(1), "lower exit threshold"))
    # equivalent spellings of "the limit is reached" and of the iteration range are accepted; anything else is a changed shape
    need(re.search(r"max_depth\.is_some_and\(\|(\w+)\| (?:\1 <= depth|depth >= \1)\)", body)
         or re.search(r"max_depth\.map_or\(false, \|(\w+)\| (?:\1 <= depth|depth >= \1)\)", body)
         or re.search(r"matches!\(max_depth, Some\((\w+)\) if (?:\1 <= depth|depth >= \1)\)", body), "depth-limit exit test")
    need(re.search(r"for depth in starting_depth\.\.=(?:u8::MAX|255(?:u8)?)\b", body), "iteration range")
    # move_score constants
    body = fn_body(search, "move_score")
    m = re.search(r"Move::Promotion \{ new_piece, \.\. \} => ((?:\w+::)*\w+) - new_piece\.material_value\(\) as u32 \+ ((?:\w+::)*\w+)", body)
    need(m, "promotion ordering score")
    const("ORDER_PROMOTION_BASE", int_value(m.group(1), "constant") + int_value(m.group(2), "constant"))
    m = re.search(r"Move::EnPassant \{ \.\. \} => ((?:\w+::)*\w+)", body)
    need(m, "en passant ordering score")
    const("ORDER_EN_PASSANT", int_value(m.group(1), "constant"))
    m = re.search(r"Move::CastlingLong \{ \.\. \} => ((?:\w+::)*\w+)", body)
    m2 = re.search(r"Move::CastlingShort \{ \.\. \} => ((?:\w+::)*\w+)", body)
    need(m and m2, "castling ordering score")
    const("ORDER_CASTLING_LONG", int_value(m.group(1), "constant"))
    const("ORDER_CASTLING_SHORT", int_value(m2.group(1), "constant"))
    m = re.search(r"((?:\w+::)*\w+) \+ piece\.material_value\(\) as u32 - captured_piece\.material_value\(\) as u32", body)
    need(m, "capture ordering score")
    const("ORDER_CAPTURE_BASE", int_value(m.group(1), "constant"))
    m = re.search(r"((?:\w+::)*\w+) - history\[_move\.index_history\(\)\.unwrap\(\)\] as u32", body)
    need(m, "quiet ordering score")
    const("ORDER_QUIET_BASE", int_value(m.group(1), "constant"))
    # uci time budget
    m = re.search(r"const FRACTION_OF_TOTAL_TIME: f64 = ([\d.]+);", uci)
    need(m, "FRACTION_OF_TOTAL_TIME")
    f = float(m.group(1))
    mant, exp = (f.hex(), None)
    bits = struct.unpack("<Q", struct.pack("<d", f))[0]
    e = (bits >> 52) & 0x7FF
    frac = bits & ((1 << 52) - 1)
    need(0 < e < 0x7FF, "fraction must be a normal float")
    const("FRACTION_MANTISSA", frac | (1 << 52))
    const("FRACTION_EXPONENT", e - 1075)
    m = re.search(r"const LATENCY_MS_COMPENSATE: u64 = ([\d_]+);", uci)
    need(m, "LATENCY_MS_COMPENSATE")
    const("LATENCY_MS_COMPENSATE", int(m.group(1).replace("_", "")))
    m = re.search(r"time\.saturating_sub\(Duration::from_millis\(((?:\w+::)*\w+)\)\)", uci)
    need(m, "sleep cut")
    const("SLEEP_CUT_MS", int_value(m.group(1), "sleep cut"))
    return "\n".join(out)


def main():
    changed = []
    for name, fn in (("Tables.v", gen_tables), ("Keys.v", gen_keys), ("Geometry.v", gen_geometry),
                     ("Letters.v", gen_letters), ("Consts.v", gen_consts)):
        if write_if_changed(name, fn()):
            changed.append(name)
    print("gen_defs: ok; rewritten: %s" % (", ".join(changed) or "none"))


if __name__ == "__main__":
    try:
        main()
    except TranslatorError as e:
        print("gen_defs: TRANSLATOR-ERROR: %s" % e)
        sys.exit(3)
