"""Checks of C12 (move text), C13 (time budget), C14 (threads of the UCI front end), C15 (bounds),
C17 (FEN reader). See DESIGN.md section 6."""
import os
import re
import time
from concurrent.futures import ThreadPoolExecutor

import lib
from lib import HARNESS, HARNESS_CHECKED, HARNESS_BOUNDS, DRIVER, SPECDRIVER, SCHEDDRIVER, ENGINE, Rng, cached_run, run_blocks
import positions
from positions import ROOTS, parse_kv, fen_of_obs, uci_of_desc
import search_checks
from search_checks import spec_positions, legal_of, diff_runs, finish, common_front, SMALL_ROOTS
import uci

FILES = "abcdefgh"

# ---- C12 ------------------------------------------------------------------------------------------------

# pins, checks and king steps onto attacked squares: many pseudo-legal moves that only the king filter refuses
PIN_POSITIONS = [
    "r3k2r/8/8/8/4q3/8/4B3/R3K2R w KQkq - 0 1", "4k3/8/8/8/1b6/8/3N4/4K3 w - - 0 1", "4k3/4r3/8/8/8/8/4R3/4K3 b - - 0 1",
    "rnbqk1nr/pppp1ppp/8/4p3/1b1P4/2N5/PPP1PPPP/R1BQKBNR w KQkq - 2 3", "4k3/8/8/8/8/8/3p4/4K3 w - - 0 1", "8/8/8/2k5/4K3/8/8/3r4 w - - 0 1",
]
TEXT_POSITIONS = [
    positions.START,
    "r3k2r/p1ppqpb1/bn2pnp1/3PN3/1p2P3/2N2Q1p/PPPBBPPP/R3K2R w KQkq - 0 1",
    "4k3/8/8/2Pp4/8/8/2P5/4K3 w - d6 0 1",                      # c2d3 must not be read as c5xd6
    "4k3/8/8/8/2pP4/8/2p5/4K3 b - d3 0 1",
    "rnb1kbnr/1P4P1/8/8/8/8/1p4p1/RNB1KBNR w KQkq - 0 1",      # promotions with and without capture
    "r3k2r/8/8/8/8/8/8/R3K2R b KQkq - 0 1",
    "4k3/8/8/8/8/8/3n4/R3K2R w KQ - 0 1",                       # in check: castling texts must be refused
    "8/8/8/8/8/4k3/8/R3K2R w - - 0 1",                          # king on e1 without rights: e1g1 is not a move
    "4k3/8/8/8/8/8/8/4KQ1R w - - 0 1",
    "r3k2r/8/8/8/8/8/8/R3K2R w Qk - 0 1",                        # one right per side: the other castling text is no move
    "r3k2r/8/8/8/8/8/8/R3K2R w Kq - 0 1",
    "r3k2r/8/8/8/8/8/8/R3K2R b Qk - 0 1",
    "r3k2r/8/8/8/8/8/8/R3K2R b Kq - 0 1",
]


def all_move_strings():
    out = []
    for a in range(64):
        for b in range(64):
            s = FILES[a % 8] + str(a // 8 + 1) + FILES[b % 8] + str(b // 8 + 1)
            out.append(s)
            for p in "qrbn":
                out.append(s + p)
    return out


def check_C12(chk):
    status, broken = common_front(chk)
    if not status.get("harness_release"):
        return finish(chk, broken, [], [], {})
    rng = Rng(chk.seed * 29 + 17)
    key = "text-%s-%d" % (chk.tier, chk.seed)
    # positions: the fixed ones plus positions reached by random play
    pre = []
    n_extra = 4 if chk.tier == "quick" else 60
    for i in range(n_extra):
        root = ROOTS[rng.below(len(ROOTS))]
        lines = ["# p%d" % i, "new " + root]
        for _ in range(3 + rng.below(40)):
            lines.append("pick %d" % rng.below(1 << 40))
        lines.append("obs")
        pre.append(lines)
    got = cached_run("text-pre", HARNESS, pre, key)
    fens = list(TEXT_POSITIONS)
    for i in range(n_extra):
        for ln in got.get("p%d" % i, []):
            if ln.startswith("obs "):
                fens.append(fen_of_obs(parse_kv(ln)[1]))
    strings = all_move_strings()
    blocks = []
    for i, f in enumerate(fens):
        # shard the 20480 strings of a position over several blocks so that the 16 workers share them
        for part in range(8):
            blocks.append(["# t%d_%d" % (i, part), "new " + f] + ["parse " + s for s in strings[part::8]])
    impl = cached_run("text-impl", HARNESS, blocks, key)
    model = cached_run("text-model", DRIVER, blocks, key, timeout=2400) if status.get("driver") else {}
    dis = diff_runs(blocks, impl, model) if status.get("driver") else []
    spec = spec_positions(fens, key)
    stats = {"positions": len(fens), "strings": 0, "accepted": 0, "legal_texts": 0, "en_passant_like_rejected": 0}
    nfail = 0
    nontrivial = set()
    for i, f in enumerate(fens):
        legal = set(legal_of(spec, f) or [])
        stats["legal_texts"] += len(legal)
        accepted = set()
        for part in range(8):
            res = impl.get("t%d_%d" % (i, part), [])[1:]
            for s, ln in zip(strings[part::8], res):
                stats["strings"] += 1
                tag, kv = parse_kv(ln)
                acc = kv.get("legal") == "1"
                desc = ln.split(" ")[1] if " " in ln else "none"
                bad = None
                if acc:
                    accepted.add(s)
                    played = uci_of_desc(desc) if desc != "none" else "?"
                    if s not in legal:
                        bad = "the string %s is accepted although it is not the text of a legal move (it would be played as %s)" % (s, desc)
                    elif played != s:
                        bad = "the string %s is accepted but a different move is played: %s" % (s, desc)
                elif s in legal:
                    bad = "the legal move %s is refused" % s
                if bad and nfail < 5:
                    nfail += 1
                    chk.violation(bad + " in " + f, {"fen": f, "string": s, "harness_line": ln, "legal": sorted(legal),
                                                     "kind": "spec-oracle failure on the implementation"})
                if acc or (desc.startswith("EP:") and not acc):
                    nontrivial.add((f, s))
                if desc.startswith("EP:") and not acc:
                    stats["en_passant_like_rejected"] += 1
        stats["accepted"] += len(accepted)
    # the same through the real `position` command, on a sample
    uci_stats = {"sessions": 0, "strings": 0}
    if status.get("engine"):
        eng = uci.Engine()
        try:
            ufens = PIN_POSITIONS + fens[: (6 if chk.tier == "quick" else 30)]
            spec.update(spec_positions(PIN_POSITIONS, "pins"))
            xr = run_blocks(SPECDRIVER, [["# x%d" % i, "specplay  | " + f] for i, f in enumerate(ufens)])
            exposing = {}
            for i, f in enumerate(ufens):
                ls = xr.get("x%d" % i, [])
                exposing[f] = [m for m in (parse_kv(ls[0])[1].get("exposing", "") if ls else "").split(",") if m]
            for f in ufens:
                legal = sorted(legal_of(spec, f) or [])
                # (the moves that only the king filter refuses are the ones a lazily checked `position` would play)
                sample = list(legal) + exposing.get(f, []) + [rng.choice(strings) for _ in range(40)] + ["c2d3", "e1g1", "e1c1", "e8g8", "a7a8k", "a7a8"]
                uci_stats["exposing_moves"] = uci_stats.get("exposing_moves", 0) + len(exposing.get(f, []))
                for s in sample:
                    eng.send("position fen %s moves %s" % (f, s))
                    eng.send("show")
                    lines, ok = eng.read_until(lambda l: l.startswith("   a b c") or (l.startswith("error:") and "show" in l.lower()) or l.startswith("error: No game"), 10)
                    uci_stats["strings"] += 1
                    text = "\n".join(lines)
                    fl = [l for l in lines if l.startswith("Fen: ")]
                    err = any(l.startswith("error: Invalid move") or l.startswith("error:") for l in lines)
                    moved = bool(fl) and " ".join(fl[0][5:].split()[:4]) != " ".join(f.split()[:4])
                    bad = None
                    if s in legal and (err or not moved):
                        bad = "position ... moves %s: the legal move was not played (error=%s)" % (s, err)
                    if s not in legal and moved:
                        bad = "position ... moves %s: not a legal move text, yet the position changed to %s" % (s, fl[0][5:])
                    if s not in legal and not err:
                        bad = "position ... moves %s: no error was reported for a string that is not a legal move" % s
                    if bad and nfail < 5:
                        nfail += 1
                        chk.violation(bad + " (from " + f + ")", {"fen": f, "string": s, "output": lines[-14:], "kind": "spec-oracle failure on the implementation (UCI)"})
                uci_stats["sessions"] += 1
            eng.quit()
        finally:
            eng.kill()
    stats["uci"] = uci_stats
    chk.cov["evaluations"] = stats["strings"] + uci_stats["strings"]
    chk.cov["distinct_nontrivial"] = len(nontrivial)
    chk.cov["rule"] = ("in %d positions (nine fixed ones with en passant traps, promotions, castling with and without rights, check; the rest reached by random legal play) ALL 20480 strings "
                       "<square><square>[qrbn] are read by Move::from_uci_notation and tested against the checked move list, in the real code and in the extracted model; a sample goes through the "
                       "binary's `position fen .. moves s` + `show`. Oracle: accepted iff the string is the text of a move in Rules.legal_moves, and the move played has exactly that text. "
                       "Non-trivial: accepted strings and refused en-passant-shaped strings.") % len(fens)
    chk.cov["input_distribution"] = stats
    chk.cov["samples"] = [{"position": fens[2], "strings": ["c2d3", "c5d6", "c5c6"], "legal": legal_of(spec, fens[2])}]
    return finish(chk, broken, dis, blocks, impl)


# ---- C13 ------------------------------------------------------------------------------------------------

U64 = 18446744073709551615


def budget_tuples(tier, seed):
    rng = Rng(seed * 31 + 19)
    edge = [0, 1, 5, 49, 50, 149, 150, 151, 155, 156, 250, 7499, 7500, 7549, 7550, 7551, 7799, 7800, 7801, 8000, 10000, 60000, 300000,
            2 ** 31, 2 ** 32, 2 ** 53 - 1, 2 ** 53, 2 ** 53 + 1, 2 ** 63 - 1, 2 ** 63, U64 - 156, U64 - 155, U64 - 1, U64]
    out = []
    n = 500 if tier == "quick" else 6000
    for i in range(n):
        def pick():
            r = rng.below(10)
            if r < 4:
                return rng.choice(edge)
            if r < 7:
                return rng.below(20000)
            if r < 9:
                return rng.below(10 ** 7)
            return rng.below(U64 + 1)
        wt, bt, wi, bi = pick(), pick(), pick(), pick()
        if rng.chance(1, 3):
            wi = rng.choice([0, 0, 1, 149, 150, 151, wt, wt + 1, U64])
            bi = rng.choice([0, 0, 1, 149, 150, 151, bt, bt + 1, U64])
        side = "w" if rng.chance(1, 2) else "b"
        mt = "-"
        inf = "0"
        if rng.chance(1, 8):
            mt = str(rng.choice([0, 1, 4, 5, 6, 100, 2 ** 40, U64]))
        if rng.chance(1, 20):
            inf = "1"
        out.append((str(wt), str(bt), str(wi), str(bi), side, mt, inf))
    # sweep of low clocks with the increments around the latency allowance
    for wt in range(0, 20001, 250 if tier == "quick" else 25):
        for inc in (0, 1, 149, 150, 151):
            out.append((str(wt), str(wt), str(inc), str(inc), "w", "-", "0"))
    return out


def engine_budget(eng, t):
    wt, bt, wi, bi, side, mt, inf = t
    eng.send("position startpos" if side == "w" else "position startpos moves e2e4")
    cmd = "go wtime %s btime %s winc %s binc %s" % (wt, bt, wi, bi)
    if mt != "-":
        cmd += " movetime " + mt
    if inf == "1":
        cmd += " infinite"
    if (len(wt) + len(bi)) % 5 == 0:
        cmd = cmd.replace("go ", "go depth 60 ", 1) if len(wt) % 2 else cmd + " depth 60"     # a depth limit does not switch the clock off
    eng.send(cmd)
    eng.send("stop")
    lines, ok = eng.read_until(lambda l: l.startswith("bestmove"), 20)
    info = [l for l in lines if l.startswith("info time ")]
    return (info[0].split()[2] if info else "none"), ok, lines


def check_C13(chk):
    status, broken = common_front(chk)
    if not (status.get("engine") and status.get("driver")):
        return finish(chk, broken, [], [], {})
    tuples = budget_tuples(chk.tier, chk.seed)
    key = "budget-%s-%d" % (chk.tier, chk.seed)
    blocks = [["# b%d" % i, "budget " + " ".join(t)] for i, t in enumerate(tuples)]
    model = cached_run("budget-model", DRIVER, blocks, key)
    nworkers = 8
    chunks = [tuples[k::nworkers] for k in range(nworkers)]

    died = []

    def work(chunk):
        eng = uci.Engine()
        res = []
        try:
            for t in chunk:
                res.append(engine_budget(eng, t))
                if eng.p.poll() is not None:
                    # the process is gone: remember how it went, carry on with a fresh one
                    died.append((t, eng.p.returncode, list(eng.err[-4:])))
                    eng.kill()
                    eng = uci.Engine()
            eng.quit()
        finally:
            eng.kill()
        return res

    with ThreadPoolExecutor(max_workers=nworkers) as ex:
        results = list(ex.map(work, chunks))
    got = {}
    for k in range(nworkers):
        for j, r in enumerate(results[k]):
            got[k + j * nworkers] = r
    stats = {"tuples": len(tuples), "budget_zero": 0, "clamped_to_clock": 0, "movetime": 0, "infinite": 0, "near_u64_edge": 0, "no_timer": 0, "process_died": len(died)}
    dis = []
    nfail = 0
    for (t, rc, err) in died[:3]:
        nfail += 1
        wt, bt, wi, bi, side, mt, inf = t
        chk.violation("the engine process ended (status %s) on go wtime %s btime %s winc %s binc %s%s, %s to move: %s" % (
            rc, wt, bt, wi, bi, (" movetime " + mt) if mt != "-" else "", side, "; ".join(err)[:300]),
            {"tuple": t, "exit_status": rc, "stderr": err, "kind": "crash of the implementation"})
    nontrivial = set()
    for i, t in enumerate(tuples):
        wt, bt, wi, bi, side, mt, inf = t
        val, ok, lines = got.get(i, ("?", False, []))
        m = (model.get("b%d" % i, ["?"]) or ["?"])[0]
        mval = m.split()[1] if m.startswith("budget ") else "?"
        if val != mval:
            dis.append({"game": "b%d" % i, "line": 0, "impl": "info time " + val, "model": m, "script": blocks[i][1:]})
        clock = int(wt) if side == "w" else int(bt)
        if not ok and nfail < 5:
            nfail += 1
            chk.violation("go with %s followed by stop produced no bestmove" % (t,), {"tuple": t, "lines": lines[-6:], "kind": "spec-oracle failure on the implementation"})
        if val == "none":
            stats["no_timer"] += 1
            stats["infinite"] += int(inf == "1")
            if inf != "1" and (mt != "-" or all(int(x) <= U64 for x in (wt, bt, wi, bi))) and nfail < 5:
                nfail += 1
                chk.violation("a go with a complete time control announced no time budget (no `info time` line, so no timer limits the search): go wtime %s btime %s winc %s binc %s%s" % (
                    wt, bt, wi, bi, (" movetime " + mt) if mt != "-" else ""), {"tuple": t, "output": lines[-4:], "kind": "spec-oracle failure on the implementation"})
            continue
        v = int(val)
        bad = None
        if mt != "-":
            stats["movetime"] += 1
            if v > int(mt):
                bad = "the thinking time %d exceeds movetime %s" % (v, mt)
        else:
            if v > clock:
                bad = "the thinking time %d ms exceeds the %d ms left on the clock of the side to move" % (v, clock)
            if v == 0:
                stats["budget_zero"] += 1
            if v + 5 >= clock > 0:
                stats["clamped_to_clock"] += 1
        if v < 0 or v > U64:
            bad = "the thinking time %d is not a u64 value" % v
        if max(int(wt), int(bt), int(wi), int(bi)) > U64 - 2 ** 10:
            stats["near_u64_edge"] += 1
            nontrivial.add(t)
        share = clock // 50
        inc = int(wi) if side == "w" else int(bi)
        if mt == "-" and abs(share + inc - 150) <= 300:
            nontrivial.add(t)
        if bad and nfail < 5:
            nfail += 1
            chk.violation(bad + " (go wtime %s btime %s winc %s binc %s, %s to move)" % (wt, bt, wi, bi, side),
                          {"tuple": t, "info_time": val, "kind": "spec-oracle failure on the implementation"})
    # promptness: with a short movetime the answer arrives soon after (generous margin; informational below it)
    lat = []
    eng = uci.Engine()
    try:
        for mt in (1, 20, 100, 300):
            eng.send("position startpos")
            t0 = time.time()
            eng.send("go movetime %d" % mt)
            lines, ok = eng.read_until(lambda l: l.startswith("bestmove"), 10)
            dt = (time.time() - t0) * 1000
            lat.append({"movetime": mt, "answered_after_ms": round(dt, 1), "ok": ok})
            if (not ok or dt > mt + 5000) and nfail < 5:
                nfail += 1
                chk.violation("go movetime %d was answered after %.0f ms (bestmove seen: %s)" % (mt, dt, ok), {"movetime": mt, "elapsed_ms": dt, "kind": "spec-oracle failure on the implementation"})
        eng.quit()
    finally:
        eng.kill()
    stats["latency"] = lat
    chk.cov["evaluations"] = len(tuples)
    chk.cov["distinct_nontrivial"] = len(nontrivial)
    chk.cov["rule"] = ("%d (wtime, btime, winc, binc, side, movetime, infinite) tuples: values at the boundaries of share+increment = 150 ms, of the 5 ms cut, of 2^53 and of u64, random values, "
                       "increments above the clock, and a sweep of clocks 0..20000 ms with increments {0,1,149,150,151}. The real binary's `info time` line is compared with the extracted "
                       "Model/Budget.v (go_timer) and with the property's bound (budget <= own clock, <= movetime, a u64). Non-trivial: tuples within 300 ms of the latency allowance or within 2^10 of u64::MAX.") % len(tuples)
    chk.cov["input_distribution"] = stats
    chk.cov["samples"] = [{"tuple": tuples[0], "engine_info_time": got.get(0, ("?",))[0], "model": model.get("b0")}]
    return finish(chk, broken, dis, blocks, {"x": ["y"] * len(tuples)})


# ---- C14 ------------------------------------------------------------------------------------------------

POS_OK = ["position startpos", "position startpos moves e2e4 e7e5", "position fen 8/8/8/4k3/8/8/8/KQ6 w - - 0 1",
          "position fen r3k2r/p1ppqpb1/bn2pnp1/3PN3/1p2P3/2N2Q1p/PPPBBPPP/R3K2R w KQkq - 0 1"]
POS_BAD = ["position fen 8/8/8/8/8/8/54/4K2k w - -", "position fen rubbish", "position startpos moves e2e5"]


def session_script(rng, n):
    """list of (command text, model token, delay before sending in ms)"""
    out = []
    for _ in range(n):
        r = rng.below(100)
        d = rng.choice([0, 0, 0, 1, 3, 10, 30, 60])
        if rng.chance(1, 12):
            # a depth-limited search of a position that was searched deeper before (same table): must still answer
            pos = rng.choice(POS_OK)
            hi = 3 + rng.below(3)
            lo = 1 + rng.below(hi - 1)
            out += [("stop", "stop", d), (pos, "pos1", 0), ("go depth %d" % hi, "go0", 0), ("wait", "wait", 0),
                    (pos, "pos1", 0), ("go depth %d" % lo, "go0", 0), ("wait", "wait", 0), ("isready", "isready", 0)]
            continue
        if r < 22:
            out.append((rng.choice(POS_OK), "pos1", d))
        elif r < 27:
            c = rng.choice(POS_BAD)
            # `startpos moves <illegal>` keeps the start position as the game; a bad FEN drops the game
            out.append((c, "pos1" if c.startswith("position startpos") else "pos0", d))
        elif r < 50:
            g = rng.choice(["go depth 1", "go depth 2", "go depth 3", "go movetime 1", "go movetime 20", "go movetime 60",
                            "go wtime 1000 btime 1000 winc 0 binc 0", "go wtime 30000 btime 30000 winc 100 binc 100", "go infinite", "go"])
            timed = ("movetime" in g or "wtime" in g)
            out.append((g, "go1" if timed else "go0", d))
        elif r < 64:
            out.append(("stop", "stop", d))
        elif r < 72:
            out.append(("wait", "wait", d))
        elif r < 84:
            out.append(("isready", "isready", d))
        elif r < 90:
            out.append(("ucinewgame", "newgame", d))
        elif r < 95:
            out.append(("show", "show", d))
        else:
            out.append(("uci", "uci", d))
    return out


def classify(line):
    if line.startswith("bestmove"):
        return "bestmove"
    if line == "readyok":
        return "readyok"
    if line.startswith("error: search is still running"):
        return "busy"
    if line.startswith("error: No game"):
        return "nogame"
    if line.startswith("info time"):
        return "infotime"
    if line.startswith("   a b c d e f g h"):
        return "shown"
    if line == "uciok":
        return "uciok"
    return None


def run_session(script, env, bound_infinite=True):
    """returns dict with tokens (observation order), verdict facts"""
    eng = uci.Engine(env=env)
    tokens = []
    facts = {"sent": [], "timeout": False}
    seen = 0

    def absorb(lines):
        nonlocal seen
        for l in lines:
            c = classify(l)
            if c:
                tokens.append("O:" + c)
                seen += 1
    try:
        for text, tok, delay in script:
            if delay:
                absorb(eng.drain(delay / 1000.0))
            else:
                absorb(eng.drain(0.0))
            # `wait` on a search that never ends by itself would block the session for good: that is the
            # command's meaning, not a defect; the script generator therefore sends `stop` first in that case
            tokens.append("I:" + tok)
            facts["sent"].append(text)
            eng.send(text)
        # let everything finish: stop whatever still runs, then ask for readyok and quit - unless the script itself ends in
        # `quit` (sent while a search may still be running: the process has to leave all the same)
        absorb(eng.drain(0.05))
        if script and script[-1][1] == "quit":
            facts["final_ready"] = True
            facts["quit_while_running"] = True
            rc = eng.wait_exit(10)
        else:
            tokens.append("I:stop")
            eng.send("stop")
            tokens.append("I:isready")
            eng.send("isready")
            lines, ok = eng.read_until(lambda l: l == "readyok", 30)
            absorb(lines)
            facts["final_ready"] = ok
            tokens.append("I:quit")
            rc = eng.quit(10)
        facts["exit_code"] = rc
        absorb(eng.drain(0.05))
    finally:
        eng.kill()
    facts["stderr"] = [l for l in eng.err if "panick" in l or "poison" in l.lower() or "RUST_BACKTRACE" in l][:5]
    facts["events"] = [l for l in eng.err if l.startswith("verif-event")]
    facts["log"] = eng.log[-60:]
    return tokens, facts


def sanitize(script):
    """never send `wait` while an infinite (or unlimited `go`) search may be running: prepend a stop"""
    out = []
    endless = False
    for text, tok, d in script:
        if tok in ("go0", "go1") and (text in ("go infinite", "go")):
            endless = True        # stays so until a stop is sent: later go commands may be refused as busy
        if tok == "wait" and endless:
            out.append(("stop", "stop", d))
            endless = False
        if tok in ("stop",):
            endless = False
        out.append((text, tok, d))
    return out


def check_C14(chk):
    status, broken = common_front(chk)
    if not status.get("engine"):
        return finish(chk, broken, [], [], {})
    rng = Rng(chk.seed * 37 + 23)
    nsess = 60 if chk.tier == "quick" else 600
    envs = [
        {},
        {"VERIF_SLEEP_BEFORE_FLAG_RAISE": "30"},
        {"VERIF_SLEEP_SEARCH_THREAD_START": "40"},
        {"VERIF_SLEEP_AFTER_BESTMOVE": "40"},
        {"VERIF_SLEEP_TIMER_WAKEUP": "25"},
        {"VERIF_SLEEP_BEFORE_FLAG_RAISE": "15", "VERIF_SLEEP_SEARCH_THREAD_START": "25", "VERIF_SLEEP_AFTER_BESTMOVE": "15"},
    ]
    sessions = []
    for i in range(nsess):
        sc = sanitize(session_script(rng, 6 + rng.below(14)))
        env = dict(envs[i % len(envs)])
        env["VERIF_EVENTS"] = "1"
        sessions.append((sc, env))
    # the three historical schedules, replayed with the schedule points stretched
    # a timed go that ends long before its timer, then an unlimited search that must stay silent until `stop`
    KIWI = "position fen r3k2r/p1ppqpb1/bn2pnp1/3PN3/1p2P3/2N2Q1p/PPPBBPPP/R3K2R w KQkq - 0 1"
    for first in ("go depth 1 movetime 500", "go movetime 500"):
        sc = [(KIWI, "pos1", 0), (first, "go1", 0)]
        if "depth" not in first:
            sc.append(("stop", "stop", 60))
        sc += [("wait", "wait", 0), (KIWI, "pos1", 0), ("go infinite", "go0", 0), ("isready", "isready", 900), ("stop", "stop", 0)]
        sessions.append((sc, {"VERIF_EVENTS": "1"}))
    sessions.append(([("position startpos", "pos1", 0), ("go movetime 1", "go1", 0), ("isready", "isready", 300)], {"VERIF_SLEEP_BEFORE_FLAG_RAISE": "120", "VERIF_EVENTS": "1"}))
    sessions.append(([("position startpos", "pos1", 0), ("go depth 2", "go0", 0), ("position startpos", "pos1", 150), ("go depth 1", "go0", 0)], {"VERIF_SLEEP_AFTER_BESTMOVE": "600", "VERIF_EVENTS": "1"}))
    sessions.append(([("position startpos", "pos1", 0), ("go movetime 1", "go1", 0), ("ucinewgame", "newgame", 60), ("isready", "isready", 0)], {"VERIF_SLEEP_SEARCH_THREAD_START": "300", "VERIF_EVENTS": "1"}))

    # quit (and end of input) while a search that has no end of its own is running: the process must leave
    for go in ("go infinite", "go depth 200"):
        sessions.append(([(KIWI, "pos1", 0), (go, "go0", 0), ("isready", "isready", 150), ("quit", "quit", 100)], {"VERIF_EVENTS": "1"}))

    def work(item):
        sc, env = item
        try:
            return run_session(sc, env)
        except Exception as e:      # noqa
            return ["I:error"], {"exception": repr(e), "sent": [], "stderr": [], "events": [], "log": []}

    with ThreadPoolExecutor(max_workers=8) as ex:
        results = list(ex.map(work, sessions))
    stats = {"sessions": len(sessions), "commands": 0, "go_accepted": 0, "bestmoves": 0, "busy_errors": 0, "nogame_errors": 0,
             "hook_events": 0, "trace_states": 0}
    nfail = 0
    blocks = []
    for i, ((sc, env), (tokens, facts)) in enumerate(zip(sessions, results)):
        stats["commands"] += len(facts.get("sent", []))
        stats["hook_events"] += len(facts.get("events", []))
        nb = tokens.count("O:bestmove")
        stats["bestmoves"] += nb
        stats["busy_errors"] += tokens.count("O:busy")
        stats["nogame_errors"] += tokens.count("O:nogame")
        # accepted go = a go command that was answered neither by "busy" nor by "no game": count through search thread starts
        started = sum(1 for e in facts.get("events", []) if e.endswith("search_thread_start"))
        stats["go_accepted"] += started
        bad = None
        if facts.get("exception"):
            bad = "the session could not be run: %s" % facts["exception"]
        elif facts.get("stderr"):
            bad = "a thread panicked: %s" % facts["stderr"][0]
        elif not facts.get("final_ready"):
            bad = "the engine did not answer isready at the end of the session (wedged or dead)"
        elif facts.get("exit_code") != 0:
            bad = "the engine did not exit cleanly on quit (exit code %s)" % facts.get("exit_code")
        elif nb != started and not facts.get("quit_while_running"):
            bad = "%d searches were started but %d bestmove lines were printed" % (started, nb)
        elif tokens.count("I:isready") != tokens.count("O:readyok"):
            bad = "%d isready commands but %d readyok answers" % (tokens.count("I:isready"), tokens.count("O:readyok"))
        else:
            # an unlimited search of a rich middlegame position never ends by itself: its bestmove must come after a stop.
            # Inputs are pipelined, so answers are matched by count: before the stop that follows the n-th go (an unlimited
            # one) at most n-1 bestmoves may have been printed. Only sessions without refused commands are judged.
            cmds = [c for c, _, _ in sc]
            ti = [k for k, t in enumerate(tokens) if t.startswith("I:")]
            if "O:busy" not in tokens and "O:nogame" not in tokens:
                for n_cmd, c in enumerate(cmds):
                    if c == "go infinite" and n_cmd > 0 and "r3k2r/p1ppqpb1" in cmds[n_cmd - 1] and n_cmd < len(ti):
                        gos_before = sum(1 for x in cmds[:n_cmd] if x.startswith("go"))
                        k0 = ti[n_cmd]
                        nxt_stop = next((k for k in range(k0 + 1, len(tokens)) if tokens[k] in ("I:stop", "I:newgame", "I:quit")), len(tokens))
                        if tokens[:nxt_stop].count("O:bestmove") > gos_before:
                            bad = "go infinite on a middlegame position was answered with bestmove before any stop was sent (something else cleared its running flag)"
        if bad and nfail < 5:
            nfail += 1
            chk.violation(bad, {"commands": [c for c, _, _ in sc], "env": {k: v for k, v in env.items() if k.startswith("VERIF")},
                                "tokens": tokens, "log": [list(x) for x in facts.get("log", [])][-40:], "kind": "spec-oracle failure on the implementation"})
        blocks.append(["# s%d" % i, "trace " + " ".join(tokens)])
    # trace inclusion in the proved thread model
    dis = []
    if status.get("scheddriver"):
        res = run_blocks(SCHEDDRIVER, blocks)
        for i, blk in enumerate(blocks):
            r = (res.get("s%d" % i, ["?"]) or ["?"])[0]
            m = re.search(r"states=(\d+)", r)
            if m:
                stats["trace_states"] += int(m.group(1))
            if not r.startswith("trace ok"):
                dis.append({"game": "s%d" % i, "line": 0, "impl": blk[1][:400], "model": r, "script": [c for c, _, _ in sessions[i][0]]})
    else:
        broken.append("build stage 'scheddriver' failed")
    chk.cov["evaluations"] = stats["commands"]
    chk.cov["distinct_nontrivial"] = sum(1 for (t, f) in results if t.count("O:bestmove") >= 1 and (t.count("O:busy") + t.count("O:nogame") >= 1 or t.count("O:bestmove") >= 2))
    chk.cov["rule"] = ("%d sessions of 6-20 random commands over {uci, isready, ucinewgame, position (valid, invalid FEN, illegal move), go depth/movetime/clock/infinite, stop, wait, show} "
                       "with random delays of 0-60 ms, run on the real binary with the named schedule points (before_flag_raise, search_thread_start, after_bestmove, timer_wakeup) stretched by "
                       "15-40 ms in rotation, plus the three historical race schedules with the windows stretched to 120-600 ms. Oracle: no panic, every started search prints exactly one "
                       "bestmove, every isready is answered, the session still answers at the end and exits with code 0 on quit. Every observed session (inputs, outputs, and how many outputs "
                       "had been seen when each input was sent) must also be a trace of the proved thread model (breadth-first search over its schedules). "
                       "Non-trivial: sessions with a bestmove and a refused command, or with two or more bestmoves.") % len(sessions)
    chk.cov["input_distribution"] = stats
    chk.cov["samples"] = [{"commands": [c for c, _, _ in sessions[0][0]], "observed": results[0][0]}]
    return finish(chk, broken, dis, blocks, {"x": ["y"] * stats["commands"]})


# ---- C15 ------------------------------------------------------------------------------------------------

DENSE = [
    "R6R/3Q4/1Q4Q1/4Q3/2Q4Q/Q4Q2/pp1Q4/kBNN1KB1 w - - 0 1",
    "3Q4/1Q4Q1/4Q3/2Q4R/Q4Q2/3Q4/1Q4Rp/1K1BBNNk w - - 0 1",
    "1QQQ1QQk/Q6Q/2Q4Q/1Q2Q2Q/1Q5Q/Q6Q/Q4QQ1/KQQQ3Q w - - 0 1",
    "QQQQQQQk/QQQQQQQ1/QQQQQQQQ/QQQQQQQQ/QQQQQQQQ/QQQQQQQQ/QQQQQQQQ/KQQQQQQQ w - - 0 1",
    "qqqqqqqK/qqqqqqq1/qqqqqqqq/qqqqqqqq/qqqqqqqq/qqqqqqqq/qqqqqqqq/kqqqqqqq b - - 0 1",
    "rnbqkbnr/pppppppp/PPPPPPPP/8/8/pppppppp/PPPPPPPP/RNBQKBNR w KQkq - 0 1",
    "k7/PPPPPPPP/8/8/8/8/pppppppp/K7 w - - 0 1",
    "NNNNNNNk/NNNNNNN1/NNNNNNNN/NNNNNNNN/NNNNNNNN/NNNNNNNN/NNNNNNNN/KNNNNNNN w - - 0 1",
    "Q1Q1Q1Qk/1Q1Q1Q2/Q1Q1Q1Q1/1Q1Q1Q1Q/Q1Q1Q1Q1/1Q1Q1Q1Q/Q1Q1Q1Q1/KQ1Q1Q1Q w - - 0 1",
    # pawns on the first and last ranks (the reader accepts them): no square in front of them
    "P2qk3/8/8/8/8/8/8/3QK3 w - - 0 1",
    "1P2k3/8/8/8/8/8/8/R3K2R w KQ - 0 1",
    "PPPPPPP1/8/8/8/8/7k/8/7K w - - 0 1",
    "4k3/8/8/8/8/8/8/p2pK2p b - - 0 1",
    "4k2P/8/8/8/8/8/8/p3K3 b - - 0 1",
    "pppp4/4k3/8/8/8/8/4K3/PPPP4 w - - 0 1",
]


def check_C15(chk):
    status, broken = common_front(chk)
    if not status.get("harness_checked"):
        broken.append("the checked build of the harness is not available")
        return finish(chk, broken, [], [], {})
    rng = Rng(chk.seed * 41 + 29)
    key = "bounds-%s-%d" % (chk.tier, chk.seed)
    blocks = []
    # (a) random play from the corpus with generation, push/pop of every unchecked move and shallow searches
    n = 48 if chk.tier == "quick" else 600
    for i in range(n):
        root = ROOTS[i % len(ROOTS)]
        lines = ["# a%d" % i, "cleartable", "new " + root, "gend", "pp"]
        for _ in range(10 + rng.below(60)):
            lines += ["pick %d" % rng.below(1 << 40), "gend"]
            if rng.chance(1, 5):
                lines.append("pp")
            if rng.chance(1, 12):
                lines.append("search %d -1 0" % (1 + rng.below(3)))
        blocks.append(lines)
    # (b) dense / absurd-material positions the FEN reader accepts: generation, push/pop, search
    for i, f in enumerate(DENSE):
        # (no search where 16+16 pawns make the capture/promotion search explode: it cannot be interrupted)
        blocks.append(["# d%d" % i, "cleartable", "new " + f, "obs", "gend", "pp"] + ([] if f.count("P") >= 8 and f.count("p") >= 8 else ["search 1 -1 0"]))
    # (c) the longest game the interface accepts (the guard is 400 states) followed by deep searches in a fortress
    shuffle = ["e1d1", "e8d8", "d1e1", "d8e8"]
    long_lines = ["# long", "cleartable", "new 4k3/8/p1p1p1p1/PpPpPpPp/1P1P1P1P/8/8/4K3 w - - 0 1"]
    guard = 400
    try:
        m = re.search(r"GAME_LENGTH_GUARD : Z := (\d+)", open(os.path.join(lib.ROOT, "coq", "Gen", "Consts.v")).read())
        guard = int(m.group(1))
    except Exception:
        pass
    nlong = max(10, min(guard, 1100) - 2)          # the longest game the interface accepts has guard-1 states
    for k in range(nlong):
        long_lines.append("hist " + shuffle[k % 4])
    long_lines += ["obs", "search 0 %d 0" % (150000 if chk.tier == "quick" else 3000000)]
    blocks.append(long_lines)
    long2 = ["# long2", "cleartable", "new 7k/8/8/8/8/8/8/K7 w - - 0 1"]
    sh2 = ["a1b1", "h8g8", "b1a1", "g8h8"]
    for k in range(nlong):
        long2.append("hist " + sh2[k % 4])
    long2 += ["obs", "search 0 %d 0" % (150000 if chk.tier == "quick" else 3000000)]
    blocks.append(long2)
    dense_ids = set("d%d" % i for i in range(len(DENSE)))
    normal = [b for b in blocks if b[0][2:] not in dense_ids]
    dense = [b for b in blocks if b[0][2:] in dense_ids]
    impl = cached_run("bounds-checked", HARNESS_CHECKED, normal, key, timeout=2400)
    # absurd material: the i16 score wraps (C16 known finding), so arithmetic checks are off there, index checks on
    impl.update(cached_run("bounds-bounds", HARNESS_BOUNDS, dense, key, timeout=600))
    implr = cached_run("bounds-release", HARNESS, blocks, key, timeout=2400)
    model = cached_run("bounds-model", DRIVER, blocks, key, timeout=3000) if status.get("driver") else {}
    dis = diff_runs(blocks, implr, model) if status.get("driver") else []
    stats = {"scripts": len(blocks), "lines": 0, "generated_lists": 0, "max_unchecked": 0, "max_len": 0, "deepest_after_long_game": 0, "truncated_lists": 0}
    nfail = 0
    nontrivial = set()
    for blk in blocks:
        gid = blk[0][2:]
        out = impl.get(gid, [])
        stats["lines"] += len(out)
        if out != implr.get(gid, []) and nfail < 5:
            nfail += 1
            a, b = out, implr.get(gid, [])
            k = next((j for j in range(min(len(a), len(b))) if a[j] != b[j]), min(len(a), len(b)))
            chk.violation("the checked build (bounds and overflow checks on) and the release build disagree: '%s' vs '%s'" % (
                a[k][:160] if k < len(a) else "<end>", b[k][:160] if k < len(b) else "<end>"),
                {"script": blk[1:][: k + 3], "checked": a[k] if k < len(a) else None, "release": b[k] if k < len(b) else None,
                 "kind": "an unchecked access went out of range (checked build panics or differs)"})
        for ln in out:
            if ln.endswith(" panic") or ln.startswith("!!"):
                if nfail < 5:
                    nfail += 1
                    chk.violation("the checked build panicked: %s" % ln, {"script": blk[1:], "line": ln, "kind": "an unchecked access or arithmetic went out of range"})
            elif ln.startswith("gend "):
                kv = parse_kv(ln)[1]
                u = len([x for x in kv.get("unchecked", "").split(",") if x])
                stats["generated_lists"] += 1
                stats["max_unchecked"] = max(stats["max_unchecked"], u)
                if u >= 100:
                    nontrivial.add((gid, u))
                if u >= 256:
                    stats["truncated_lists"] += 1
            elif ln.startswith("obs "):
                stats["max_len"] = max(stats["max_len"], int(parse_kv(ln)[1].get("len", "0")))
            elif ln.startswith("info depth ") and gid.startswith("long"):
                stats["deepest_after_long_game"] = max(stats["deepest_after_long_game"], int(ln.split()[2]))
        if gid.startswith("long") or gid.startswith("d"):
            nontrivial.add((gid, "x"))
    chk.cov["evaluations"] = stats["lines"]
    chk.cov["distinct_nontrivial"] = len(nontrivial)
    chk.cov["rule"] = ("the CHECKED build of the harness (debug assertions and overflow checks on: get_unchecked, new_unsafe, push_unchecked and arithmetic panic when out of range) runs "
                       "%d random games from the corpus with move generation, play/take-back of every unchecked move and shallow searches; nine dense positions the FEN reader accepts "
                       "(up to 63 queens, 62 knights, 16+16 pawns); and two games of 399 states (the interface's limit) followed by an unlimited search stopped after %d polls. "
                       "Oracle: no panic, and output identical to the release build and to the extracted model. Non-trivial: lists of at least 100 moves, dense positions, long games.") % (
                           n, 150000 if chk.tier == "quick" else 3000000)
    chk.cov["input_distribution"] = stats
    chk.cov["samples"] = [{"script": blocks[n][:8], "checked_build": impl.get(blocks[n][0][2:], [])[:3]}]
    return finish(chk, broken, dis, blocks, implr)


# ---- C17 ------------------------------------------------------------------------------------------------

def mutate(fen, rng):
    """one structured edit of a FEN text; returns (text, kind)"""
    fields = fen.split(" ")
    while len(fields) < 4:
        fields.append("-")
    kind = rng.below(16)
    chars = ["0", "9", "/", "K", "k", "x", "A", "ü", " ", "8", "1", "p", "-", "q", "w", "3", "6", "š", "I",
             "\uff18", "\u0663", "\u3038", "\u0f33", "\ua835", "\u00b2", "\u00bd", "\u2167", "\U0001d7d6"]

    def edit(s):
        if not s:
            return rng.choice(chars)
        i = rng.below(len(s) + 1)
        op = rng.below(3)
        if op == 0:
            return s[:i] + rng.choice(chars) + s[i:]
        if op == 1 and len(s) > 0:
            i = min(i, len(s) - 1)
            return s[:i] + s[i + 1:]
        i = min(i, len(s) - 1)
        return s[:i] + rng.choice(chars) + s[i + 1:]
    if kind <= 4:
        fields[0] = edit(fields[0])
        return " ".join(fields), "placement"
    if kind == 5:
        rows = fields[0].split("/")
        r = rng.below(len(rows))          # (a second edit may meet a text that has lost a rank already)
        rows[r] = rng.choice(["7", "9", "54", "44", "8p", "p8", "ppppppppp", "", "71", "17", "0", "08", "4k4",
                              "\uff18", "\u3038", "\u0f33p4", "\uff17p", "p\u0668", "\u00b2pppppp", "3\ua835"])
        fields[0] = "/".join(rows)
        return " ".join(fields), "rank length"
    if kind == 6:
        rows = fields[0].split("/")
        if rng.chance(1, 2):
            rows = rows[:7]
        else:
            rows = rows + ["8"]
        fields[0] = "/".join(rows)
        return " ".join(fields), "rank count"
    if kind == 7:
        fields[1] = rng.choice(["wb", "W", "B", "", "x", "ww", "-", "b"])
        return " ".join(fields), "side"
    if kind == 8:
        fields[2] = rng.choice(["KK", "Kk-", "-K", "KQkqK", "kqKQ", "x", "", "QK", "--", "k", "Kq"])
        return " ".join(fields), "castling"
    if kind in (9, 10):
        fields[3] = rng.choice(["q3", "a9", "i6", "A6", "a", "6", "š" + "6", "e3", "e6", "a3", "h6", "e4", "e", "--", "e66", "-"])
        return " ".join(fields), "en passant"
    if kind == 11:
        cut = rng.below(len(fields)) + 1
        return " ".join(fields[:cut]), "truncated"
    if kind == 12:
        if len(fields) >= 5:
            fields[4] = rng.choice(["x", "-1", "1.5", "99", "", "0x", "256", "300", "4000", "65536", "+3", "+0", "100"])
            if len(fields) >= 6 and rng.chance(1, 2):
                fields[5] = rng.choice(["256", "999", "5949", "70000", "+30", "1", "x", "-2"])
        return " ".join(fields), "counter"
    if kind == 13:
        return " ".join(fields + [rng.choice(["7", "x", "moves"])]), "extra field"
    if kind == 14:
        return fen.replace(" ", rng.choice(["  ", "\t", " \t "])), "white space"
    return " ".join(fields[:4]), "four fields"


def check_C17(chk):
    status, broken = common_front(chk)
    if not status.get("harness_release"):
        return finish(chk, broken, [], [], {})
    rng = Rng(chk.seed * 43 + 31)
    key = "fen-%s-%d" % (chk.tier, chk.seed)
    # sane positions: corpus roots and positions reached by random play (their exported FEN)
    pre = []
    npos = 30 if chk.tier == "quick" else 400
    for i in range(npos):
        root = ROOTS[rng.below(len(ROOTS))]
        lines = ["# p%d" % i, "new " + root]
        for _ in range(rng.below(50)):
            lines.append("pick %d" % rng.below(1 << 40))
        lines.append("obs")
        pre.append(lines)
    got = cached_run("fen-pre", HARNESS, pre, key)
    fens = list(ROOTS)
    for i in range(npos):
        for ln in got.get("p%d" % i, []):
            if ln.startswith("obs "):
                fens.append(fen_of_obs(parse_kv(ln)[1]))
    texts = []
    for f in fens:
        texts.append((f, "well-formed (six fields)"))
        parts = f.split(" ")
        texts.append((" ".join(parts[:4]), "well-formed (four fields)"))
        texts.append((" ".join(parts[:5]), "well-formed (five fields)"))
        for _ in range(12 if chk.tier == "quick" else 30):
            t, kind = mutate(f, rng)
            texts.append((t, kind))
            if rng.chance(1, 4):
                t2, k2 = mutate(t, rng)
                texts.append((t2, kind + "+" + k2))
    texts = [(t, k) for (t, k) in texts if "\n" not in t and "#" not in t[:2]]
    nb = 64
    blocks = []
    for b in range(nb):
        lines = ["# f%d" % b]
        for (t, k) in texts[b::nb]:
            lines += ["new " + t, "obs", "gen"]
        blocks.append(lines)
    sblocks = []
    for b in range(nb):
        lines = ["# f%d" % b]
        for (t, k) in texts[b::nb]:
            lines.append("specparse " + t)
        sblocks.append(lines)
    impl = cached_run("fen-impl", HARNESS, blocks, key)
    implc = cached_run("fen-implc", HARNESS_CHECKED, blocks, key) if status.get("harness_checked") else impl
    model = cached_run("fen-model", DRIVER, blocks, key, timeout=2400) if status.get("driver") else {}
    spec = cached_run("fen-spec", SPECDRIVER, sblocks, key)
    dis = diff_runs(blocks, impl, model) if status.get("driver") else []
    stats = {"texts": len(texts), "accepted": 0, "rejected": 0, "kinds": {}, "outcomes": {}}
    nfail = 0
    nontrivial = set()
    legal_need = []
    for b in range(nb):
        its = texts[b::nb]
        a = impl.get("f%d" % b, [])
        c = implc.get("f%d" % b, [])
        s = spec.get("f%d" % b, [])
        for j, (t, k) in enumerate(its):
            new = a[3 * j] if 3 * j < len(a) else "?"
            obs = a[3 * j + 1] if 3 * j + 1 < len(a) else "?"
            gen = a[3 * j + 2] if 3 * j + 2 < len(a) else "?"
            newc = c[3 * j] if 3 * j < len(c) else "?"
            sp = s[j] if j < len(s) else "?"
            stats["kinds"][k.split("+")[0]] = stats["kinds"].get(k.split("+")[0], 0) + 1
            outcome = new.split(" ")[-1]
            stats["outcomes"][outcome] = stats["outcomes"].get(outcome, 0) + 1
            bad = None
            if outcome == "panic" or newc.endswith("panic"):
                bad = "the FEN reader crashed on '%s'" % t
            elif sp.startswith("specparse ok"):
                kv = parse_kv(sp)[1]
                if outcome != "ok":
                    bad = "the well-formed FEN '%s' was refused" % t
                else:
                    stats["accepted"] += 1
                    o = parse_kv(obs)[1]
                    f14 = " ".join(fen_of_obs(o).split()[:4])
                    if f14 != kv.get("render", "").replace("_", " "):
                        bad = "the FEN '%s' was imported as a different position: '%s'" % (t, f14)
                    elif o.get("hash") != kv.get("H"):
                        bad = "the FEN '%s' was imported with hash %s instead of %s" % (t, o.get("hash"), kv.get("H"))
                    elif kv.get("sane") == "1":
                        legal_need.append((t, fen_of_obs(o), gen))
                    if k.startswith("well-formed") or "+" in k:
                        nontrivial.add(t)
            elif sp.startswith("specparse none"):
                stats["rejected"] += 1
                if outcome == "ok":
                    bad = "the malformed text '%s' (%s) was accepted and imported as '%s'" % (t, k, fen_of_obs(parse_kv(obs)[1]) if obs.startswith("obs ") else "?")
                nontrivial.add(t)
            if bad and nfail < 5:
                nfail += 1
                chk.violation(bad, {"text": t, "mutation": k, "harness": [new, obs[:200]], "spec": sp[:200], "kind": "spec-oracle failure on the implementation"})
    # accepted sane positions must have exactly the legal moves of the described position
    sp2 = spec_positions([f for (_, f, _) in legal_need], key)
    for (t, f, gen) in legal_need:
        legal = legal_of(sp2, f)
        if legal is None:
            continue
        kv = parse_kv(gen)[1]
        got_moves = sorted(x for x in kv.get("checked", "").split(",") if x)
        if got_moves != sorted(legal) and nfail < 5:
            nfail += 1
            chk.violation("the position imported from '%s' offers the moves %s but the described position has %s" % (t, got_moves, sorted(legal)),
                          {"text": t, "kind": "spec-oracle failure on the implementation"})
    # through the real binary: no crash of the process on a sample of malformed texts
    ustat = {"texts": 0}
    if status.get("engine"):
        eng = uci.Engine()
        try:
            sample = [t for (t, k) in texts if not k.startswith("well-formed")][: (150 if chk.tier == "quick" else 2000)]
            for t in sample:
                eng.send("position fen " + t)
                ustat["texts"] += 1
            lines, ok = eng.isready(20)
            if not ok and nfail < 5:
                nfail += 1
                chk.violation("the engine died or wedged while reading malformed FEN texts through `position fen`", {"last_output": lines[-5:], "stderr": eng.err[-5:], "kind": "crash of the implementation"})
            rc = eng.quit()
        finally:
            eng.kill()
    stats["uci"] = ustat
    chk.cov["evaluations"] = len(texts)
    chk.cov["distinct_nontrivial"] = len(nontrivial)
    chk.cov["rule"] = ("for %d sane positions (corpus and random play) the exported FEN in its six-, five- and four-field shapes, and structured mutations per field (insert / delete / replace with "
                       "0 9 / K k x A u-umlaut space ..., over- and under-long ranks, 7 or 9 ranks, side, castling and en-passant fields, truncation, counters, extra field, white space), read by "
                       "Game::new in the release and the checked build and by the extracted model; expected class from FenSpec.parse. Oracle: never a panic; accepted iff well-formed; "
                       "accepted texts give the described position (fields 1-4, hash) and, for sane ones, exactly its legal moves. A sample of malformed texts also goes through the binary. "
                       "Non-trivial: malformed texts and doubly mutated accepted ones.") % len(fens)
    chk.cov["input_distribution"] = stats
    chk.cov["samples"] = [{"text": texts[3][0], "mutation": texts[3][1]}, {"text": texts[4][0], "mutation": texts[4][1]}]
    return finish(chk, broken, dis, blocks, impl)


CHECKS = {"C12": check_C12, "C13": check_C13, "C14": check_C14, "C15": check_C15, "C17": check_C17}
