"""Driving the real engine binary (built from /repo with the hook cfg) over stdin/stdout."""
import os
import queue
import subprocess
import threading
import time

from lib import ENGINE


class Engine:
    def __init__(self, env=None, exe=None, preexec=None, extra_env=None):
        e = dict(os.environ)
        if env:
            e.update(env)
        if extra_env:
            e.update(extra_env)
        self.p = subprocess.Popen([exe or ENGINE], stdin=subprocess.PIPE, stdout=subprocess.PIPE,
                                  stderr=subprocess.PIPE, env=e, bufsize=0, preexec_fn=preexec)
        self.q = queue.Queue()
        self.err = []
        self.log = []          # (time, direction, text)
        self.t0 = time.time()
        self._to = threading.Thread(target=self._pump, args=(self.p.stdout, True), daemon=True)
        self._te = threading.Thread(target=self._pump, args=(self.p.stderr, False), daemon=True)
        self._to.start()
        self._te.start()

    def _pump(self, stream, is_out):
        buf = b""
        while True:
            chunk = stream.read(4096)
            if not chunk:
                break
            buf += chunk
            while b"\n" in buf:
                line, buf = buf.split(b"\n", 1)
                text = line.decode("utf-8", "replace")
                if is_out:
                    self.log.append((time.time() - self.t0, "<", text))
                    self.q.put(text)
                else:
                    self.err.append(text)
                    self.log.append((time.time() - self.t0, "!", text))
        if is_out:
            self.q.put(None)

    def send(self, line):
        self.log.append((time.time() - self.t0, ">", line))
        try:
            self.p.stdin.write((line + "\n").encode())
            self.p.stdin.flush()
            return True
        except (BrokenPipeError, OSError):
            return False

    def read_until(self, pred, timeout=10.0):
        """collect stdout lines until pred(line) is true; returns (lines, matched: bool)"""
        out = []
        end = time.time() + timeout
        while True:
            left = end - time.time()
            if left <= 0:
                return out, False
            try:
                ln = self.q.get(timeout=left)
            except queue.Empty:
                return out, False
            if ln is None:
                self.q.put(None)          # end of output stays visible to later reads (the process is gone)
                return out, False
            out.append(ln)
            if pred(ln):
                return out, True

    def drain(self, wait=0.05):
        out = []
        end = time.time() + wait
        while True:
            left = end - time.time()
            try:
                ln = self.q.get(timeout=max(0.0, left))
            except queue.Empty:
                return out
            if ln is None:
                return out
            out.append(ln)

    def isready(self, timeout=5.0):
        self.send("isready")
        lines, ok = self.read_until(lambda l: l == "readyok", timeout)
        return lines, ok

    def quit(self, timeout=5.0):
        self.send("quit")
        try:
            rc = self.p.wait(timeout=timeout)
        except subprocess.TimeoutExpired:
            self.p.kill()
            rc = None
        return rc

    def wait_exit(self, timeout=5.0):
        """the process was told to quit already: its exit status, or None (and it is killed) if it does not leave in time"""
        try:
            rc = self.p.wait(timeout=timeout)
        except subprocess.TimeoutExpired:
            self.p.kill()
            rc = None
        return rc

    def kill(self):
        try:
            self.p.kill()
        except Exception:
            pass

    def alive(self):
        return self.p.poll() is None


def go_transcript(fen_cmd, go_cmd, env=None, timeout=60.0, prefix=(), preexec=None):
    """fresh engine: optional prefix lines, position, go; returns the stdout lines up to bestmove"""
    e = Engine(env=env, preexec=preexec)
    try:
        for ln in prefix:
            if ln.startswith("@sleep "):
                time.sleep(int(ln.split()[1]) / 1000.0)
                continue
            e.send(ln)
        # the stdin thread works through the prefix in order (it blocks in `wait` and in joins), so the answer to this
        # isready comes after everything the prefix printed
        want = sum(1 for ln in prefix if ln.strip() == "isready") + 1
        seen = [0]

        def last_ready(l):
            if l == "readyok":
                seen[0] += 1
            return seen[0] >= want
        e.send("isready")
        e.read_until(last_ready, timeout)
        e.send(fen_cmd)
        e.send(go_cmd)
        lines, ok = e.read_until(lambda l: l.startswith("bestmove"), timeout)
        rc = e.quit()
        return lines, ok, rc
    finally:
        e.kill()
