"""The shared position-level correspondence run (random legal playouts from a corpus of roots):
implementation (Rust harness) vs extracted model vs extracted specifications.
Used by C01-C05, C11, C16, C20."""
import os
import re

from lib import (HARNESS, DRIVER, SPECDRIVER, Rng, cached_run, split_games)

START = "rnbqkbnr/pppppppp/8/8/8/8/PPPPPPPP/RNBQKBNR w KQkq - 0 1"

ROOTS = [
    START,
    "r3k2r/p1ppqpb1/bn2pnp1/3PN3/1p2P3/2N2Q1p/PPPBBPPP/R3K2R w KQkq - 0 1",
    "8/2p5/3p4/KP5r/1R3p1k/8/4P1P1/8 w - - 0 1",
    "r3k2r/Pppp1ppp/1b3nbN/nP6/BBP1P3/q4N2/Pp1P2PP/R2Q1RK1 w kq - 0 1",
    "rnbq1k1r/pp1Pbppp/2p5/8/2B5/8/PPP1NnPP/RNBQK2R w KQ - 1 8",
    "r4rk1/1pp1qppp/p1np1n2/2b1p1B1/2B1P1b1/P1NP1N2/1PP1QPPP/R4RK1 w - - 0 10",
    # castling with every relevant square attacked or not
    "r3k2r/8/8/8/8/8/8/R3K2R w KQkq - 0 1",
    "r3k2r/8/8/8/8/8/8/R3K2R b KQkq - 0 1",
    "r3k2r/8/8/8/2b5/8/8/R3K2R w KQkq - 0 1",
    "1r2k2r/8/8/8/8/8/8/R3K2R w KQk - 0 1",
    "3rk2r/8/8/8/8/8/8/R3K2R w KQk - 0 1",
    "2r1k2r/8/8/8/8/8/8/R3K2R w KQk - 0 1",
    "r3k1r1/8/8/8/8/8/8/R3K2R w KQq - 0 1",
    "r3k2r/8/8/8/8/8/6p1/R3K2R w KQkq - 0 1",
    "r3k2r/8/8/8/8/8/1p6/R3K2R w KQkq - 0 1",
    "4k3/8/8/8/8/8/4r3/R3K2R w KQ - 0 1",
    "r3k2r/8/8/8/8/5n2/8/R3K2R w KQkq - 0 1",
    "r3k2r/1P4P1/8/8/8/8/1p4p1/R3K2R w KQkq - 0 1",
    "r3k2r/8/8/8/8/8/8/R3K2R w Kq - 0 1",
    "rn2k1nr/8/8/8/8/8/8/RN2K1NR b KQkq - 0 1",
    # rooks captured on their home squares by pieces, pawns and promotions
    "r3k2r/6P1/8/8/8/8/6p1/R3K2R w KQkq - 0 1",
    "r3k2r/8/8/3B4/3b4/8/8/R3K2R w KQkq - 0 1",
    "r3k2r/8/8/8/8/1n4n1/8/R3K2R b KQkq - 0 1",
    # en passant: pins and discoveries
    "8/8/8/KPp4r/8/8/8/4k3 w - c6 0 1",
    "4k3/8/8/8/1p6/8/P7/4K3 w - - 0 1",
    "4k3/2p5/8/1P1P4/8/8/8/4K3 b - - 0 1",
    "8/8/3k4/8/2pP4/8/B7/4K3 b - d3 0 1",
    "4k3/8/8/2pP4/8/8/8/3RK3 w - c6 0 1",
    "8/8/8/8/k1pP3R/8/8/4K3 b - d3 0 1",
    "4k3/pppppppp/8/PPPPPPPP/8/8/8/4K3 b - - 0 1",
    "4k3/8/8/8/pppppppp/8/PPPPPPPP/4K3 w - - 0 1",
    "rnbqkbnr/ppp1p1pp/8/3pPp2/8/8/PPPP1PPP/RNBQKBNR w KQkq f6 0 3",
    # promotions and under-promotions, with and without capture
    "4k3/1P4P1/8/8/8/8/1p4p1/4K3 w - - 0 1",
    "rnb1kbnr/1P4P1/8/8/8/8/1p4p1/RNB1KBNR w KQkq - 0 1",
    "rnb1kbnr/1P4P1/8/8/8/8/1p4p1/RNB1KBNR b KQkq - 0 1",
    "n1n5/PPPk4/8/8/8/8/4Kppp/5N1N b - - 0 1",
    "8/P6k/8/8/8/8/p6K/8 w - - 0 1",
    # small endings (endgame king table in force at import)
    "8/8/8/4k3/8/8/8/KQ6 w - - 0 1",
    "8/8/8/4k3/8/8/8/KR6 w - - 0 1",
    "8/8/8/4k3/8/8/4P3/4K3 w - - 0 1",
    "8/8/8/4k3/8/8/8/KBN5 w - - 0 1",
    "4k3/8/8/8/8/8/8/4K3 w - - 0 1",
    "8/5k2/8/8/8/8/2K5/8 b - - 0 1",
    "8/8/8/8/8/k7/p7/K7 b - - 0 1",
    # around the endgame threshold (2 * 21500 including both kings)
    "r2qk3/ppp5/8/8/8/8/PPP5/R2QK3 w - - 0 1",
    "r3k3/pppp4/8/8/8/8/PPPP4/R3K3 w - - 0 1",
    "3qk3/pppp4/8/8/8/8/PPPP4/3QK3 b - - 0 1",
    "1n2k1n1/pppp4/8/8/8/8/PPPP4/1N2K1N1 w - - 0 1",
    "r1b1k3/pp6/8/8/8/8/PP6/R1B1K3 w Qq - 0 1",
    "4k3/pppppppp/8/8/8/8/PPPPPPPP/4K3 w - - 0 1",
    # fortress, high mobility, many queens
    "4k3/8/p1p1p1p1/PpPpPpPp/1P1P1P1P/8/8/4K3 w - - 0 1",
    "R6R/3Q4/1Q4Q1/4Q3/2Q4Q/Q4Q2/pp1Q4/kBNN1KB1 w - - 0 1",
    "3Q4/1Q4Q1/4Q3/2Q4R/Q4Q2/3Q4/1Q4Rp/1K1BBNNk w - - 0 1",
    "qqqqk3/8/8/8/8/8/8/QQQQK3 w - - 0 1",
    "4k3/8/8/8/8/8/8/QQQQKQQQ b - - 0 1",
    # lopsided material that still fits the 16-bit score, but not while a king is lifted off the board
    "7k/8/8/8/8/PPPPPPPP/QQQQQQQQ/QQQKQQQQ b - - 0 1",
    "qqqkqqqq/qqqqqqqq/pppppppp/8/8/8/8/7K w - - 0 1",
    # checks, double checks, pins
    "4k3/8/8/8/8/8/3n4/R3K2R w KQ - 0 1",
    "4k3/4r3/8/8/4N3/8/8/4K3 w - - 0 1",
    "4k3/8/8/b7/8/2N5/3R4/4K2r w - - 0 1",
    "3rk3/8/8/8/8/8/3B4/3K4 w - - 0 1",
    "k7/8/8/8/8/2b5/1P6/K7 w - - 0 1",
    "rnb1kbnr/pppp1ppp/8/4p3/6Pq/5P2/PPPPP2P/RNBQKBNR w KQkq - 1 3",
    "r1bqkb1r/pppp1Qpp/2n2n2/4p3/2B1P3/8/PPPP1PPP/RNB1K1NR b KQkq - 0 4",
]


# games with a fixed move list (played into the record with `hist`): situations random play rarely reaches
SCRIPTED = [
    ("4k3/7p/8/6P1/8/8/8/4K3 b - - 0 1", ["h7h5", "g5h6"]),                    # en passant on the h-file, both ways
    ("4k3/8/8/8/6p1/8/7P/4K3 w - - 0 1", ["h2h4", "g4h3"]),
    ("4k3/p7/8/1P6/8/8/8/4K3 b - - 0 1", ["a7a5", "b5a6"]),                    # and on the a-file
    ("4k3/8/8/8/1p6/8/P7/4K3 w - - 0 1", ["a2a4", "b4a3"]),
    ("4k3/8/8/6Pp/8/8/8/4K3 w - h6 0 1", ["e1d1", "e8d8"]),                    # imported with an h-file en-passant square
    ("4k2r/6P1/8/8/8/8/8/4K3 w k - 0 1", ["g7h8n", "e8d8", "h8g6"]),           # promotion capturing a rook on its corner
    ("4k2r/6P1/8/8/8/8/4P1P1/4RKR1 w k - 0 1", ["g7h8n"]),                     # ... after which the side to move still "could" castle
    ("r3k3/1P6/8/8/8/8/4P1P1/3RKR2 w q - 0 1", ["b7a8b"]),
    # forced perpetual check: the repetition filter of the root meets a position with a single legal move
    ("6k1/6p1/8/7Q/8/8/1r6/6K1 w - - 0 1", ["h5e8", "g8h7", "e8h5", "h7g8", "h5e8"]),
    ("6k1/1R6/8/8/7q/8/6P1/6K1 b - - 0 1", ["h4e1", "g1h2", "e1h4", "h2g1", "h4e1"]),
    ("r3k3/1P6/8/8/8/8/8/4K3 w q - 0 1", ["b7a8b", "e8d8"]),
    # a double push beside an enemy pawn answered at once by a promotion: the en-passant file must be gone
    ("7k/8/8/4P3/2p5/K7/3P3p/8 w - - 0 1", ["d2d4", "h2h1q", "a3b4"]),
    ("7k/8/8/4P3/2p5/K7/3P3p/8 w - - 0 1", ["d2d4", "h2h1n", "a3b2"]),
    ("8/3p3P/k7/2P5/4p3/8/8/7K b - - 0 1", ["d7d5", "h7h8q", "a6b5"]),
    ("6r1/3p3P/k7/2P5/4p3/8/8/7K b - - 0 1", ["d7d5", "h7g8r", "a6b5"]),
    # a rook or a king takes a rook on its home square: the victim's right goes, whoever captures
    ("r3k2r/8/8/8/8/8/8/R3K2R w KQkq - 0 1", ["a1a8", "e8e7"]),
    ("r3k2r/8/8/8/8/8/8/R3K2R w KQkq - 0 1", ["h1h8", "e8e7"]),
    ("r3k2r/8/8/8/8/8/8/R3K2R b KQkq - 0 1", ["a8a1", "e1e2"]),
    ("r3k2r/8/8/8/8/8/8/R3K2R b KQkq - 0 1", ["h8h1", "e1e2"]),
    ("8/8/8/8/8/8/6k1/4K2R b K - 0 1", ["g2h1", "e1e2"]),
    ("4k2r/6K1/8/8/8/8/8/8 w k - 0 1", ["g7h8", "e8e7"]),
    ("4k3/8/8/8/8/8/1p6/R3K3 b Q - 0 1", ["b2a1q", "e1e2"]),
    ("4k3/8/8/8/8/8/6p1/4K2R b K - 0 1", ["g2h1r", "e1e2"]),
]
# two long shuffles: exported move numbers beyond 127, games near the interface's length limit
LONG = [
    ("4k3/8/p1p1p1p1/PpPpPpPp/1P1P1P1P/8/8/4K3 w - - 0 1", ["e1d1", "e8d8", "d1e1", "d8e8"], 396),
    ("r3k2r/8/8/8/8/8/8/R3K2R w KQkq - 0 1", ["a1b1", "a8b8", "b1a1", "b8a8"], 300),
]


def _sqn(f, r):
    return r * 8 + f


def _fen_from(board, side, rights):
    rows = []
    for r in range(7, -1, -1):
        row, e = "", 0
        for f in range(8):
            pc = board.get(_sqn(f, r))
            if pc:
                row += (str(e) if e else "") + pc
                e = 0
            else:
                e += 1
        rows.append(row + (str(e) if e else ""))
    return "/".join(rows) + " %s %s - 0 1" % (side, rights)


def castling_matrix():
    """every castling move against every kind of attacker on every square that matters: the king's square, the squares it
    crosses and lands on, and the b-file square (which only has to be empty). Deterministic; the rules decide what is legal."""
    out = []
    steps = {"N": [(1, 2), (2, 1), (-1, 2), (-2, 1), (1, -2), (2, -1), (-1, -2), (-2, -1)],
             "K": [(1, 0), (-1, 0), (0, 1), (0, -1), (1, 1), (1, -1), (-1, 1), (-1, -1)]}
    rays = {"R": [(1, 0), (-1, 0), (0, 1), (0, -1)], "B": [(1, 1), (1, -1), (-1, 1), (-1, -1)]}
    rays["Q"] = rays["R"] + rays["B"]
    for side in "wb":
        home = 0 if side == "w" else 7
        up = 1 if side == "w" else -1            # direction towards the enemy
        own = (lambda c: c.upper()) if side == "w" else (lambda c: c.lower())
        foe = (lambda c: c.lower()) if side == "w" else (lambda c: c.upper())
        for wing, rook_f, right in (("k", 7, "K"), ("q", 0, "Q")):
            base = {_sqn(4, home): own("k"), _sqn(rook_f, home): own("r")}
            rights = right if side == "w" else right.lower()
            targets = [4, 5, 6] if wing == "k" else [1, 2, 3, 4]
            for tf in targets:
                t = (tf, home)
                for kind in "KQRBNP":
                    froms = []
                    if kind in steps:
                        froms = [(t[0] + dx, t[1] + dy) for dx, dy in steps[kind]]
                    elif kind in rays:
                        for dx, dy in rays[kind]:
                            for n in (1, 2, 3, 5):
                                froms.append((t[0] + dx * n, t[1] + dy * n))
                    else:
                        froms = [(t[0] - 1, home + up), (t[0] + 1, home + up)]
                    n_used = 0
                    for (f, r) in froms:
                        if not (0 <= f < 8 and 0 <= r < 8) or r == home:
                            continue
                        b = dict(base)
                        if _sqn(f, r) in b:
                            continue
                        b[_sqn(f, r)] = foe(kind.lower())
                        if kind != "K":
                            # the enemy king far away from everything
                            ksq = _sqn(7 if wing == "q" else 0, 7 - home if True else 0)
                            if ksq in b:
                                continue
                            b[ksq] = foe("k")
                        out.append(_fen_from(b, side, rights))
                        n_used += 1
                        if n_used >= 3:
                            break
    return out


def double_push_matrix():
    """every double pawn push (both colours, all files) with an enemy pawn on each of the squares whose INDEX is next to the
    landing square: the true neighbours on the same rank, and for the edge files the square at the other edge of the
    neighbouring rank (index +-1 wraps around). Returns (fen, move) pairs; the rules decide what is recorded."""
    out = []
    for side in "wb":
        start_r, land_r = (1, 3) if side == "w" else (6, 4)
        own, foe = ("P", "p") if side == "w" else ("p", "P")
        for f in range(8):
            land = _sqn(f, land_r)
            for off in (None, -1, 1):
                b = {_sqn(4, 0): "K", _sqn(4, 7): "k", _sqn(f, start_r): own}
                if off is not None:
                    sq = land + off
                    if sq in b or not (8 <= sq < 56):
                        continue
                    b[sq] = foe
                mv = "abcdefgh"[f] + str(start_r + 1) + "abcdefgh"[f] + str(land_r + 1)
                out.append((_fen_from(b, side, "-"), mv))
    return out


def playout_script(tier, seed, skip=()):
    rng = Rng(seed)
    ngames = 96 if tier == "quick" else 1600
    blocks = []
    for gi in range(ngames):
        root = ROOTS[gi % len(ROOTS)]
        lines = ["# g%d" % gi, "new " + root, "obs", "gend", "dump", "pp", "show", "pgn"]
        plies = 10 + rng.below(60) if gi % 8 else 120 + rng.below(180)
        for ply in range(plies):
            lines.append("pick %d" % rng.below(1 << 40))
            lines += ["obs", "gend", "dump"]
            if rng.chance(1, 6):
                lines.append("pp")
            if rng.chance(1, 8):
                lines += ["show", "pgn", "imp"]
        lines += ["show", "pgn", "imp"]
        blocks.append(lines)
    for si, (root, moves) in enumerate(SCRIPTED):
        if "s%d" % si in skip:
            continue
        lines = ["# s%d" % si, "new " + root, "obs", "gend", "dump", "imp"]
        for m in moves:
            lines += ["hist " + m, "obs", "gend", "dump", "pp", "imp", "show", "pgn"]
        blocks.append(lines)
    for ci, root in enumerate(castling_matrix()):
        blocks.append(["# c%d" % ci, "new " + root, "obs", "gend", "dump", "imp"])
    for di, (root, mv) in enumerate(double_push_matrix()):
        blocks.append(["# e%d" % di, "new " + root, "obs", "gend", "dump", "hist " + mv, "obs", "gend", "dump", "pp", "imp", "show", "pgn"])
    for li, (root, cyc, n) in enumerate(LONG):
        lines = ["# l%d" % li, "new " + root, "obs", "gend", "dump"]
        for k in range(n):
            lines += ["hist " + cyc[k % len(cyc)], "obs", "gend", "dump"]
            if k % 16 == 15 or k > n - 6:
                lines.append("imp")
        lines += ["show", "pgn"]
        blocks.append(lines)
    return blocks


def parse_kv(line):
    """'tag k=v k=v ...' -> (tag, dict)"""
    parts = line.split(" ")
    d = {}
    for p in parts[1:]:
        if "=" in p:
            k, v = p.split("=", 1)
            d[k] = v
    return parts[0], d


class Ply:
    __slots__ = ("move", "obs", "gend", "dump", "pp", "show", "pgn", "raw", "imp")

    def __init__(self):
        self.move = None
        self.obs = None
        self.gend = None
        self.dump = None
        self.pp = None
        self.show = None
        self.pgn = None
        self.imp = None
        self.raw = []


def parse_game(lines):
    """output lines of one game -> list of Ply (ply 0 = the root)"""
    plies = []
    cur = None
    for ln in lines:
        tag = ln.split(" ", 1)[0]
        if tag == "new":
            cur = Ply()
            cur.move = ln
            plies.append(cur)
        elif tag == "pick":
            cur = Ply()
            cur.move = ln[5:]
            plies.append(cur)
        elif tag == "hist":
            cur = Ply()
            cur.move = "@hist"        # the move text is taken from the script (parse_game_with_script)
            plies.append(cur)
        if cur is None:
            continue
        cur.raw.append(ln)
        if tag == "obs":
            kv = parse_kv(ln)[1]
            cur.obs = kv if "fen" in kv else None      # (no game loaded: the root text was refused; C17 judges that, nothing to observe here)
        elif tag == "gend":
            cur.gend = parse_kv(ln)[1]
        elif tag == "dump":
            cur.dump = ln
        elif tag == "pp":
            cur.pp = parse_kv(ln)[1]
        elif tag == "show":
            cur.show = ln[5:]
        elif tag == "pgn":
            cur.pgn = ln[4:]
        elif tag == "imp":
            cur.imp = ln
    return plies


def uci_of_desc(d):
    """canonical move description (harness `describe`) -> UCI text"""
    kind, rest = d.split(":", 1)
    if kind == "N":
        return rest[1:5]
    if kind == "P":
        letter = {"0": "q", "1": "r", "2": "b", "3": "n"}.get(rest[1], "?")
        return rest[2:6] + letter
    if kind == "CS":
        return "e1g1" if rest == "w" else "e8g8"
    if kind == "CL":
        return "e1c1" if rest == "w" else "e8c8"
    if kind == "EP":
        w = rest[0] == "w"
        sc, ec = int(rest[1]), int(rest[2])
        return "%s%s%s%s" % ("abcdefgh"[sc], "5" if w else "4", "abcdefgh"[ec], "6" if w else "3")
    return "?"


def fen_of_obs(o):
    return o["fen"].replace("_", " ")


def fields14(fen):
    return " ".join(fen.split()[:4])


class PlayoutRun:
    """runs the playouts on implementation and model and the spec oracles on the implementation's
    positions; everything a position-level property needs is available afterwards"""

    def __init__(self, tier, seed):
        self.tier = tier
        self.seed = seed
        key = "%s-%d" % (tier, seed)
        # the scripted games are hand-written: a game the RULES do not accept is a fault of the corpus, not of the engine,
        # and is left out (and named in the evidence) instead of being blamed on the implementation
        vb = [["# s%d" % si, "speclast %s | %s" % (" ".join(mv), root)] for si, (root, mv) in enumerate(SCRIPTED)]
        vr = cached_run("scripted-valid", SPECDRIVER, vb, "scripted")
        self.corpus_dropped = sorted(g for g in ("s%d" % si for si in range(len(SCRIPTED)))
                                     if not (vr.get(g) and vr[g][0].startswith("specply %d sane=1" % len(SCRIPTED[int(g[1:])][1]))))
        self.blocks = playout_script(tier, seed, skip=set(self.corpus_dropped))
        self.impl_raw = cached_run("playout-impl", HARNESS, self.blocks, key)
        self.model_raw = cached_run("playout-model", DRIVER, self.blocks, key)
        self.impl = {gid: parse_game(lines) for gid, lines in self.impl_raw.items()}
        for b in self.blocks:
            hist = [l[5:] for l in b if l.startswith("hist ")]
            k = 0
            for p in self.impl.get(b[0][2:], []):
                if p.move == "@hist":
                    p.move = hist[k] if k < len(hist) else "none"
                    k += 1
        # spec pass over the implementation's own positions
        sblocks = []
        for gid, plies in self.impl.items():
            lines = ["# " + gid]
            prev = None
            for p in plies:
                if p.obs is None:
                    break
                fen = fen_of_obs(p.obs)
                lines.append("spec " + fen)
                lines.append("specpseudo " + fen)
                lines.append("specmirror " + fen)
                if prev is not None and p.move not in (None, "none") and not p.move.startswith("new"):
                    lines.append("specapply %s | %s" % (p.move, prev))
                prev = fen
            # the game as the rules play it from the root (independent of what the engine exported)
            mvs = [p.move for p in plies[1:] if p.obs is not None and p.move not in (None, "none")]
            root = fen_of_obs(plies[0].obs) if plies and plies[0].obs else None
            if root:
                lines.append("specplay %s | %s" % (" ".join(mvs), root))
            sblocks.append(lines)
        self.spec_blocks = sblocks
        self.spec_raw = cached_run("playout-spec", SPECDRIVER, sblocks, key)

    def disagreements(self):
        """implementation vs model, line by line (move lists compared as generated)"""
        out = []
        for b in self.blocks:
            gid = b[0][2:]
            a = self.impl_raw.get(gid, ["!! missing"])
            m = self.model_raw.get(gid, ["!! missing"])
            if a != m:
                n = min(len(a), len(m))
                i = next((k for k in range(n) if a[k] != m[k]), n)
                out.append({"game": gid, "line": i, "impl": a[i] if i < len(a) else "<end>",
                            "model": m[i] if i < len(m) else "<end>", "script": b[1:]})
        return out

    def spec_of(self, gid):
        """list aligned with plies: dict with spec/specpseudo/specmirror/specapply kv"""
        res = []
        cur = None
        for ln in self.spec_raw.get(gid, []):
            tag, kv = parse_kv(ln)
            if tag == "spec":
                cur = {"spec": kv, "ok": ln.startswith("spec ok")}
                res.append(cur)
            elif cur is not None:
                cur[tag] = kv
        return res

    def rules_line(self, gid):
        """list of dicts (one per ply, in order) from `specplay`: sane, render, legal, exposing"""
        out = []
        for ln in self.spec_raw.get(gid, []):
            if ln.startswith("specply "):
                out.append(parse_kv(ln)[1])
        return out

    def script_of(self, gid):
        for b in self.blocks:
            if b[0][2:] == gid:
                return b[1:]
        return []

    def stats(self):
        s = {"games": len(self.blocks), "plies": 0, "castle": 0, "ep": 0, "promotion": 0, "capture": 0,
             "in_check": 0, "endgame_table": 0, "dead_ends": 0}
        for gid, plies in self.impl.items():
            sp = self.spec_of(gid)
            for i, p in enumerate(plies):
                if p.obs is None:
                    continue
                s["plies"] += 1
                if p.move in ("e1g1", "e1c1", "e8g8", "e8c8"):
                    s["castle"] += 1
                if p.move and len(p.move) == 5 and not p.move.startswith("new"):
                    s["promotion"] += 1
                if p.dump and " ktab=e " in p.dump:
                    s["endgame_table"] += 1
                if i < len(sp) and sp[i]["ok"] and sp[i]["spec"].get("check") == "1":
                    s["in_check"] += 1
                if p.move == "none":
                    s["dead_ends"] += 1
                if p.pgn is None and p.move and "x" in (p.move or ""):
                    pass
        return s
