"""Per-property checks. Every check follows DESIGN.md 5.1:
 1. build (translator, model, drivers, harness, engine) from /repo's working tree
 2. the property's Coq obligations (Properties/<id>.v) with Print Assumptions
 3. table cross-check (translator vs compiled engine)
 4. correspondence run (implementation vs extracted model) and specification oracles
    (implementation vs extracted specs)
 5. verdict and evidence
"""
import json
import os
import re

import lib
from lib import Check, HARNESS, HARNESS_CHECKED, DRIVER, SPECDRIVER, Rng, run_blocks, cached_run
import positions
from positions import PlayoutRun, fen_of_obs, fields14, uci_of_desc, parse_kv


# ---- common front part -----------------------------------------------------------------------

def tables_crosscheck(chk):
    """the translator is itself checked: the same tables printed by the compiled engine"""
    a = run_blocks(HARNESS, [["# t", "tables"]], nshards=1).get("t", [])
    b = run_blocks(DRIVER, [["# t", "tables"]], nshards=1).get("t", [])
    if a != b or not a or a[-1] != "tables end":
        n = min(len(a), len(b))
        i = next((k for k in range(n) if a[k] != b[k]), n)
        return {"line": i, "engine": (a[i] if i < len(a) else "<end>")[:300], "generated": (b[i] if i < len(b) else "<end>")[:300]}
    return None


def front(chk, need=("harness_release", "driver", "specdriver")):
    """build + obligations + table cross-check. Returns (status, tie_broken: list of reasons)"""
    status = lib.build()
    broken = []
    for stage in ("translator", "coq_model", "driver", "specdriver", "harness_release", "harness_checked", "harness_bounds", "scheddriver", "engine"):
        if not status.get(stage, False):
            broken.append("build stage '%s' failed" % stage)
    chk.build_status = status
    ob = lib.coq_obligations(chk.prop)
    chk.add_obligations(ob)
    chk.obligations = ob
    if not ob["ok"]:
        broken.append("proof obligation of %s no longer checks: %s" % (chk.prop, ob.get("failed") or ob["log"][-300:]))
    if status.get("harness_release") and status.get("driver"):
        t = tables_crosscheck(chk)
        if t is not None:
            broken.append("table cross-check: generated definitions differ from the compiled engine at line %d" % t["line"])
            chk.tables_diff = t
    return status, broken


def finish_with_tie(chk, broken, extra_replay=None):
    """a broken proof obligation / correspondence without any concrete failing input so far"""
    # (a violation that belongs to a listed known finding is not "a failing input found" for this purpose: with it alone
    # the broken tie must still be reported)
    known_classes = {e.get("class") for e in lib.known_findings(chk.prop) if e.get("class")}
    if broken and not any(found and replay.get("class") not in known_classes for (_, replay, found) in chk.violations):
        replay = {"broken": broken, "log": getattr(chk, "obligations", {}).get("log", "")[-1500:],
                  "build_log": chk.build_status.get("_log", "")[-1500:]}
        if extra_replay:
            replay.update(extra_replay)
        chk.violation("the tie between model and code (or a proof obligation) no longer checks: " + "; ".join(broken)[:600],
                      replay, found_input=False)
    return chk.finish()


# ---- position-level family ----------------------------------------------------------------------

def position_oracles(run, want):
    """evaluates the specification oracles of the position-level properties on the implementation's
    outputs. `want` is a set of property ids. Returns dict prop -> list of (what, replay)."""
    fails = {p: [] for p in want}
    stats = {"positions": 0, "nontrivial": set(), "hash_by_fields": {}, "fields_by_hash": {}}
    for gid, plies in run.impl.items():
        sp = run.spec_of(gid)
        script = run.script_of(gid)
        root = script[0][4:] if script else "?"
        moves_so_far = []
        rules = run.rules_line(gid) if ("C01" in want or "C20" in want) else []
        ply_no = -1
        for i, p in enumerate(plies):
            if p.obs is None:
                break
            if i > 0:
                if p.move == "none":
                    continue
                moves_so_far.append(p.move)
            ply_no += 1
            if i >= len(sp) or not sp[i]["ok"]:
                # the spec parser rejects a FEN the engine exported: that is a C11 failure
                if "C11" in want:
                    fails["C11"].append(("exported FEN is not a well-formed FEN of a position: %s" % fen_of_obs(p.obs),
                                         {"root": root, "moves": list(moves_so_far), "fen": fen_of_obs(p.obs)}))
                break
            s = sp[i]["spec"]
            fen = fen_of_obs(p.obs)
            f14 = fields14(fen)
            stats["positions"] += 1
            ctx = {"root": root, "moves": list(moves_so_far), "fen": fen}
            checked = p.gend["checked"].split(",") if p.gend and p.gend.get("checked") else []
            unchecked = p.gend["unchecked"].split(",") if p.gend and p.gend.get("unchecked") else []
            cu = sorted(uci_of_desc(d) for d in checked)
            uu = sorted(uci_of_desc(d) for d in unchecked)
            legal = sorted(x for x in s.get("legal", "").split(",") if x)
            nontrivial = (s.get("check") == "1" or "EP:" in (p.gend or {}).get("unchecked", "") or
                          "C" in "".join(d[:1] for d in unchecked) or any(len(x) == 5 for x in uu) or cu != uu
                          or f14.split()[2] != "-" or f14.split()[3] != "-")
            if nontrivial:
                stats["nontrivial"].add(f14)
            # --- C01, judged on the position the RULES reach from the root (so that a wrong right or en-passant
            #     file in the engine's own state cannot hide a wrong move list)
            if "C01" in want and ply_no < len(rules) and rules[ply_no].get("sane") == "1" and p.gend:
                rl = rules[ply_no]
                legal_r = sorted(x for x in rl.get("legal", "").split(",") if x)
                cu_r = sorted(uci_of_desc(d) for d in (p.gend["checked"].split(",") if p.gend.get("checked") else []))
                if cu_r != legal_r:
                    fails["C01"].append(("after %s from %s the checked move list differs from the legal moves of the position the rules prescribe (%s): missing %s extra %s" % (
                        " ".join(moves_so_far[-6:]), root, rl.get("render", "").replace("_", " "), sorted(set(legal_r) - set(cu_r)), sorted(set(cu_r) - set(legal_r))),
                        dict(ctx, expected=legal_r, got=cu_r, rules_position=rl.get("render", "").replace("_", " "))))
            if "C01" in want and s.get("sane") == "1":
                if cu != legal:
                    missing = sorted(set(legal) - set(cu))
                    extra = sorted(set(cu) - set(legal))
                    fails["C01"].append(("checked move list differs from the legal moves in %s: missing %s extra %s repeated %s" % (
                        fen, missing, extra, len(cu) != len(set(cu))), dict(ctx, expected=legal, got=cu)))
                else:
                    exposing = set(x for x in sp[i].get("specpseudo", {}).get("exposing", "").split(",") if x)
                    extras = [x for x in uu if x not in set(cu)]
                    bad = [x for x in extras if x not in exposing]
                    if bad or not set(cu) <= set(uu) or len(uu) != len(set(uu)):
                        fails["C01"].append(("unchecked list is not legal moves plus king-exposing pseudo-legal moves in %s: %s" % (fen, bad),
                                             dict(ctx, unchecked=uu, checked=cu, allowed_extras=sorted(exposing))))
            # --- C02 / C11: the position after the move is what the rules prescribe
            if i > 0 and ("C02" in want or "C11" in want) and "specapply" in sp[i]:
                exp = sp[i]["specapply"].get("render", "").replace("_", " ")
                if sp[i - 1]["spec"].get("sane") == "1" and exp != f14:
                    for pr in ("C02", "C11"):
                        if pr in want:
                            fails[pr].append(("after %s the engine's position is '%s' but the rules prescribe '%s'" % (p.move, f14, exp),
                                              dict(ctx, expected=exp, got=f14)))
            if "C11" in want and p.imp is not None:
                # re-import of the exported text: must succeed and give the same position, hash and legal moves
                if not p.imp.startswith("imp ok"):
                    fails["C11"].append(("the engine refuses to re-import its own exported FEN '%s' (%s)" % (fen, p.imp[:120]), dict(ctx, reimport=p.imp[:200])))
                else:
                    kv2 = parse_kv(p.imp)[1]
                    fen2 = fen_of_obs(kv2)
                    cu0 = ",".join(sorted(uci_of_desc(d) for d in (p.gend["checked"].split(",") if p.gend and p.gend.get("checked") else [])))
                    cu2 = ",".join(sorted(x for x in kv2.get("checked", "").split(",") if x))
                    if fields14(fen2) != f14 or kv2.get("hash") != p.obs["hash"] or (p.gend and cu0 != cu2):
                        fails["C11"].append(("re-importing the exported FEN '%s' gives a different game: fields '%s', hash %s vs %s, moves equal: %s" % (
                            fen, fields14(fen2), kv2.get("hash"), p.obs["hash"], cu0 == cu2), dict(ctx, reimport=p.imp[:300])))
            if "C11" in want:
                if s.get("six") != "1":
                    fails["C11"].append(("exported FEN does not have six well-formed fields: %s" % fen, ctx))
                if s.get("render", "").replace("_", " ") != f14:
                    fails["C11"].append(("exported FEN fields are not the canonical text of the position: %s" % fen, ctx))
            # --- C03: push/pop and queries leave everything unchanged (checked directly by the harness)
            if "C03" in want and p.pp is not None and p.pp.get("bad") != "-":
                fails["C03"].append(("play/take-back of %s (or a query) changed the game state in %s" % (p.pp.get("bad"), fen),
                                     dict(ctx, bad=p.pp.get("bad"))))
            # --- C04: hash = H(position); transpositions agree
            if "C04" in want or "C05" in want:
                h = p.obs["hash"]
                if "C04" in want and s.get("H") != h:
                    fails["C04"].append(("hash %s of %s differs from the published-key hash %s" % (h, fen, s.get("H")),
                                         dict(ctx, expected=s.get("H"), got=h)))
                prev = stats["hash_by_fields"].setdefault(f14, (h, ctx))
                if "C04" in want and prev[0] != h:
                    fails["C04"].append(("one position, two hashes: %s has %s here and %s after %s" % (f14, h, prev[0], prev[1]["moves"]),
                                         dict(ctx, other=prev[1], hashes=[h, prev[0]])))
                prevf = stats["fields_by_hash"].setdefault(h, (f14, ctx))
                if "C05" in want and prevf[0] != f14:
                    fails["C05"].append(("two different positions share hash %s: '%s' and '%s'" % (h, f14, prevf[0]),
                                         dict(ctx, other=prevf[1])))
            # --- C16: score = piece-square sum with one king table
            if "C16" in want and p.dump:
                kt = "e" if " ktab=e " in p.dump else "m"
                exp = s.get("evale") if kt == "e" else s.get("evalm")
                if p.obs["score"] != exp:
                    c16 = dict(ctx, expected=exp, got=p.obs["score"], king_table=kt)
                    try:
                        if not (-32768 <= int(exp) <= 32767):
                            c16["class"] = "sum_outside_i16"       # known finding C16-K1: the sum does not fit the i16 score
                    except (TypeError, ValueError):
                        pass
                    fails["C16"].append(("score %s of %s differs from the piece-square sum %s (king table %s)" % (p.obs["score"], fen, exp, kt), c16))
                if i == 0 and (kt == "e") != (s.get("endgame") == "1"):
                    fails["C16"].append(("imported position %s uses king table %s but the phase rule says endgame=%s" % (fen, kt, s.get("endgame")), ctx))
            # --- C20: show agrees with the game; the record names what was played
            if "C20" in want and p.show is not None:
                err = check_show(p, fen)
                if not err and ply_no < len(rules) and rules[ply_no].get("sane") == "1":
                    # the Fen line must describe the position the rules reach from the root (not merely repeat fen())
                    want14 = rules[ply_no].get("render", "").replace("_", " ")
                    if want14 and f14 != want14:
                        err = "the Fen line shows '%s' but the game played from %s is '%s'" % (f14, root, want14)
                if err:
                    fails["C20"].append((err + " in " + fen, ctx))
            if "C20" in want and p.pgn is not None:
                err = check_record(plies[: i + 1], sp[: i + 1], p.pgn)
                if err:
                    fails["C20"].append((err, ctx))
    return fails, stats


GLYPHS = {"K": "♔", "Q": "♕", "R": "♖", "B": "♗", "N": "♘", "P": "♙",
          "k": "♚", "q": "♛", "r": "♜", "b": "♝", "n": "♞", "p": "♟"}


def board_of_fen(fen):
    rows = fen.split()[0].split("/")
    grid = []
    for r in rows:
        line = []
        for ch in r:
            if ch.isdigit():
                line += [" "] * int(ch)
            else:
                line.append(ch)
        grid.append(line)
    return grid  # rank 8 first


def check_show(p, fen):
    try:
        text = bytes.fromhex(p.show).decode("utf-8")
    except Exception:
        return "show output is not valid UTF-8"
    lines = text.split("\n")
    hl = [l for l in lines if l.startswith("Hash: ")]
    fl = [l for l in lines if l.startswith("Fen: ")]
    if len(hl) != 1 or hl[0][6:].lower().rjust(16, "0") != p.obs["hash"]:
        return "Hash line '%s' does not show the game's hash %s" % (hl, p.obs["hash"])
    if len(fl) != 1 or fl[0][5:] != fen:
        return "Fen line '%s' does not show the game's FEN" % fl
    grid = board_of_fen(fen)
    diag = [l for l in lines if re.match(r"^[1-8] \|", l)]
    if len(diag) != 8:
        return "diagram does not have eight ranks"
    for k, l in enumerate(diag):
        rank = 8 - k
        if not l.startswith("%d |" % rank):
            return "diagram rank label wrong: " + l
        cells = l[2:].split("|")[1:-1]
        exp = [GLYPHS.get(c, " ") for c in grid[k]]
        if cells != exp:
            return "diagram rank %d shows %s but the position has %s" % (rank, cells, exp)
    return None


def check_record(plies, sp, pgn_hex):
    try:
        pgn = bytes.fromhex(pgn_hex).decode("utf-8")
    except Exception:
        return "move record is not valid UTF-8"
    exp = []
    n = 0
    for i in range(1, len(plies)):
        if plies[i].move in (None, "none") or i >= len(sp) or "specapply" not in sp[i]:
            continue
        rec = bytes.fromhex(sp[i]["specapply"].get("record", "")).decode()
        if n % 2 == 0:
            exp.append("%d." % (n // 2 + 1))
        exp.append(rec)
        n += 1
    got = pgn.split()
    if got != exp:
        k = next((j for j in range(min(len(got), len(exp))) if got[j] != exp[j]), min(len(got), len(exp)))
        return "move record entry %d is '%s' but the move played was '%s'" % (k, got[k] if k < len(got) else "<none>", exp[k] if k < len(exp) else "<none>")
    return None


def position_check(chk, rules, nontrivial_rule):
    status, broken = front(chk)
    for b in getattr(chk, "spec_bad", []):
        broken.append("the rules specification no longer reproduces a published perft count: " + b)
    if not status.get("harness_release"):
        return finish_with_tie(chk, broken)
    run = PlayoutRun(chk.tier, chk.seed)
    dis = run.disagreements() if status.get("driver") else []
    fails, stats = position_oracles(run, {chk.prop})
    for what, replay in fails[chk.prop][:5]:
        chk.violation(what, dict(replay, kind="spec-oracle failure on the implementation"))
    st = run.stats()
    chk.cov["evaluations"] = stats["positions"]
    chk.cov["distinct_nontrivial"] = len(stats["nontrivial"])
    chk.cov["rule"] = rules + " Non-trivial: " + nontrivial_rule
    chk.cov["traces_validated_against_impl"] = len(run.blocks) - len(dis)
    chk.cov["disagreements_checked"] = sum(len(v) for v in run.impl_raw.values())
    chk.cov["input_distribution"] = st
    if run.corpus_dropped:
        chk.notes.append("scripted games refused by the rules and left out of the corpus (fault of tools/positions.py): %s" % ", ".join(run.corpus_dropped))
    g0 = run.blocks[1 % len(run.blocks)]
    chk.cov["samples"] = [{"case": g0[:12] + ["..."], "implementation": run.impl_raw.get(g0[0][2:], [])[:6]}]
    if dis:
        d = dis[0]
        broken.append("correspondence: implementation and model disagree in %d of %d games; first: game %s line %d impl='%s' model='%s'" % (
            len(dis), len(run.blocks), d["game"], d["line"], d["impl"][:200], d["model"][:200]))
        if not fails[chk.prop] and chk.tier == "quick":
            # directed search: the thorough set of playouts, oracles only
            run2 = PlayoutRun("thorough", chk.seed)
            fails2, _ = position_oracles(run2, {chk.prop})
            for what, replay in fails2[chk.prop][:3]:
                chk.violation(what, dict(replay, kind="spec-oracle failure on the implementation (directed search)"))
        return finish_with_tie(chk, broken, {"first_disagreement": {k: d[k] for k in ("game", "line", "impl", "model")},
                                            "script": d["script"][: d["line"] + 4]})
    return finish_with_tie(chk, broken)


RULE_PLAYOUT = ("random legal playouts (all choices from one xorshift state seeded by VERIF_SEED) from a corpus of %d roots "
                "(start, perft roots, castling/en-passant/promotion/endgame/fortress/high-mobility patterns); after every ply the "
                "implementation's observables are compared with the extracted model line by line and with the extracted specification." % len(positions.ROOTS))


PUBLISHED_PERFT = [   # chessprogramming.org "Perft Results": numbers that do not come from this engine
    ("rnbqkbnr/pppppppp/8/8/8/8/PPPPPPPP/RNBQKBNR w KQkq - 0 1", [20, 400, 8902, 197281]),
    ("r3k2r/p1ppqpb1/bn2pnp1/3PN3/1p2P3/2N2Q1p/PPPBBPPP/R3K2R w KQkq - 0 1", [48, 2039, 97862, 4085603]),
    ("8/2p5/3p4/KP5r/1R3p1k/8/4P1P1/8 w - - 0 1", [14, 191, 2812, 43238]),
    ("r3k2r/Pppp1ppp/1b3nbN/nP6/BBP1P3/q4N2/Pp1P2PP/R2Q1RK1 w kq - 0 1", [6, 264, 9467, 422333]),
    ("rnbq1k1r/pp1Pbppp/2p5/8/2B5/8/PPP1NnPP/RNBQK2R w KQ - 1 8", [44, 1486, 62379, 2103487]),
    ("r4rk1/1pp1qppp/p1np1n2/2b1p1B1/2B1P1b1/P1NP1N2/1PP1QPPP/R4RK1 w - - 0 10", [46, 2079, 89890, 3894594]),
]


def spec_perft_validation(chk):
    """the executable rules specification is validated against published perft counts (guards against a tidy
    specification of what the engine does instead of what the laws say)"""
    maxd = 3 if chk.tier == "quick" else 4
    blocks = []
    for i, (f, counts) in enumerate(PUBLISHED_PERFT):
        for d in range(1, maxd + 1):
            blocks.append(["# v%d_%d" % (i, d), "specperft %d | %s" % (d, f)])
    res = run_blocks(SPECDRIVER, blocks, timeout=2400)
    bad = []
    n = 0
    for i, (f, counts) in enumerate(PUBLISHED_PERFT):
        for d in range(1, maxd + 1):
            ln = (res.get("v%d_%d" % (i, d), ["?"]) or ["?"])[0]
            n += 1
            if ln != "specperft %d %d" % (d, counts[d - 1]):
                bad.append("Spec/Rules.v perft %d of %s gives '%s', published: %d" % (d, f, ln, counts[d - 1]))
    chk.cov["spec_validated_against_published_perft"] = {"counts_checked": n, "max_depth": maxd, "mismatches": len(bad)}
    return bad


def binary_perft(chk):
    """the binary's own `perft <depth> <fen>` command (main.rs + performance_test.rs) against the published counts, and its
    per-move breakdown against the specification's legal moves"""
    import subprocess
    maxd = 3 if chk.tier == "quick" else 4
    n = 0
    for f, counts in PUBLISHED_PERFT:
        for d in range(1, maxd + 1):
            try:
                r = subprocess.run([lib.ENGINE, "perft", str(d), f], capture_output=True, text=True, timeout=600)
            except Exception as e:        # noqa
                chk.violation("rustybait perft %d '%s' did not finish: %r" % (d, f, e), {"fen": f, "depth": d}, found_input=True)
                continue
            lines = [l for l in r.stdout.split("\n") if l.strip()]
            total = lines[-1].strip() if lines else "?"
            n += 1
            if r.returncode != 0 or total != str(counts[d - 1]):
                chk.violation("the engine's perft %d of %s is %s, the published count is %d" % (d, f, total, counts[d - 1]),
                              {"fen": f, "depth": d, "output_tail": lines[-5:], "kind": "spec-oracle failure on the implementation (CLI)"})
    chk.cov["binary_perft_counts_checked"] = n


def check_C01(chk):
    lib.CURRENT_TIER = chk.tier
    st = lib.build()          # the binary must be the current tree's before it is asked anything
    chk.spec_bad = spec_perft_validation(chk) if st.get("specdriver") else []
    if st.get("engine") and os.path.exists(lib.ENGINE):
        binary_perft(chk)
    return position_check(chk, RULE_PLAYOUT + " Oracle: checked list (as UCI texts, sorted) = Rules.legal_moves; unchecked list = legal + pseudo-legal moves exposing the king.",
                          "distinct positions (FEN fields 1-4) with a check, a castling right, an en-passant file, a promotion available or a filtered move.")


def check_C02(chk):
    return position_check(chk, RULE_PLAYOUT + " Oracle: FEN fields 1-4 after each ply = render (Rules.apply position move).",
                          "as C01.")


def check_C03(chk):
    return position_check(chk, RULE_PLAYOUT + " Oracle (direct, in the harness): the complete concrete state (board, caches, score, hash, kings, stack, both move lists, FEN) is identical after push+pop of every unchecked move (with one nested level) and after both generators and the FEN export.",
                          "as C01.")


def check_C04(chk):
    return position_check(chk, RULE_PLAYOUT + " Oracle: hash = HashSpec.H of the exported position; equal FEN fields 1-4 => equal hash over the whole run.",
                          "as C01.")


def collide_run(chk):
    """the exploration half of C05: every position of the legal-move trees below, distinct positions => distinct hashes"""
    roots = positions.ROOTS[:6]
    depth = {0: 5, 1: 4, 2: 5, 3: 4, 4: 4, 5: 4} if chk.tier == "quick" else {0: 5, 1: 4, 2: 6, 3: 5, 4: 4, 5: 4}
    blocks = [["# e%d" % i, "new " + f, "collide %d" % depth[i]] for i, f in enumerate(roots)]
    res = run_blocks(HARNESS, blocks, timeout=1500)
    total = {"tree_nodes": 0, "distinct_positions": 0}
    for i, f in enumerate(roots):
        ln = next((l for l in res.get("e%d" % i, []) if l.startswith("collide ")), None)
        if ln is None:
            chk.violation("the collision exploration of %s did not finish" % f, {"root": f, "output": res.get("e%d" % i, [])[:3]}, found_input=False)
            continue
        kv = parse_kv(ln)[1]
        total["tree_nodes"] += int(kv["nodes"])
        total["distinct_positions"] += int(kv["distinct"])
        if kv.get("collision") != "none":
            a, b = kv["collision"].replace("_", " ").split("|")
            chk.violation("two different positions share a hash: '%s' and '%s' (both within %d plies of %s)" % (a, b, depth[i], f),
                          {"root": f, "depth": depth[i], "positions": [a, b], "kind": "collision found on the implementation"})
    chk.cov["collision_exploration"] = total
    chk.notes.append("collision freedom over the explored set is an exploration (it cannot be a theorem): %d distinct positions from %d tree nodes, no two sharing a hash" % (
        total["distinct_positions"], total["tree_nodes"]))


def exchange_twins(chk):
    """structured twins that no short game produces: the same occupied squares and the same men with two unlike men exchanged,
    and positions that differ in three or four features chosen so that a key table with additive structure
    (key(square, man) = a(square) xor b(man)) makes them collide. Imported from text; distinct texts must hash differently."""
    import itertools
    bases = ["rnbqkbnr/pppppppp/8/8/8/8/PPPPPPPP/RNBQKBNR w KQkq - 0 1", "r3k2r/p1ppqpb1/bn2pnp1/3PN3/1p2P3/2N2Q1p/PPPBBPPP/R3K2R w KQkq - 0 1",
             "8/2p5/3p4/KP5r/1R3p1k/8/4P1P1/8 w - - 0 1", "r4rk1/1pp1qppp/p1np1n2/2b1p1B1/2B1P1b1/P1NP1N2/1PP1QPPP/R4RK1 w - - 0 10"]
    fens = []
    for b in bases:
        f = b.split(" ")
        rows = []
        for row in f[0].split("/"):
            r = ""
            for ch in row:
                r += "." * int(ch) if ch.isdigit() else ch
            rows.append(r)
        cells = [(i, j) for i in range(8) for j in range(8) if rows[i][j] != "." and rows[i][j] not in "kKpP"]
        n = 0
        for (a, c) in itertools.combinations(cells, 2):
            if rows[a[0]][a[1]] == rows[c[0]][c[1]]:
                continue
            g = [list(r) for r in rows]
            g[a[0]][a[1]], g[c[0]][c[1]] = g[c[0]][c[1]], g[a[0]][a[1]]
            txt = []
            for r in g:
                o, e = "", 0
                for ch in r:
                    if ch == ".":
                        e += 1
                    else:
                        o += (str(e) if e else "") + ch
                        e = 0
                txt.append(o + (str(e) if e else ""))
            fens.append("/".join(txt) + " " + f[1] + " - - 0 1")
            n += 1
            if n >= (60 if chk.tier == "quick" else 400):
                break
        fens.append(f[0] + " " + f[1] + " - - 0 1")
    fens = sorted(set(fens))
    out = run_blocks(HARNESS, [["# x%d" % i, "new " + t, "obs"] for i, t in enumerate(fens)])
    seen = {}
    for i, t in enumerate(fens):
        ls = out.get("x%d" % i, [])
        ob = next((parse_kv(l)[1] for l in ls if l.startswith("obs ")), None)
        if ob is None:
            continue
        h = ob.get("hash")
        key = " ".join(t.split(" ")[:4])
        if h in seen and seen[h] != key:
            chk.violation("two different positions share a hash: '%s' and '%s' (the same men on the same squares, two unlike men exchanged)" % (seen[h], key),
                          {"fen_a": seen[h], "fen_b": key, "hash": h, "kind": "spec-oracle failure on the implementation"})
            if len(chk.violations) >= 5:
                break
        seen.setdefault(h, key)
    chk.notes.append("exchange twins: %d imported positions, %d distinct hashes" % (len(fens), len(seen)))


def check_C05(chk):
    lib.CURRENT_TIER = chk.tier
    if lib.build().get("harness_release"):
        collide_run(chk)
        exchange_twins(chk)
    return position_check(chk, RULE_PLAYOUT + " Oracle: distinct FEN fields 1-4 => distinct hashes over the whole run (exploration half).",
                          "as C01.")


def check_C11(chk):
    return position_check(chk, RULE_PLAYOUT + " Oracle: exported FEN is six well-formed fields and fields 1-4 = render of the rule-prescribed position.",
                          "as C01.")


C16_K1_WITNESS = "QQQQQQQk/QQQQQQQ1/QQQQQQQQ/QQQQQQQQ/QQQQQQQQ/QQQQQQQQ/QQQQQQQQ/KQQQQQQQ b - - 0 1"


def replay_known_C16(chk):
    """the listed known finding is replayed on every run: if it still fails it is reported as KNOWN-FINDING"""
    a = run_blocks(HARNESS, [["# k", "new " + C16_K1_WITNESS, "obs"]], nshards=1).get("k", [])
    b = run_blocks(SPECDRIVER, [["# k", "spec " + C16_K1_WITNESS]], nshards=1).get("k", [])
    if len(a) >= 2 and a[1].startswith("obs ") and b and b[0].startswith("spec ok"):
        got = parse_kv(a[1])[1].get("score")
        exp = parse_kv(b[0])[1].get("evalm")
        sane = parse_kv(b[0])[1].get("sane")
        if got != exp:
            chk.violation("score %s of %s differs from the piece-square sum %s (sane=%s)" % (got, C16_K1_WITNESS, exp, sane),
                          {"fen": C16_K1_WITNESS, "expected": exp, "got": got, "class": "sum_outside_i16", "kind": "replay of known finding C16-K1"})


def check_C16(chk):
    if lib.build().get("harness_release"):
        replay_known_C16(chk)
    return position_check(chk, RULE_PLAYOUT + " Oracle: score = EvalSpec.eval with the king table in force for both kings; imported positions use the endgame table iff the phase rule says so.",
                          "as C01.")


def check_C20(chk):
    return position_check(chk, RULE_PLAYOUT + " Oracle: Hash/Fen lines and the diagram of `show` agree with the game; every record entry = Notation.record_entry of the move played.",
                          "as C01.")


CHECKS = {"C01": check_C01, "C02": check_C02, "C03": check_C03, "C04": check_C04, "C05": check_C05,
          "C11": check_C11, "C16": check_C16, "C20": check_C20}


def _more():
    import search_checks
    CHECKS.update(search_checks.CHECKS)
    try:
        import uci_checks
        CHECKS.update(uci_checks.CHECKS)
    except ImportError:
        pass


def run(prop, tier, seed):
    _more()
    if prop not in CHECKS:
        print("no check for %s" % prop)
        return 2
    chk = Check(prop, tier, seed)
    try:
        return CHECKS[prop](chk)
    except Exception:
        # the check's own machinery failed on outputs it did not expect (for instance an engine that refuses what it should
        # accept): the property is then not shown to hold - reported as a broken tie with the traceback as the replay
        import traceback
        tb = traceback.format_exc()
        chk.violation("the check could not digest the implementation's output (the tie no longer checks): %s" % tb.strip().split("\n")[-1][:300],
                      {"traceback": tb[-3000:], "kind": "the check's machinery failed"}, found_input=False)
        if not chk.cov.get("rule"):
            chk.cov["rule"] = "the check stopped with an internal error before it could describe what it covered"
        if not chk.cov.get("samples"):
            chk.cov["samples"] = ["none"]
        return chk.finish()
