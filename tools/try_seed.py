#!/usr/bin/env python3
"""tools/try_seed.py <patch.diff> [property ids ...]  -  apply a seeded change to /repo, run the quick checks
(all twenty when none is named), print which ones raise an alarm, and undo the change straight afterwards.
/repo must be clean. Used to measure what the checks catch (DESIGN.md section 12); never part of a check."""
import json
import os
import subprocess
import sys
import time

ROOT = os.path.dirname(os.path.dirname(os.path.abspath(__file__)))
ALL = ["C%02d" % i for i in range(1, 21)]


def sh(cmd, **kw):
    return subprocess.run(cmd, shell=True, capture_output=True, text=True, **kw)


def main():
    patch = os.path.abspath(sys.argv[1])
    props = sys.argv[2:] or ALL
    st = sh("git -C /repo status --porcelain").stdout.strip()
    if st:
        print("refusing: /repo is not clean:\n" + st)
        return 2
    r = sh("git -C /repo apply --check %s" % patch)
    if r.returncode != 0:
        print("patch does not apply: " + r.stderr)
        return 2
    sh("git -C /repo apply %s" % patch)
    results = {}
    try:
        t0 = time.time()
        b = sh("%s/tools/build.sh" % ROOT)
        print("build: %s (%.0fs)" % ((b.stdout.strip().split("\n") or ["?"])[-1], time.time() - t0))
        for p in props:
            t0 = time.time()
            r = sh("cd %s && timeout 1500 ./check %s --tier quick" % (ROOT, p))
            lines = [l for l in r.stdout.split("\n") if l.strip()]
            viol = [l for l in lines if l.startswith("VIOLATION")]
            detail = ""
            for i, l in enumerate(lines):
                if l.startswith("VIOLATION") and i + 1 < len(lines):
                    detail = lines[i + 1].strip()[:300]
                    break
            results[p] = {"exit": r.returncode, "violations": len(viol), "no_input": any("no-failing-input-found" in v for v in viol) and not any("no-failing-input-found" not in v for v in viol),
                          "first": detail, "wall_s": round(time.time() - t0, 1)}
            print("%s exit=%d violations=%d %s  %s" % (p, r.returncode, len(viol), "(no failing input)" if results[p]["no_input"] else "", detail[:200]))
    finally:
        sh("git -C /repo checkout -- .")
        sh("git -C /repo clean -fdq src")
    caught = [p for p, v in results.items() if v["exit"] != 0]
    print("CAUGHT BY: %s" % (", ".join(caught) if caught else "nothing"))
    json.dump(results, open("/tmp/try_seed_last.json", "w"), indent=1)
    return 0


if __name__ == "__main__":
    sys.exit(main())
