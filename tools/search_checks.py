"""Checks of the search-level properties C06, C07, C08, C09, C10, C18, C19 (DESIGN.md section 6).
Each one: obligations (Properties/<id>.v), the correspondence run implementation vs extracted model on
search transcripts, and the property's own oracle evaluated on the implementation's output."""
import os
import re
import time

import lib
from lib import HARNESS, HARNESS_CHECKED, DRIVER, SPECDRIVER, ENGINE, Rng, cached_run, run_blocks
import positions
from positions import ROOTS, parse_kv, fen_of_obs

SMALL_ROOTS = [
    "8/8/8/4k3/8/8/8/KQ6 w - - 0 1", "8/8/8/4k3/8/8/8/KR6 w - - 0 1", "8/8/8/4k3/8/8/4P3/4K3 w - - 0 1",
    "8/8/8/4k3/8/8/8/KBN5 w - - 0 1", "4k3/8/8/8/8/8/8/4K3 w - - 0 1", "8/5k2/8/8/8/8/2K5/8 b - - 0 1",
    "8/8/8/8/8/k7/p7/K7 b - - 0 1", "8/P6k/8/8/8/8/p6K/8 w - - 0 1", "4k3/8/8/8/1p6/8/P7/4K3 w - - 0 1",
    "8/8/8/KPp4r/8/8/8/4k3 w - c6 0 1", "6k1/5ppp/8/8/8/8/8/R3K3 w Q - 0 1", "k7/8/8/8/8/2b5/1P6/K7 w - - 0 1",
    "3rk3/8/8/8/8/8/3B4/3K4 w - - 0 1", "4k3/4r3/8/8/4N3/8/8/4K3 w - - 0 1", "8/8/3k4/8/2pP4/8/B7/4K3 b - d3 0 1",
    "4k3/1P4P1/8/8/8/8/1p4p1/4K3 w - - 0 1", "7k/8/8/8/8/8/r7/1r4K1 w - - 0 1", "k7/2Q5/1K6/8/8/8/8/8 b - - 0 1",
    "7k/5Q2/6K1/8/8/8/8/8 b - - 0 1", "8/8/8/8/8/5k2/4q3/7K w - - 0 1", "r3k3/8/8/8/8/8/8/4K2R w K - 0 1",
    "4k2r/8/8/8/8/8/8/R3K3 b k - 0 1", "2k5/8/2K5/8/8/8/8/7R w - - 0 1", "8/8/8/8/3pP3/8/8/k1K5 b - e3 0 1",
]


def parse_search_blocks(lines):
    """output lines of one block -> list of dict(kind=..., ...) in order"""
    out = []
    cur_info = []
    for ln in lines:
        if ln.startswith("!!") or ln.endswith(" panic"):
            # (a panic inside the pv walk lands at the end of the unfinished `info pv` line)
            out.append({"kind": "crash", "raw": ln[-200:]})
        elif ln.startswith("info "):
            cur_info.append(ln)
        elif ln.startswith("best "):
            tag, kv = parse_kv(ln)
            out.append({"kind": "search", "info": cur_info, "best": ln.split(" ")[1], "kv": kv, "raw": ln})
            cur_info = []
        elif ln.startswith("obs "):
            out.append({"kind": "obs", "kv": parse_kv(ln)[1]})
        elif ln.startswith("root "):
            out.append({"kind": "root", "kv": parse_kv(ln)[1], "raw": ln})
        elif ln.startswith("ref "):
            out.append({"kind": "ref", "kv": parse_kv(ln)[1], "raw": ln})
        elif ln.startswith("!!") or ln.endswith(" panic"):
            out.append({"kind": "crash", "raw": ln})
        else:
            out.append({"kind": "other", "raw": ln})
    return out


def spec_positions(fens, key):
    """fen -> spec kv (legal, check, sane, ...) through the extracted specification"""
    fens = sorted(set(fens))
    blocks = [["# f%d" % i, "spec " + f] for i, f in enumerate(fens)]
    raw = cached_run("spec-pos", SPECDRIVER, blocks, key)
    res = {}
    for i, f in enumerate(fens):
        ls = raw.get("f%d" % i, [])
        if ls and ls[0].startswith("spec ok"):
            res[f] = parse_kv(ls[0])[1]
    return res


def spec_lines(items, key):
    """items: list of (moves_text, fen) -> list of result strings ('ok' or 'bad at=..')"""
    blocks = [["# l%d" % i, "specline %s | %s" % (mv, fen)] for i, (mv, fen) in enumerate(items)]
    raw = cached_run("spec-line", SPECDRIVER, blocks, key)
    return [(raw.get("l%d" % i, ["?"]) or ["?"])[0] for i in range(len(items))]


def legal_of(spec, fen):
    s = spec.get(fen)
    if s is None:
        return None
    return [x for x in s.get("legal", "").split(",") if x]


def diff_runs(blocks, a, b):
    dis = []
    for blk in blocks:
        gid = blk[0][2:]
        x = a.get(gid, ["!! missing"])
        y = b.get(gid, ["!! missing"])
        if x != y:
            n = min(len(x), len(y))
            i = next((k for k in range(n) if x[k] != y[k]), n)
            dis.append({"game": gid, "line": i, "impl": x[i] if i < len(x) else "<end>",
                        "model": y[i] if i < len(y) else "<end>", "script": blk[1:]})
    return dis


def common_front(chk):
    import checks
    status, broken = checks.front(chk)
    return status, broken


def finish(chk, broken, dis, blocks, impl_raw, extra=None):
    import checks
    chk.cov["traces_validated_against_impl"] = len(blocks) - len(dis)
    chk.cov["disagreements_checked"] = sum(len(v) for v in impl_raw.values())
    if dis:
        d = dis[0]
        broken.append("correspondence: implementation and model disagree in %d of %d scripts; first: script %s line %d impl='%s' model='%s'" % (
            len(dis), len(blocks), d["game"], d["line"], d["impl"][:200], d["model"][:200]))
        return checks.finish_with_tie(chk, broken, {"first_disagreement": {k: d[k] for k in ("game", "line", "impl", "model")},
                                                    "script": d["script"]})
    return checks.finish_with_tie(chk, broken, extra)


# ---- C06 / C18: search histories sharing a table -------------------------------------------------------------

MATE_ROOTS = [
    "6k1/5ppp/8/8/8/8/5PPP/R5K1 w - - 0 1", "6k1/5ppp/8/8/8/8/8/R3K3 w Q - 0 1", "k7/P7/2K5/8/8/8/8/8 w - - 0 1",
    "7k/5Q2/6K1/8/8/8/8/8 w - - 0 1", "7k/3Q4/6K1/8/8/8/8/8 w - - 0 1", "8/k7/7R/2KR4/8/8/8/8 w - - 0 1",
    "rnbqkbnr/pppp1ppp/8/4p3/6P1/5P2/PPPPP2P/RNBQKBNR b KQkq - 0 2", "r1bqkb1r/pppp1ppp/2n2n2/4p2Q/2B1P3/8/PPPP1PPP/RNB1K1NR w KQkq - 4 4",
    "4r3/8/8/k7/8/8/3r4/7K b - - 0 1", "1k6/8/2R5/2K2R2/8/8/8/8 w - - 0 1", "2R5/8/7R/k7/8/8/8/K7 w - - 0 1",
]


def history_scripts(tier, seed):
    rng = Rng(seed * 7 + 1)
    n = 24 if tier == "quick" else 400
    maxd = 4 if tier == "quick" else 5
    blocks = []
    for i in range(n):
        lines = ["# h%d" % i, "cleartable"]
        ngames = 1 + rng.below(3)
        for gi in range(ngames):
            root = ROOTS[rng.below(len(ROOTS))] if rng.chance(2, 3) else SMALL_ROOTS[rng.below(len(SMALL_ROOTS))]
            lines.append("new " + root)
            for _ in range(rng.below(12)):
                lines.append("pick %d" % rng.below(1 << 40))
            nsearch = 2 + rng.below(4)
            for si in range(nsearch):
                d = 1 + rng.below(maxd)
                lines += ["obs", "search %d -1 0" % d]
                r = rng.below(6)
                if r <= 2:
                    lines.append("playbest")          # the game advances along the engine's own choice
                elif r == 3:
                    lines.append("pick %d" % rng.below(1 << 40))
                # else: search the same position again (shallower or deeper)
        blocks.append(lines)
    # special moves played into the record (promotion captures on the corners, en passant), then searched
    for j, (root, moves) in enumerate(positions.SCRIPTED):
        lines = ["# p%d" % j, "cleartable", "new " + root, "obs"]
        for m in moves:
            lines += ["hist " + m, "obs", "search %d -1 0" % (1 + rng.below(4)), "obs", "search %d -1 0" % (1 + rng.below(3))]
        blocks.append(lines)
    # twins: the same placement and side with a different en-passant / castling state, searched in one session (a table
    # keyed by anything less than the whole position hands the move cached for one twin to the other)
    for j, (a, b) in enumerate(TWINS):
        for (x, y) in ((a, b), (b, a)):
            for (d1, d2) in ((4, 4), (4, 2), (3, 3)):
                blocks.append(["# t%d_%d%d%s" % (j, d1, d2, "ab" if x is a else "ba"), "cleartable", "new " + x, "obs", "search %d -1 0" % d1,
                               "new " + y, "obs", "search %d -1 0" % d2, "obs", "search %d -1 0" % (d2 + 1)])
    # the position a search has just mated or stalemated in, asked about shallowly with the table kept
    for j, f in enumerate(MATE_ROOTS if tier == "thorough" else MATE_ROOTS[:7]):
        for d in (3, 4):
            blocks.append(["# m%d_%d" % (j, d), "cleartable", "new " + f, "obs", "search %d -1 0" % d, "playbest",
                           "obs", "search 1 -1 0", "obs", "search 2 -1 0", "playbest", "obs", "search 1 -1 0"])
    return blocks


TWINS = [
    ("8/8/8/3pP3/8/8/k7/7K w - d6 0 1", "8/8/8/3pP3/8/8/k7/7K w - - 0 1"),
    ("7k/K7/8/8/3Pp3/8/8/8 b - d3 0 1", "7k/K7/8/8/3Pp3/8/8/8 b - - 0 1"),
    ("4k3/8/8/2pP4/8/8/8/4K3 w - c6 0 1", "4k3/8/8/2pP4/8/8/8/4K3 w - - 0 1"),
    ("4k3/8/8/8/6Pp/8/8/4K3 b - g3 0 1", "4k3/8/8/8/6Pp/8/8/4K3 b - - 0 1"),
    ("rnbqkb1r/ppp1pppp/5n2/3pP3/8/8/PPPP1PPP/RNBQKBNR w KQkq d6 0 3", "rnbqkb1r/ppp1pppp/5n2/3pP3/8/8/PPPP1PPP/RNBQKBNR w KQkq - 0 3"),
    # castling state: the cached castling move is not legal for the twin without the right
    ("4k3/8/8/8/8/8/7p/R3K3 w Q - 0 1", "4k3/8/8/8/8/8/7p/R3K3 w - - 0 1"),
    ("r3k3/7P/8/8/8/8/8/4K3 b q - 0 1", "r3k3/7P/8/8/8/8/8/4K3 b - - 0 1"),
    ("4k2r/8/8/8/8/8/8/R3K2R w KQk - 0 1", "4k2r/8/8/8/8/8/8/R3K2R w Qk - 0 1"),
]


def run_history(chk):
    blocks = history_scripts(chk.tier, chk.seed)
    key = "hist-%s-%d" % (chk.tier, chk.seed)
    impl = cached_run("hist-impl", HARNESS, blocks, key)
    model = cached_run("hist-model", DRIVER, blocks, key)
    return blocks, impl, model, key


def history_oracles(blocks, impl, key, want_pv):
    """the oracle of C06 (announced move legal / none iff dead) and of C18 (every pv line playable)"""
    searches = []      # (gid, fen, search dict)
    lines_of = {}      # index into `searches` -> (root fen, moves played from it), for the rules' own line of play
    for blk in blocks:
        gid = blk[0][2:]
        fen = None
        root = None
        moves = []
        for ln in impl.get(gid, []):
            if ln.startswith("new "):
                root = None
                moves = []
            elif ln.startswith("pick ") or ln.startswith("playbest "):
                mv = ln.split(" ")[1]
                if mv not in ("none", "illegal"):
                    moves.append(mv)
                elif mv == "illegal":
                    moves.append(ln.split(" ")[2])
        # second pass with the parsed events (obs gives the position, in particular the root right after `new`)
        root = None
        moves = []
        raw = impl.get(gid, [])
        k = 0
        evs = parse_search_blocks(raw)
        for ln in raw:
            pass
        pending_root = False
        for ev in evs:
            if ev["kind"] == "other" and ev["raw"].startswith("new "):
                pending_root = True
                moves = []
                root = None
            elif ev["kind"] == "other" and ev["raw"].startswith("hist ok "):
                moves.append(ev["raw"].split(" ")[2])
                pending_root = False
            elif ev["kind"] == "other" and (ev["raw"].startswith("pick ") or ev["raw"].startswith("playbest ")):
                parts = ev["raw"].split(" ")
                if parts[1] == "illegal":
                    moves.append(parts[2] + "!")          # the engine wanted to play a move its own list refuses
                elif parts[1] != "none":
                    moves.append(parts[1])
                pending_root = False
            elif ev["kind"] == "obs":
                fen = fen_of_obs(ev["kv"])
                if pending_root:
                    root = fen
                    pending_root = False
            elif ev["kind"] == "search":
                lines_of[len(searches)] = (root, list(moves))
                searches.append((gid, fen, ev))
    spec = spec_positions([f for (_, f, _) in searches if f], key)
    # the legal moves of the position the RULES reach from the root of each search's game
    play_items = sorted(set((r, " ".join(m)) for (r, m) in lines_of.values() if r and not any(x.endswith("!") for x in m)))
    pblocks = [["# y%d" % i, "speclast %s | %s" % (mv, r)] for i, (r, mv) in enumerate(play_items)]
    praw = cached_run("spec-play", SPECDRIVER, pblocks, key) if pblocks else {}
    rules_legal = {}
    for i, (r, mv) in enumerate(play_items):
        ls = [l for l in praw.get("y%d" % i, []) if l.startswith("specply ")]
        if len(ls) == 1 and "illegal=" not in ls[-1]:
            kv = parse_kv(ls[-1])[1]
            if kv.get("sane") == "1":
                rules_legal[(r, mv)] = [x for x in kv.get("legal", "").split(",") if x]
    fails = []
    stats = {"searches": len(searches), "dead_roots": 0, "table_reuse": 0, "pv_lines": 0, "pv_moves": 0, "single_reply": 0}
    seen_pos = {}
    items = []
    where = []
    nontrivial = set()
    for si, (gid, fen, ev) in enumerate(searches):
        if fen is None:
            continue
        legal = legal_of(spec, fen)
        if legal is None:
            continue
        r, mvs = lines_of.get(si, (None, []))
        rl = rules_legal.get((r, " ".join(mvs))) if r else None
        if rl is not None and sorted(rl) != sorted(legal) and ev["best"] != "none" and ev["best"] not in rl:
            fails.append(("C06", "the announced move %s is not legal in the position the rules reach by %s from %s (the engine's own state differs from it)" % (
                ev["best"], " ".join(mvs[-6:]), r), {"fen": fen, "script": gid, "announced": ev["best"], "legal": sorted(rl), "root": r, "moves": mvs}))
        f14 = " ".join(fen.split()[:4])
        reused = (gid, f14) in seen_pos
        seen_pos[(gid, f14)] = True
        if reused:
            stats["table_reuse"] += 1
        if len(legal) == 1:
            stats["single_reply"] += 1
        if reused or len(legal) <= 1 or len(ev["info"]) >= 8:
            nontrivial.add((gid, f14, ev["raw"]))
        best = ev["best"]
        if not legal:
            stats["dead_roots"] += 1
            if best != "none":
                fails.append(("C06", "the engine announced %s in a position without legal moves: %s" % (best, fen),
                              {"fen": fen, "script": gid, "announced": best}))
        elif best == "none":
            fails.append(("C06", "the engine announced no move although %d legal moves exist in %s" % (len(legal), fen),
                          {"fen": fen, "script": gid, "legal": legal}))
        elif best not in legal:
            fails.append(("C06", "the announced move %s is not legal in %s" % (best, fen),
                          {"fen": fen, "script": gid, "announced": best, "legal": legal}))
        for ln in ev["info"]:
            if ln.startswith("info pv"):
                mv = ln[len("info pv"):].strip()
                stats["pv_lines"] += 1
                stats["pv_moves"] += len(mv.split())
                if mv:
                    items.append((mv, fen))
                    where.append((gid, fen, ln))
    if want_pv and items:
        res = spec_lines(items, key)
        for (gid, fen, ln), r in zip(where, res):
            if not r.startswith("specline ok"):
                fails.append(("C18", "the line '%s' printed for %s is not playable: %s" % (ln, fen, r),
                              {"fen": fen, "script": gid, "line": ln, "result": r}))
    return fails, stats, nontrivial, searches


RULE_HIST = ("scripts of 1-3 games sharing one transposition table, each with random legal prefixes and 2-5 searches of depth 1-%d on "
             "positions that advance along the engine's own move, a random move, or stay (shallower/deeper re-search); all choices from "
             "VERIF_SEED. Transcripts (info depth/score/nodes/pv, best, poll count, table size) must be identical between the real code "
             "and the extracted model.")


def check_C06(chk):
    status, broken = common_front(chk)
    if not status.get("harness_release"):
        return finish(chk, broken, [], [], {})
    blocks, impl, model, key = run_history(chk)
    dis = diff_runs(blocks, impl, model) if status.get("driver") else []
    fails, stats, nontrivial, searches = history_oracles(blocks, impl, key, want_pv=False)
    for prop, what, replay in [f for f in fails if f[0] == "C06"][:5]:
        replay["script_lines"] = next((b[1:] for b in blocks if b[0][2:] == replay["script"]), [])
        chk.violation(what, dict(replay, kind="spec-oracle failure on the implementation"))
    chk.cov["evaluations"] = stats["searches"]
    chk.cov["distinct_nontrivial"] = len(nontrivial)
    chk.cov["rule"] = (RULE_HIST % (4 if chk.tier == "quick" else 5)) + " Oracle: the announced move is in Rules.legal_moves of the root; 'none' iff that list is empty. Non-trivial: searches of a position already searched in the same script (table hit at the root), single-reply or dead roots, or searches of at least two iterations."
    chk.cov["input_distribution"] = stats
    chk.cov["samples"] = [{"script": blocks[0][:14], "implementation": impl.get(blocks[0][0][2:], [])[:12]}]
    return finish(chk, broken, dis, blocks, impl)


def check_C18(chk):
    status, broken = common_front(chk)
    if not status.get("harness_release"):
        return finish(chk, broken, [], [], {})
    blocks, impl, model, key = run_history(chk)
    dis = diff_runs(blocks, impl, model) if status.get("driver") else []
    fails, stats, nontrivial, searches = history_oracles(blocks, impl, key, want_pv=True)
    for prop, what, replay in [f for f in fails if f[0] == "C18"][:5]:
        replay["script_lines"] = next((b[1:] for b in blocks if b[0][2:] == replay["script"]), [])
        chk.violation(what, dict(replay, kind="spec-oracle failure on the implementation"))
    chk.cov["evaluations"] = stats["pv_lines"]
    chk.cov["distinct_nontrivial"] = len(set((g, f, ln) for (g, f, ev) in searches for ln in ev["info"] if ln.startswith("info pv") and len(ln.split()) >= 4))
    chk.cov["rule"] = (RULE_HIST % (4 if chk.tier == "quick" else 5)) + " Oracle: every 'info pv' line is replayed move by move through Rules.legal / Rules.apply from the root. Non-trivial: distinct lines of at least two moves."
    chk.cov["input_distribution"] = stats
    chk.cov["samples"] = [{"script": blocks[0][:14], "implementation": impl.get(blocks[0][0][2:], [])[:12]}]
    return finish(chk, broken, dis, blocks, impl)


# ---- C07: stop at every poll index ----------------------------------------------------------------------------

def stop_scripts(tier, seed):
    rng = Rng(seed * 11 + 3)
    n = 20 if tier == "quick" else 240
    stops = [0, 1, 2, 3, 4, 5, 6, 8, 10, 13, 17, 22, 30, 41, 57, 80, 113, 160, 230, 330, 480, 700, 1000, 1500, 2300, 3500, 6000, 10000]
    blocks = []
    for i in range(n):
        root = (ROOTS + SMALL_ROOTS)[rng.below(len(ROOTS) + len(SMALL_ROOTS))]
        lines = ["# s%d" % i, "cleartable", "new " + root]
        for _ in range(rng.below(14)):
            lines.append("pick %d" % rng.below(1 << 40))
        lines.append("obs")
        d = 2 + rng.below(3 if tier == "quick" else 4)
        warm = rng.chance(1, 3)
        if i % 5 == 0:
            picks = list(range(0, 40))            # every index of the first iterations
        else:
            picks = sorted(set(rng.choice(stops) for _ in range(10)))
        if warm:
            # the root is cached (exact, at depth d and shallower) before the stops: the first iteration then re-searches
            lines += ["cleartable", "search %d -1 0" % d]
            if rng.chance(1, 2):
                lines.append("search %d -1 0" % max(1, d - 1))
        for N in picks:
            if not warm:
                lines.append("cleartable")
            lines.append("search %d %d 0" % (d + (1 if warm and rng.chance(1, 2) else 0), N))
        blocks.append(lines)
    # games with special last moves (promotion captures, en passant, forced perpetual check with the repetition filter active)
    for j, (root, moves) in enumerate(positions.SCRIPTED):
        lines = ["# x%d" % j, "cleartable", "new " + root]
        for m in moves:
            lines.append("hist " + m)
        lines.append("obs")
        for N in (0, 1, 2, 5, 11, 40, 200, -1):
            lines += ["cleartable", "search 3 %d 0" % N]
        blocks.append(lines)
    return blocks


EARLY_STOP_POSITIONS = [
    "rnbqkbnr/pppppppp/8/8/8/8/PPPPPPPP/RNBQKBNR w KQkq - 0 1", "r3k2r/p1ppqpb1/bn2pnp1/3PN3/1p2P3/2N2Q1p/PPPBBPPP/R3K2R w KQkq - 0 1",
    "8/8/8/4k3/8/8/4K3/8 w - - 0 1", "7k/8/8/8/8/8/6q1/K7 w - - 0 1", "k7/8/8/8/8/8/5PPP/6K1 b - - 0 1", "4k3/8/8/8/8/8/4P3/4K3 w - - 0 1",
]


def uci_early_stops(chk):
    import uci
    fens = EARLY_STOP_POSITIONS
    legal = {}
    r = run_blocks(SPECDRIVER, [["# p%d" % i, "spec " + f] for i, f in enumerate(fens)], nshards=1)
    for i, f in enumerate(fens):
        ls = r.get("p%d" % i, [])
        if ls and ls[0].startswith("spec ok"):
            legal[f] = [m for m in parse_kv(ls[0])[1].get("legal", "").split(",") if m]
    kinds = [("go infinite", True), ("go movetime 1", False), ("go movetime 3", False), ("go wtime 40 btime 40 winc 0 binc 0", False), ("go depth 30", True)]
    rounds = 2 if chk.tier == "quick" else 8
    n = 0
    nfail = 0
    for f in fens:
        if f not in legal:
            continue
        for (go, send_stop) in kinds:
            for _ in range(rounds):
                e = uci.Engine()
                try:
                    e.send("position fen " + f)
                    e.send(go)
                    if send_stop:
                        e.send("stop")
                    lines, ok = e.read_until(lambda l: l.startswith("bestmove"), 30.0)
                    rc = e.quit()
                finally:
                    e.kill()
                n += 1
                best = next((l.split()[1] for l in lines if l.startswith("bestmove") and len(l.split()) > 1), None)
                bad = None
                if not ok:
                    bad = "no bestmove after '%s'%s" % (go, " + stop" if send_stop else "")
                elif legal[f] and best not in legal[f]:
                    bad = "'%s'%s was answered with 'bestmove %s' although %d legal moves exist" % (go, " + stop at once" if send_stop else "", best, len(legal[f]))
                if bad and nfail < 5:
                    nfail += 1
                    chk.violation(bad + " (%s)" % f, {"fen": f, "session": ["position fen " + f, go] + (["stop"] if send_stop else []), "answer": best, "output": lines[-6:],
                                                       "kind": "spec-oracle failure on the implementation"})
    return {"sessions": n, "positions": len(legal), "kinds": [k for k, _ in kinds]}


def check_C07(chk):
    status, broken = common_front(chk)
    if not status.get("harness_release"):
        # (the harness does not build, e.g. after a change of the search's signatures: the binary itself can still be asked)
        if status.get("engine") and status.get("specdriver"):
            chk.cov["input_distribution"] = {"uci_early_stops": uci_early_stops(chk)}
        return finish(chk, broken, [], [], {})
    blocks = stop_scripts(chk.tier, chk.seed)
    key = "stop-%s-%d" % (chk.tier, chk.seed)
    impl = cached_run("stop-impl", HARNESS, blocks, key)
    model = cached_run("stop-model", DRIVER, blocks, key) if status.get("driver") else {}
    dis = diff_runs(blocks, impl, model) if status.get("driver") else []
    fens = []
    per = []
    for blk in blocks:
        gid = blk[0][2:]
        fen = None
        stops = [(int(l.split()[2]) if int(l.split()[2]) >= 0 else None) for l in blk if l.startswith("search ")]
        k = 0
        for ev in parse_search_blocks(impl.get(gid, [])):
            if ev["kind"] == "obs":
                fen = fen_of_obs(ev["kv"])
                fens.append(fen)
            elif ev["kind"] == "search":
                per.append((gid, fen, stops[k] if k < len(stops) else None, ev))
                k += 1
            elif ev["kind"] == "crash":
                chk.violation("the search crashed when stopped: %s" % ev["raw"], {"script": blk[1:], "line": ev["raw"], "kind": "crash of the implementation"})
    spec = spec_positions([f for f in fens if f], key)
    stats = {"searches": len(per), "stopped_before_first_iteration": 0, "stopped_later": 0, "completed": 0, "dead_roots": 0}
    nontrivial = set()
    nfail = 0
    for gid, fen, N, ev in per:
        legal = legal_of(spec, fen) if fen else None
        if legal is None:
            continue
        polls = int(ev["kv"].get("polls", "0"))
        after = int(ev["kv"].get("after", "0"))
        stopped = N is not None and polls == N + 1
        if stopped and not ev["info"]:
            stats["stopped_before_first_iteration"] += 1
            nontrivial.add((fen, N))
        elif stopped:
            stats["stopped_later"] += 1
            nontrivial.add((fen, N))
        else:
            stats["completed"] += 1
        if not legal:
            stats["dead_roots"] += 1
        bad = None
        if after != 0:
            bad = "%d further nodes were entered after the stop at poll %s" % (after, N)
        elif N is not None and polls > N + 1:
            bad = "the search polled %d times although it was stopped at poll %d" % (polls, N)
        elif legal and ev["best"] == "none":
            bad = "stopped at poll %s the engine answered 'bestmove none' although %d legal moves exist" % (N, len(legal))
        elif legal and ev["best"] not in legal:
            bad = "stopped at poll %s the engine answered %s, which is not legal" % (N, ev["best"])
        elif not legal and ev["best"] != "none":
            bad = "the engine answered %s in a dead position" % ev["best"]
        if bad and nfail < 5:
            nfail += 1
            script = next((b[1:] for b in blocks if b[0][2:] == gid), [])
            chk.violation(bad + " (%s)" % fen, {"fen": fen, "stop_at_poll": N, "answer": ev["best"], "script": script,
                                                "kind": "spec-oracle failure on the implementation"})
    # the same demand of the real binary, where a stop can arrive before the search thread has polled at all: go + stop at once,
    # a movetime of a few milliseconds, clocks that leave a budget of 0 ms
    ustats = uci_early_stops(chk) if status.get("engine") else {"sessions": 0}
    stats["uci_early_stops"] = ustats
    chk.cov["evaluations"] = stats["searches"] + ustats.get("sessions", 0)
    chk.cov["distinct_nontrivial"] = len(nontrivial)
    chk.cov["rule"] = ("(b) %d sessions of the real binary in which the stop arrives at once (go + stop, go movetime 1..3, clocks with a budget of 0 ms) on positions with one, few and many legal moves: "
                       "the answer must be a legal move (rules' list). (a) " % ustats.get("sessions", 0)) + (
                       "for each of %d positions (random legal prefixes from the corpus) a depth-limited search is stopped by the hook at poll index N "
                       "(every index 0..39 on a fifth of the positions, a geometric sample up to 10000 elsewhere; fresh table, or a table kept warm across the "
                       "stops on a quarter of them). Oracle: no node entered after the stop, at most N+1 polls, the answer is a legal move whenever one exists. "
                       "Transcripts equal between real code and extracted model. Non-trivial: distinct (position, N) where the stop really hit.") % len(blocks)
    chk.cov["input_distribution"] = stats
    chk.cov["samples"] = [{"script": blocks[0][:10], "implementation": impl.get(blocks[0][0][2:], [])[:8]}]
    return finish(chk, broken, dis, blocks, impl)


# ---- C08: depth limits against any table; deep unlimited searches --------------------------------------------

def limit_scripts(tier, seed):
    rng = Rng(seed * 13 + 5)
    n = 24 if tier == "quick" else 300
    blocks = []
    for i in range(n):
        root = (ROOTS + SMALL_ROOTS)[rng.below(len(ROOTS) + len(SMALL_ROOTS))]
        lines = ["# l%d" % i, "cleartable", "new " + root]
        for _ in range(rng.below(10)):
            lines.append("pick %d" % rng.below(1 << 40))
        # a prefix of searches that leaves entries (in particular exact root entries) behind
        for _ in range(1 + rng.below(3)):
            lines += ["obs", "search %d -1 0" % (1 + rng.below(4 if tier == "quick" else 5))]
            r = rng.below(6)
            if r <= 1:
                lines.append("playbest")
            elif r <= 3:
                # a reply the engine did not expect: the new root is cached as a bound, not as an exact result
                lines.append("pick %d" % rng.below(1 << 40))
                lines += ["obs", "search %d -1 0" % (1 + rng.below(2))]      # a limit below whatever bound is cached for it
        # limits below, at and above what is cached
        for _ in range(3):
            lines += ["obs", "search %d -1 0" % (1 + rng.below(5 if tier == "quick" else 6))]
        blocks.append(lines)
    # tiny positions searched "without limit" for a long stretch (stopped by the hook after many polls)
    deep = ["4k3/8/8/8/8/8/8/4K3 w - - 0 1", "8/8/8/8/8/k7/p7/K7 b - - 0 1", "8/5k2/8/8/8/8/2K5/8 b - - 0 1",
            "4k3/8/p1p1p1p1/PpPpPpPp/1P1P1P1P/8/8/4K3 w - - 0 1", "k7/2Q5/1K6/8/8/8/8/8 b - - 0 1", "7k/8/8/8/8/8/8/K7 w - - 0 1"]
    polls = 60000 if tier == "quick" else 600000
    guard = 400
    try:
        m = re.search(r"GAME_LENGTH_GUARD : Z := (\d+)", open(os.path.join(lib.ROOT, "coq", "Gen", "Consts.v")).read())
        guard = int(m.group(1))
    except Exception:
        pass
    for j, (f, cyc) in enumerate([("4k3/8/p1p1p1p1/PpPpPpPp/1P1P1P1P/8/8/4K3 w - - 0 1", ["e1d1", "e8d8", "d1e1", "d8e8"]),
                                  ("7k/8/8/8/8/8/8/K7 w - - 0 1", ["a1b1", "h8g8", "b1a1", "g8h8"])]):
        lines = ["# g%d" % j, "cleartable", "new " + f]
        for k in range(max(10, min(guard, 1100) - 2)):
            lines.append("hist " + cyc[k % 4])
        lines += ["obs", "search 0 %d 0" % max(150000, polls // 2)]      # (deep enough for game length + search depth to pass 512)
        blocks.append(lines)
    for j, f in enumerate(deep):
        blocks.append(["# u%d" % j, "cleartable", "new " + f, "obs", "search 0 %d 0" % polls])
    return blocks


def check_C08(chk):
    status, broken = common_front(chk)
    if not status.get("harness_release"):
        return finish(chk, broken, [], [], {})
    blocks = limit_scripts(chk.tier, chk.seed)
    key = "limit-%s-%d" % (chk.tier, chk.seed)
    impl = cached_run("limit-impl", HARNESS, blocks, key, timeout=900)
    implc = cached_run("limit-implc", HARNESS_CHECKED, blocks, key, timeout=900) if status.get("harness_checked") else impl
    model = cached_run("limit-model", DRIVER, blocks, key, timeout=2400) if status.get("driver") else {}
    dis = diff_runs(blocks, impl, model) if status.get("driver") else []
    stats = {"searches": 0, "limit_below_cached": 0, "limit_above_cached": 0, "deepest_unlimited": 0, "root_hits": 0}
    nontrivial = set()
    nfail = 0
    # the real binary's own search thread (its stack, its spawn): deep lines on bare kings, depth-limited and unlimited
    if status.get("engine"):
        import uci
        for (f, go, stop_after) in [("8/8/8/4k3/8/8/4K3/8 w - - 0 1", "go depth 140", None), ("8/8/8/4k3/8/8/4K3/8 w - - 0 1", "go infinite", 3.0),
                                    ("8/8/4k3/4p3/4P3/4K3/8/8 w - - 0 1", "go depth 200", None)]:
            e = uci.Engine()
            try:
                e.send("position fen " + f)
                e.send(go)
                if stop_after:
                    time.sleep(stop_after)
                    e.send("stop")
                lines, ok = e.read_until(lambda l: l.startswith("bestmove"), 240.0)
                e.send("isready")
                _, ready = e.read_until(lambda l: l == "readyok", 10.0)
                rc = e.quit()
            finally:
                e.kill()
            depths = [int(l.split()[2]) for l in lines if l.startswith("info depth ")]
            stats["deepest_session_search"] = max(stats.get("deepest_session_search", 0), depths[-1] if depths else 0)
            if (not ok or not ready or rc != 0) and nfail < 5:
                nfail += 1
                chk.violation("'%s' on %s did not end cleanly in the real binary (bestmove seen: %s, alive afterwards: %s, exit status %s, last depth %s): %s" % (
                    go, f, ok, ready, rc, depths[-1] if depths else None, "; ".join(e.err[-2:])[:200]),
                    {"fen": f, "session": ["position fen " + f, go] + (["stop"] if stop_after else []), "stderr": e.err[-5:], "kind": "crash of the implementation"})
    for blk in blocks:
        gid = blk[0][2:]
        a, b = impl.get(gid, []), implc.get(gid, [])
        if a != b and nfail < 5 and not any("!!" in l or l.endswith(" panic") for l in a + b):
            k = next((j for j in range(min(len(a), len(b))) if a[j] != b[j]), min(len(a), len(b)))
            nfail += 1
            chk.violation("the release build and the build with bounds and overflow checks give different search output: '%s' vs '%s'" % (
                a[k][:150] if k < len(a) else "<end>", b[k][:150] if k < len(b) else "<end>"),
                {"script": blk[1:6] + ["..."] + blk[-3:], "release": a[k] if k < len(a) else None, "checked": b[k] if k < len(b) else None,
                 "kind": "state corrupted during the search (an unchecked access or arithmetic went out of range)"})
        for which, run in (("release", impl), ("checked", implc)):
            limits = [int(l.split()[1]) for l in blk if l.startswith("search ")]
            k = 0
            for ev in parse_search_blocks(run.get(gid, [])):
                if ev["kind"] == "crash":
                    if nfail < 5:
                        nfail += 1
                        chk.violation(("the search did not end by itself (%s build): %s" if "no answer within" in ev["raw"] else "the search crashed (%s build): %s") % (which, ev["raw"]),
                                      {"script": blk[1:], "line": ev["raw"], "build": which, "kind": "crash of the implementation"})
                elif ev["kind"] == "search":
                    lim = limits[k] if k < len(limits) else None
                    k += 1
                    if which != "release":
                        continue
                    stats["searches"] += 1
                    depths = [int(l.split()[2]) for l in ev["info"] if l.startswith("info depth ")]
                    scores = [int(l.split()[3]) for l in ev["info"] if l.startswith("info score cp ")]
                    if not depths:
                        continue
                    if lim == 0:
                        stats["deepest_unlimited"] = max(stats["deepest_unlimited"], depths[-1])
                        nontrivial.add((gid, depths[-1]))
                        continue
                    first = depths[0]
                    if first > lim:
                        stats["limit_below_cached"] += 1
                        nontrivial.add((gid, k, "below"))
                    elif first > 1:
                        stats["limit_above_cached"] += 1
                        nontrivial.add((gid, k, "above"))
                    bad = None
                    polls = int(ev["kv"].get("polls", "0"))
                    if first > lim and polls > 0:
                        bad = "a search limited to depth %d started at depth %d and really searched there (%d nodes entered): only a cached exact result may be returned from deeper than the limit" % (lim, first, polls)
                    elif depths != list(range(first, first + len(depths))):
                        bad = "iteration depths are not consecutive: %s" % depths
                    elif depths[-1] > max(lim, first):
                        bad = "a search limited to depth %d went on to depth %d (first iteration %d)" % (lim, depths[-1], first)
                    elif any(d >= lim for d in depths[:-1]):
                        bad = "a search limited to depth %d continued after reaching it: %s" % (lim, depths)
                    elif depths[-1] < lim and len(scores) == len(depths):
                        s = scores[-1]
                        only = ev["best"] != "none" and int(ev["kv"].get("polls", "1")) == 0 and False
                        if not (s > 32767 - 1000 or s < -32768 + 1000) and not single_reply_exit(ev):
                            bad = "a search limited to depth %d stopped at depth %d without a mate score or single reply" % (lim, depths[-1])
                    if bad and nfail < 5:
                        nfail += 1
                        chk.violation(bad, {"script": blk[1:], "limit": lim, "depths": depths, "kind": "spec-oracle failure on the implementation"})
    chk.cov["evaluations"] = stats["searches"]
    chk.cov["distinct_nontrivial"] = len(nontrivial)
    chk.cov["rule"] = ("scripts: a prefix of searches fills the table (exact root entries of various depths), then depth limits below, at and above the cached "
                       "depth are requested; plus unlimited searches of six tiny positions stopped by the hook after %d polls (depth reached is recorded). Run on the release "
                       "and on the checked build (overflow and debug assertions panic). Oracle: no crash; iteration depths consecutive; no iteration beyond max(limit, cached depth); "
                       "nothing after the limit is reached; an earlier exit only with a mate score or a single reply. Non-trivial: searches starting from a cached depth, and the deep runs.") % (60000 if chk.tier == "quick" else 600000)
    chk.cov["input_distribution"] = stats
    chk.cov["samples"] = [{"script": blocks[0][:12], "implementation": impl.get(blocks[0][0][2:], [])[:10]}]
    return finish(chk, broken, dis, blocks, impl)


def single_reply_exit(ev):
    # a root with one legal move returns score 0 at once: info score cp 0 and a one-move pv
    sc = [l for l in ev["info"] if l.startswith("info score cp ")]
    return bool(sc) and sc[-1] == "info score cp 0"


# ---- C09: table-less search value = exhaustive reference ----------------------------------------------------------

def ref_scripts(tier, seed):
    rng = Rng(seed * 17 + 7)
    n = 40 if tier == "quick" else 600
    blocks = []
    for i in range(n):
        root = SMALL_ROOTS[rng.below(len(SMALL_ROOTS))]
        lines = ["# r%d" % i, "new " + root]
        for _ in range(rng.below(16)):
            lines.append("pick %d" % rng.below(1 << 40))
        lines.append("obs")
        maxd = 3 if tier == "quick" else 4
        for d in range(1, maxd + 1):
            # fresh history, then once more with the history the previous root call left behind
            lines += ["root %d 1 1" % d, "root %d 1 0" % d, "ref %d" % d]
        blocks.append(lines)
    return blocks


WINDOW_ROOTS = SMALL_ROOTS + [
    "n1n5/PPPk4/8/8/8/8/4Kppp/5N1N b - - 0 1", "8/2p5/3p4/KP5r/1R3p1k/8/4P1P1/8 w - - 0 1",
    "7n/pp3pkp/8/8/8/8/PP3PKP/7N w - - 0 1", "n6k/8/8/8/8/8/8/N6K w - - 0 1", "b6k/8/8/8/8/8/8/B6K b - - 0 1",
    "r6k/8/8/8/8/8/8/R6K w - - 0 1", "q6k/8/8/8/8/8/8/Q6K b - - 0 1", "4k3/pppppppp/8/8/8/8/PPPPPPPP/4K3 w - - 0 1",
    "1n2k1n1/8/8/8/8/8/8/1N2K1N1 w - - 0 1", "2b1kb2/8/8/8/8/8/8/2B1KB2 b - - 0 1",
    # promotions where the queen is not the best piece (stalemate tricks, pawn races)
    "8/5P1k/8/6K1/8/8/8/8 b - - 0 1", "6K1/5P2/8/5k2/3Q4/8/8/8 b - - 0 1", "8/1P6/8/5K2/8/8/6kp/8 w - - 0 1",
    "8/6kP/8/5K2/8/8/1p6/8 b - - 0 1", "7k/4P3/6K1/8/8/8/8/8 b - - 0 1", "8/2P5/8/8/8/4k3/p7/2K5 b - - 0 1",
    "8/5P1k/8/6K1/8/8/8/8 w - - 0 1", "8/8/8/8/6k1/8/5p1K/8 b - - 0 1", "6K1/5P2/8/5k2/3Q4/8/8/8 w - - 0 1",
    "8/1P6/8/5K2/8/8/6kp/8 b - - 0 1", "k7/2P5/1K6/8/8/8/8/8 w - - 0 1", "8/8/8/8/8/1k6/2p5/K7 b - - 0 1",
    # the capture-only extension lets a queen retake a new queen but not a new rook: the rook promotion is the best move of the node
    "1Q6/8/8/5K2/8/8/6kp/8 b - - 0 1", "8/6KP/8/8/5k2/8/8/1q6 w - - 0 1", "3Q4/8/8/8/8/2K5/kp6/8 b - - 0 1", "8/PK6/8/8/8/8/6kp/8 b - - 0 1",
]
PROMOTION_ENDINGS = 16   # the last entries of WINDOW_ROOTS: searched to remaining depth 3 in the quick tier as well
DELTAS = [-120, -60, -56, -55, -51, -50, -46, -45, -10, -6, -5, -4, -1, 0, 1, 4, 5, 10, 50, 55, 120]


def window_run(chk, status):
    """C09 at the level of the three search functions: each is called directly (hook entry points) with windows
    placed around the node's exhaustive value, in the real code and in the extracted model; the result must be
    identical and must be bound-consistent with the reference value (SpecR of Proofs/AlphaBeta.v)."""
    rng = Rng(chk.seed * 47 + 37)
    n = len(WINDOW_ROOTS) if chk.tier == "quick" else 400
    key = "win-%s-%d" % (chk.tier, chk.seed)
    pre = []
    for i in range(n):
        root = WINDOW_ROOTS[i % len(WINDOW_ROOTS)]
        lines = ["# w%d" % i, "new " + root]
        for _ in range(rng.below(8) if i >= len(WINDOW_ROOTS) else 0):
            lines.append("pick %d" % rng.below(1 << 40))
        pre.append(lines)
    kinds = [("q", 0), ("d", 1), ("n", 2), ("n", 3)]
    deep_from = len(WINDOW_ROOTS) - PROMOTION_ENDINGS        # remaining depth 3 everywhere in the thorough tier, in the quick tier for the promotion endings
    def kinds_of(bi):
        return [k for k in kinds if k[1] < 3 or chk.tier == "thorough" or deep_from <= bi < len(WINDOW_ROOTS)]
    ph1 = [b + ["obs"] + ["refn %d" % r for (_, r) in kinds_of(bi)] for bi, b in enumerate(pre)]
    refs = cached_run("win-ref", DRIVER, ph1, key, timeout=1800)
    blocks = []
    info = {}
    for b in pre:
        gid = b[0][2:]
        out = refs.get(gid, [])
        vals = [parse_kv(l)[1] for l in out if l.startswith("refn ")]
        fen = next((fen_of_obs(parse_kv(l)[1]) for l in out if l.startswith("obs ")), None)
        bi = int(gid[1:])
        if len(vals) != len(kinds_of(bi)) or fen is None:
            continue
        lines = list(b)
        wins = []
        for (kind, rem), kv in zip(kinds_of(bi), vals):
            v = int(kv["v"])
            if kv.get("blocked") == "1" or abs(v) > MATE_BAND:
                continue
            cand = [(-32767, 32767)]
            for da in DELTAS:
                a = v + da
                cand += [(a, a + 1), (a, 32767), (-32767, a), (a, a + 10), (a - 50, a)]
            for (a, bb) in cand:
                if -32767 <= a < bb <= 32767:
                    lines.append("win %s %d %d %d" % (kind, rem, a, bb))
                    wins.append((kind, rem, a, bb, v))
        info[gid] = (fen, wins)
        blocks.append(lines)
    impl = cached_run("win-impl", HARNESS, blocks, key)
    model = cached_run("win-model", DRIVER, blocks, key, timeout=2400) if status.get("driver") else {}
    dis = diff_runs(blocks, impl, model) if status.get("driver") else []
    fails = []
    count = 0
    boundary = 0
    for blk in blocks:
        gid = blk[0][2:]
        fen, wins = info[gid]
        res = [l for l in impl.get(gid, []) if l.startswith("win ")]
        for (kind, rem, a, bb, v), ln in zip(wins, res):
            count += 1
            if not ln.startswith("win r="):
                fails.append(("the %s search with window (%d, %d) did not return a value in %s: %s" % (kind, a, bb, fen, ln), {"fen": fen, "window": [a, bb], "function": kind, "remaining": rem}))
                continue
            r = int(ln[6:])
            if a <= v <= bb:
                boundary += 1
            if not (min(bb, v) <= r <= max(a, v)):
                fails.append(("%s (remaining depth %d) called with window (%d, %d) in %s returned %d, which is not consistent with the exhaustive value %d of that node (expected between %d and %d)" % (
                    {"q": "the quiescence search", "d": "the depth-1 search", "n": "the search node"}[kind], rem, a, bb, fen, r, v, min(bb, v), max(a, v)),
                    {"fen": fen, "window": [a, bb], "function": kind, "remaining": rem, "returned": r, "exhaustive_value": v}))
    return blocks, impl, dis, fails, {"window_calls": count, "value_inside_window": boundary, "positions": len(blocks)}


MATE_BAND = 9000   # scores beyond this are king-capture / mate scores: compared after clamping


def clamp(v):
    return max(-MATE_BAND, min(MATE_BAND, v))


def check_C09(chk):
    status, broken = common_front(chk)
    if not (status.get("harness_release") and status.get("driver")):
        return finish(chk, broken, [], [], {})
    blocks = ref_scripts(chk.tier, chk.seed)
    key = "ref-%s-%d" % (chk.tier, chk.seed)
    # implementation: root calls; model: root calls and the exhaustive reference
    impl_blocks = [[l for l in b if not l.startswith("ref ")] for b in blocks]
    impl = cached_run("ref-impl", HARNESS, impl_blocks, key)
    model = cached_run("ref-model", DRIVER, blocks, key, timeout=3000)
    model_noref = {g: [l for l in ls if not l.startswith("ref ")] for g, ls in model.items()}
    dis = diff_runs(impl_blocks, impl, model_noref)
    stats = {"trees": 0, "skipped_blocked": 0, "single_reply": 0, "exact": 0, "equal_after_clamp": 0, "depths": {}}
    nontrivial = set()
    nfail = 0
    for blk in blocks:
        gid = blk[0][2:]
        roots = [e for e in parse_search_blocks(impl.get(gid, [])) if e["kind"] == "root"]
        refs = [e for e in parse_search_blocks(model.get(gid, [])) if e["kind"] == "ref"]
        fen = next((fen_of_obs(e["kv"]) for e in parse_search_blocks(impl.get(gid, [])) if e["kind"] == "obs"), None)
        for j, r in enumerate(refs):
            d = j + 1
            pair = roots[2 * j: 2 * j + 2]
            if r["raw"].startswith("ref only"):
                stats["single_reply"] += 1
                continue
            if r["kv"].get("blocked") == "1":
                stats["skipped_blocked"] += 1
                continue
            ref = int(r["kv"]["score"])
            for which, e in zip(("fresh history", "pre-filled history"), pair):
                if "score" not in e["kv"]:
                    continue
                got = int(e["kv"]["score"])
                stats["trees"] += 1
                stats["depths"][str(d)] = stats["depths"].get(str(d), 0) + 1
                if got == ref:
                    stats["exact"] += 1
                elif clamp(got) == clamp(ref):
                    stats["equal_after_clamp"] += 1
                elif nfail < 5:
                    nfail += 1
                    chk.violation("table-less search of depth %d (%s) returned %d but the exhaustive search of the same tree gives %d in %s" % (d, which, got, ref, fen),
                                  {"fen": fen, "depth": d, "history": which, "search": got, "reference": ref, "script": blk[1:],
                                   "kind": "spec-oracle failure on the implementation"})
                if d >= 2 and int(r["kv"].get("moves", "0")) >= 4:
                    nontrivial.add((fen, d, which))
    wblocks, wimpl, wdis, wfails, wstats = window_run(chk, status)
    for what, replay in wfails[:5]:
        if nfail < 5:
            nfail += 1
            chk.violation(what, dict(replay, kind="spec-oracle failure on the implementation"))
    dis = dis + wdis
    stats["windows"] = wstats
    chk.cov["evaluations"] = stats["trees"] + wstats["window_calls"]
    chk.cov["distinct_nontrivial"] = len(nontrivial) + wstats["value_inside_window"]
    chk.cov["rule"] = ("(a) positions of 2-7 men (random legal prefixes from %d small roots); for depth 1..%d the real code's root search runs with the table emptied at every node "
                       "(hook), once with fresh history and once with the history left by the previous call, and is compared with Spec/Negamax.v (exhaustive, unordered, "
                       "no windows) evaluated over the model's game functions. Trees in which the reference meets a blocked node (king present, no move generated at quiescence level) "
                       "are skipped as the property allows; scores beyond +-%d (mate / king capture) are compared after clamping. Non-trivial: depth >= 2 with at least four root moves. "
                       "(b) the quiescence search, the depth-1 search and the interior node (remaining depth 2) are called DIRECTLY through hook entry points with some 150 windows per position placed "
                       "around the node's exhaustive value v (null windows (a, a+1), half-open and narrow windows for a - v in {0, +-1, +-4..6, +-10, +-45..60, +-120}); the real code and the extracted model must "
                       "return the same number and it must lie between min(beta, v) and max(alpha, v) (the bound-consistency relation proved for the model). Non-trivial there: calls whose window contains v.") % (
                           len(SMALL_ROOTS), 3 if chk.tier == "quick" else 4, MATE_BAND)
    chk.cov["input_distribution"] = stats
    chk.cov["samples"] = [{"script": blocks[0][:12], "implementation": impl.get(blocks[0][0][2:], [])[:8], "reference": [l for l in model.get(blocks[0][0][2:], []) if l.startswith("ref ")][:4]}]
    return finish(chk, broken, dis, impl_blocks, impl)


# ---- C10: mates within the horizon; dead roots ----------------------------------------------------------------------

def mate_candidates(tier, seed):
    """positions likely to contain a mate in one or two: K+Q, K+R, two rooks, back-rank patterns"""
    rng = Rng(seed * 19 + 11)
    out = []
    files = "abcdefgh"

    def fen_of(pieces, side):
        grid = [["" for _ in range(8)] for _ in range(8)]
        for (sq, ch) in pieces:
            c = files.index(sq[0])
            r = int(sq[1]) - 1
            if grid[r][c]:
                return None
            grid[r][c] = ch
        rows = []
        for r in range(7, -1, -1):
            s = ""
            e = 0
            for c in range(8):
                if grid[r][c]:
                    if e:
                        s += str(e)
                        e = 0
                    s += grid[r][c]
                else:
                    e += 1
            if e:
                s += str(e)
            rows.append(s)
        return "/".join(rows) + " %s - - 0 1" % side

    n = 400 if tier == "quick" else 6000
    kinds = [["K", "Q", "k"], ["K", "R", "k"], ["K", "R", "R", "k"], ["K", "Q", "k", "p"], ["K", "R", "k", "p", "p", "p"],
             ["k", "q", "K"], ["k", "r", "r", "K"], ["K", "Q", "B", "k", "r"], ["K", "R", "N", "k", "p"]]
    for _ in range(n):
        ks = kinds[rng.below(len(kinds))]
        pcs = []
        edge = rng.chance(3, 4)
        for ch in ks:
            if ch in "kK" and ((ch == "k") == ks[0].isupper()) and edge:
                sq = rng.choice(["a8", "h8", "a1", "h1", "e8", "g8", "b8", "h4", "a5", "d1", "g1", "c8"])
            elif ch in "pP":
                sq = files[rng.below(8)] + str(2 + rng.below(6))
            else:
                sq = files[rng.below(8)] + str(1 + rng.below(8))
            pcs.append((sq, ch))
        side = "w" if ks[0].isupper() else "b"
        f = fen_of(pcs, side)
        if f:
            out.append(f)
    return sorted(set(out))


# mates the random generator does not produce: the key of the mate in two is an under-promotion (the queen stalemates),
# a pawn move, a knight move, a discovered or double check; mates in one by promotion, en passant and castling
FIXED_MATES = [
    "8/5P1k/5K2/8/8/8/8/8 w - - 0 1", "8/k1P5/2K5/8/8/8/8/8 w - - 0 1", "8/8/8/8/8/5k2/5p1K/8 b - - 0 1", "8/8/8/8/8/2k5/K1p5/8 b - - 0 1",
    "7k/5K2/6P1/6P1/8/8/8/8 w - - 0 1", "6k1/5ppp/8/8/8/8/8/R3K3 w Q - 0 1", "5k2/4P1P1/5K2/8/8/8/8/8 w - - 0 1",
    "4k3/8/4K3/8/8/8/8/R6R w - - 0 1", "k7/2P5/1K6/8/8/8/8/8 w - - 0 1", "7k/5P2/6K1/8/8/8/8/8 w - - 0 1",
    "8/8/8/8/8/7k/5Kpp/6R1 w - - 0 1", "5rk1/5ppp/8/8/8/8/1Q6/K6R w - - 0 1",
]


# unique-key mates in two (rook or queen endings; the keys are recomputed by the solver on every run)
HISTORY_ENDINGS = [
    "8/8/8/8/2R5/k7/3K4/8 w - - 0 1", "k7/8/3K4/5Q2/8/8/8/8 w - - 0 1", "k7/8/8/K7/8/8/6R1/8 w - - 0 1", "8/8/8/1R6/8/1K6/8/2k5 w - - 0 1",
    "8/8/1R6/8/2K5/8/8/2k5 w - - 0 1", "4K2k/8/8/8/8/8/8/2Q5 w - - 0 1", "8/8/8/6R1/8/8/k7/2K5 w - - 0 1", "8/8/8/8/8/5K2/1R6/7k w - - 0 1",
    "8/1Q6/8/8/3K4/8/8/k7 w - - 0 1", "8/8/7R/8/8/2K5/k7/8 w - - 0 1", "8/8/8/1R6/3K4/8/8/2k5 w - - 0 1", "7k/8/4K3/8/8/8/8/2Q5 w - - 0 1",
    "8/8/8/8/2K3Q1/8/8/k7 w - - 0 1", "6k1/8/8/4K3/8/7Q/8/8 w - - 0 1",
]
# the repaired defect (fix a0a0e3f): the only mating move equals the move made four plies earlier although no position is
# repeated - a capture, and a quiet move by a second rook after the first was taken on the target square
HISTORY_MATE_IN_ONE = [("5rk1/6pp/8/8/8/8/5r2/K3Q3 b - - 0 1", "f8e8 e1e8 f2f8 e8e1 f8e8"),
                       ("6k1/7p/8/3R2R1/8/8/B7/K7 b - - 0 1", "g8h8 g5g8 h8g8 d5g5 g8h8")]


def _sq(i):
    return "abcdefgh"[i % 8] + str(i // 8 + 1)


def _place(fen):
    rows = fen.split()[0].split("/")
    board = {}
    for ri, row in enumerate(rows):
        f = 0
        for ch in row:
            if ch.isdigit():
                f += int(ch)
            else:
                board[(7 - ri) * 8 + f] = ch
                f += 1
    return board


def _fen_of(board, side):
    rows = []
    for r in range(7, -1, -1):
        row, e = "", 0
        for f in range(8):
            p = board.get(r * 8 + f)
            if p:
                row += (str(e) if e else "") + p
                e = 0
            else:
                e += 1
        rows.append(row + (str(e) if e else ""))
    return "/".join(rows) + " %s - - 0 1" % side


def history_mates(chk, key):
    """games a m b n a (two moves and their reversals, then the first again) that end in a mate-in-two ending: the root's
    repetition filter fires on m. Everything is validated by the RULES (speclast / specmate). Returns a list of
    (fen0, moves, target_fen, keep, m)."""
    b0 = [["# t%d" % i, "speclast | " + t, "specmate 2 | " + t] for i, t in enumerate(HISTORY_ENDINGS)]
    r0 = cached_run("hist-spec0", SPECDRIVER, b0, key, timeout=900)
    cands = []
    for i, t in enumerate(HISTORY_ENDINGS):
        ls = r0.get("t%d" % i, [])
        if len(ls) < 2 or not ls[0].startswith("specply 0 ") or "forced=1" not in ls[1]:
            continue
        legal = [m for m in parse_kv(ls[0])[1].get("legal", "").split(",") if m]
        keep = parse_kv(ls[1])[1]["keep"].split(",")
        board = _place(t)
        y = next(sq for sq, pc in board.items() if pc == "k")
        for m in legal:
            for dx in (-1, 0, 1):
                for dy in (-1, 0, 1):
                    xf, xr = y % 8 + dx, y // 8 + dy
                    if (dx, dy) == (0, 0) or not (0 <= xf < 8 and 0 <= xr < 8):
                        continue
                    x = xr * 8 + xf
                    if x in board:
                        continue
                    b2 = dict(board)
                    del b2[y]
                    b2[x] = "k"
                    a = _sq(x) + _sq(y)
                    mv = [a, m, _sq(y) + _sq(x), m[2:4] + m[0:2], a]
                    cands.append((_fen_of(b2, "b"), " ".join(mv), t, keep, m))
    b1 = [["# h%d" % i, "speclast %s | %s" % (mv, f0)] for i, (f0, mv, t, keep, m) in enumerate(cands)]
    r1 = cached_run("hist-spec1", SPECDRIVER, b1, key, timeout=900)
    good = []
    per = {}
    for i, c in enumerate(cands):
        ls = r1.get("h%d" % i, [])
        if not ls or not ls[0].startswith("specply 5 sane=1"):
            continue
        f0, mv, t, keep, m = c
        if parse_kv(ls[0])[1].get("render", "").replace("_", " ").split(" ")[:2] != t.split(" ")[:2]:
            continue
        kind = (t, m in keep)
        per[kind] = per.get(kind, 0) + 1
        if per[kind] <= (2 if chk.tier == "quick" else 6):
            good.append(c)
    return good


TABLE_MATE_WITNESSES = [
    "8/3R4/8/k2K4/8/8/8/2Q5 w - - 0 1", "B7/5R1K/8/5Q2/7k/8/8/8 w - - 0 1", "8/8/3R1R2/5Q2/3K3k/8/8/8 w - - 0 1", "8/8/1Q6/8/7k/8/Q7/R1K5 w - - 0 1",
    "8/5R2/1K6/5R2/5Q2/7k/8/8 w - - 0 1", "8/3k4/8/KR6/4QR2/8/8/8 w - - 0 1", "1B6/3R4/7K/8/3Q4/8/8/1k6 w - - 0 1", "6k1/8/1R6/8/5K2/4RQ2/8/8 w - - 0 1",
    "7k/8/Q7/8/8/4K3/8/2Q2R2 w - - 0 1", "8/3R4/8/Q5B1/8/8/8/1k5K w - - 0 1",
]
STALEMATES = ["7k/5Q2/6K1/8/8/8/8/8 b - - 0 1", "k7/2Q5/1K6/8/8/8/8/8 b - - 0 1", "5k2/5P2/5K2/8/8/8/8/8 b - - 0 1", "8/8/8/8/8/5k2/5p2/5K2 w - - 0 1",
              "K7/8/1q6/8/8/8/8/5k2 w - - 0 1", "7K/8/5n1k/8/8/8/8/6r1 w - - 0 1"]
SESSION_MATES = [
    "r1b2k1r/ppp1bppp/8/1B1Q4/5q2/2P5/PPP2PPP/R3R1K1 w - - 1 1", "1rb4r/pkPp3p/1b1P3n/1Q6/N3Pp2/8/P1P3PP/7K w - - 1 1",
    "r1bq2r1/b4pk1/p1pp1p2/1p2pP2/1P2P1PB/3P4/1PPQ2P1/R3K2R w - - 0 1", "5rkr/pp2Rp2/1b1p1Pb1/3P2Q1/2n3P1/2p5/P4P2/4R1K1 w - - 1 1",
    "4kb1r/p2n1ppp/4q3/4p1B1/4P3/1Q6/PPP2PPP/2KR4 w k - 1 1",
]


def check_C10(chk):
    status, broken = common_front(chk)
    if not status.get("harness_release"):
        return finish(chk, broken, [], [], {})
    key = "mate-%s-%d" % (chk.tier, chk.seed)
    cands = FIXED_MATES + [f for f in mate_candidates(chk.tier, chk.seed) if f not in FIXED_MATES]
    # the independent solver: sane positions with a mate in one / forced mate in two; dead roots
    b1 = [["# m%d" % i, "spec " + f, "specmate 1 | " + f] for i, f in enumerate(cands)]
    r1 = cached_run("mate-spec1", SPECDRIVER, b1, key)
    sane = []
    for i, f in enumerate(cands):
        ls = r1.get("m%d" % i, [])
        if len(ls) >= 2 and ls[0].startswith("spec ok") and parse_kv(ls[0])[1].get("sane") == "1":
            sane.append((f, parse_kv(ls[1])[1]))
    mate1 = [(f, kv["keep"].split(",")) for f, kv in sane if kv.get("forced") == "1"]
    dead = [f for f, kv in sane if kv.get("dead") == "1"]
    rest = [f for f, kv in sane if kv.get("forced") != "1" and kv.get("dead") != "1"]
    lim2 = 60 if chk.tier == "quick" else 1200
    b2 = [["# n%d" % i, "specmate 2 | " + f] for i, f in enumerate(rest[: lim2 * 6])]
    r2 = cached_run("mate-spec2", SPECDRIVER, b2, key, timeout=3000)
    mate2 = []
    for i, f in enumerate(rest[: lim2 * 6]):
        ls = r2.get("n%d" % i, [])
        if ls and parse_kv(ls[0])[1].get("forced") == "1":
            mate2.append((f, parse_kv(ls[0])[1]["keep"].split(",")))
    mate2 = mate2[:lim2]
    # dead roots met by playouts as well
    blocks = []
    expect = {}
    for i, (f, keep) in enumerate(mate1):
        for d in (3, 4, 0):
            gid = "a%d_%d" % (i, d)
            blocks.append(["# " + gid, "cleartable", "new " + f, "search %d -1 0" % d])
            expect[gid] = ("mate in one", f, keep, d)
    for i, (f, keep) in enumerate(mate2):
        for d in (5, 6):
            gid = "b%d_%d" % (i, d)
            blocks.append(["# " + gid, "cleartable", "new " + f, "search %d -1 0" % d])
            expect[gid] = ("forced mate in two", f, keep, d)
        # the table-less mode of C10_mate_in_two_tableless_partial (hook: the table is emptied at every poll), unlimited: must stop by itself
        gid = "t%d" % i
        blocks.append(["# " + gid, "cleartable", "new " + f, "search 0 -1 1"])
        expect[gid] = ("forced mate in two", f, keep, 0)
    for i, f in enumerate(dead):
        gid = "d%d" % i
        blocks.append(["# " + gid, "cleartable", "new " + f, "search 3 -1 0", "search 0 -1 0"])
        expect[gid] = ("dead", f, [], 3)
    # checkmated roots reached by playing the mating move, and stalemated roots
    for i, (f, keep) in enumerate(mate1):
        gid = "e%d" % i
        blocks.append(["# " + gid, "cleartable", "new " + f, "hist " + keep[0], "search 3 -1 0", "search 0 -1 0"])
        expect[gid] = ("dead", "%s after %s (checkmate)" % (f, keep[0]), [], 3)
    for i, f in enumerate(STALEMATES):
        gid = "s%d" % i
        blocks.append(["# " + gid, "cleartable", "new " + f, "search 3 -1 0", "search 0 -1 0"])
        expect[gid] = ("dead", f + " (stalemate)", [], 3)
    # (e) mates in two in which a position of ply 2 returns at ply 4: a table that holds mate scores counted from the root of the
    # search hands the ply-2 score to the ply-4 node (defect F13, fix d5b26ce; kept as a regression test)
    bw = [["# w%d" % i, "specmate 2 | " + f] for i, f in enumerate(TABLE_MATE_WITNESSES)]
    rw = cached_run("mate-spec-witness", SPECDRIVER, bw, "mate-witness", timeout=900)
    nwit = 0
    for i, f in enumerate(TABLE_MATE_WITNESSES):
        ls = rw.get("w%d" % i, [])
        kv = parse_kv(ls[0])[1] if ls else {}
        if kv.get("forced") != "1":
            continue
        nwit += 1
        for d in (5, 7):
            gid = "w%d_%d" % (i, d)
            blocks.append(["# " + gid, "cleartable", "new " + f, "search %d -1 0" % d])
            expect[gid] = ("forced mate in two", f, kv["keep"].split(","), d, None)
    # (d) the same positions at the end of a game record on which the root's repetition filter fires
    hist = history_mates(chk, key)
    hstats = {"filtered_move_is_key": 0, "filtered_move_is_other": 0, "mate_in_one_records": 0}
    for i, (f0, mv, t, keep, m) in enumerate(hist):
        for d in (5, 6):
            gid = "h%d_%d" % (i, d)
            blocks.append(["# " + gid, "cleartable", "new " + f0] + ["hist " + x for x in mv.split()] + ["search %d -1 0" % d])
            cls = "repetition_filter_removes_key" if keep == [m] else None
            expect[gid] = ("forced mate in two", "%s (reached by '%s' from %s)" % (t, mv, f0), keep, d, cls)
        hstats["filtered_move_is_key" if m in keep else "filtered_move_is_other"] += 1
    for i, (f0, mv) in enumerate(HISTORY_MATE_IN_ONE):
        sp = run_blocks(SPECDRIVER, [["# k", "speclast %s | %s" % (mv, f0)]], nshards=1).get("k", [])
        rend = parse_kv(sp[0])[1].get("render", "").replace("_", " ") if sp and sp[0].startswith("specply 5 sane=1") else None
        if rend is None:
            continue
        t = " ".join(rend.split(" ")[:4]) + " 0 1"
        sm = run_blocks(SPECDRIVER, [["# k", "specmate 1 | " + t]], nshards=1).get("k", [])
        if not sm or "forced=1" not in sm[0]:
            continue
        hstats["mate_in_one_records"] += 1
        for d in (3, 5):
            gid = "c%d_%d" % (i, d)
            blocks.append(["# " + gid, "cleartable", "new " + f0] + ["hist " + x for x in mv.split()] + ["search %d -1 0" % d])
            expect[gid] = ("mate in one", "%s (reached by '%s' from %s)" % (t, mv, f0), parse_kv(sm[0])[1]["keep"].split(","), d, None)
    impl = cached_run("mate-impl", HARNESS, blocks, key, timeout=1200)
    model = cached_run("mate-model", DRIVER, blocks, key, timeout=3000) if status.get("driver") else {}
    dis = diff_runs(blocks, impl, model) if status.get("driver") else []
    stats = {"candidates": len(cands), "sane": len(sane), "mate_in_one": len(mate1), "mate_in_two": len(mate2), "dead_roots": len(dead) + len(mate1) + len(STALEMATES),
             "stopped_by_itself_on_mate": 0, "game_records_with_repetition_filter": hstats, "table_transposition_mates": nwit}
    nfail = 0
    for blk in blocks:
        gid = blk[0][2:]
        what, f, keep, d = expect[gid][:4]
        cls = expect[gid][4] if len(expect[gid]) > 4 else None
        for ev in parse_search_blocks(impl.get(gid, [])):
            if ev["kind"] == "crash" and nfail < 5:
                nfail += 1
                chk.violation("the search crashed: %s" % ev["raw"], {"fen": f, "script": blk[1:], "kind": "crash of the implementation"})
            if ev["kind"] != "search":
                continue
            bad = None
            if what == "dead":
                if ev["best"] != "none":
                    bad = "the engine announced %s in a position without legal moves" % ev["best"]
            else:
                depths = [int(l.split()[2]) for l in ev["info"] if l.startswith("info depth ")]
                if ev["best"] not in keep:
                    bad = "with a %s on the board a depth-%s search from a fresh table played %s, which loses the mate (mating moves: %s)" % (
                        what, d if d else "unlimited", ev["best"], ",".join(keep))
                elif d == 0 and depths and depths[-1] > 12:
                    bad = "the unlimited search did not stop by itself on the mate (reached depth %d)" % depths[-1]
                elif d == 0:
                    stats["stopped_by_itself_on_mate"] += 1
            if bad and cls:
                # known finding C10-K1: the unique key is the quiet move the repetition filter removes
                chk.violation(bad + " (%s)" % f, {"fen": f, "script": blk[1:], "answer": ev["best"], "class": cls, "kind": "spec-oracle failure on the implementation (known class)"})
            elif bad and nfail < 5:
                nfail += 1
                chk.violation(bad + " (%s)" % f, {"fen": f, "script": blk[1:], "answer": ev["best"], "kind": "spec-oracle failure on the implementation"})
    # (c) the same demand of the real binary inside a session: middlegame mates in two searched with `go depth 8` after an
    # earlier timed search of another position that ended before its budget (nothing of that go may reach into this one)
    sess = 0
    if status.get("engine"):
        import uci
        bm = [["# u%d" % i, "specmate 2 | " + f] for i, f in enumerate(SESSION_MATES)]
        rm = cached_run("mate-spec-session", SPECDRIVER, bm, "mate-session", timeout=900)
        for i, f in enumerate(SESSION_MATES):
            ls = rm.get("u%d" % i, [])
            kv = parse_kv(ls[0])[1] if ls else {}
            if kv.get("forced") != "1":
                continue
            keep = kv["keep"].split(",")
            for ms in [None] + list(range(2, 26, 2 if chk.tier == "quick" else 1)):
                prefix = [] if ms is None else ["ucinewgame", "position fen 6k1/5ppp/8/8/8/8/8/R3K3 w Q - 0 1", "go movetime %d" % ms, "wait", "ucinewgame"]
                lines, ok, rc = uci.go_transcript("position fen " + f, "go depth 8", prefix=prefix, timeout=120)
                sess += 1
                best = next((l.split()[1] for l in lines if l.startswith("bestmove") and len(l.split()) > 1), "?")
                scores = [int(l.split()[3]) for l in lines if l.startswith("info score cp ")]
                bad = None
                if not ok:
                    bad = "go depth 8 did not produce a bestmove"
                elif best not in keep:
                    bad = "with a forced mate in two on the board go depth 8 played %s, which loses the mate (mating moves: %s)" % (best, ",".join(keep))
                elif not scores or scores[-1] < 32767 - 1000:
                    bad = "go depth 8 ended with score %s: the forced mate in two (within the horizon) was not reported" % (scores[-1] if scores else "none")
                if bad and nfail < 5:
                    nfail += 1
                    chk.violation(bad + " (%s, session prefix %s)" % (f, prefix), {"fen": f, "session": prefix + ["position fen " + f, "go depth 8"], "answer": best, "output": lines[-8:],
                                                                                    "kind": "spec-oracle failure on the implementation"})
    stats["session_mate_searches"] = sess
    chk.cov["evaluations"] = len(blocks) + sess
    chk.cov["distinct_nontrivial"] = 2 * len(mate1) + len(mate2) + len(dead) + len(STALEMATES) + len(hist) + (len(SESSION_MATES) if sess else 0)
    chk.cov["rule"] = ("(c) %d sessions of the real binary: five middlegame mates in two (keeping moves from the same solver) searched with go depth 8 from a fresh engine and after a timed go of "
                       "another position that ended before its budget (budgets swept over 2..25 ms): the move must keep the mate and the last score must be a mate score. (a, b) " % sess) + (
                       "%d generated positions (K+Q, K+R, two rooks, mixed; defending king biased to the edge); the extracted Rules.forced_mate_in finds the sane ones with a mate "
                       "in one or a forced mate in two and the moves that keep it, and the dead roots. The real code searches from a fresh table to depth 3, 4 and unlimited (mate in one), "
                       "5 and 6 (mate in two), and its move must be one of the keeping moves; the unlimited search must stop by itself; dead roots must give 'none'. "
                       "Non-trivial: each mate / dead position. (d) the unique-key mate-in-two endings at the end of game records a m b n a (validated by the rules) on which the root's "
                       "repetition filter fires, m being the key or another move, and the two repaired mate-in-one records (the move of four plies ago is the only mate and repeats nothing).") % len(cands)
    chk.cov["input_distribution"] = stats
    if blocks:
        chk.cov["samples"] = [{"script": blocks[0], "expected_moves": expect[blocks[0][0][2:]][2], "implementation": impl.get(blocks[0][0][2:], [])[:12]}]
    else:
        chk.cov["samples"] = ["no mate position generated"]
    return finish(chk, broken, dis, blocks, impl)


# ---- C19: reproducibility of the real binary ---------------------------------------------------------------------

def check_C19(chk):
    import subprocess
    import uci
    status, broken = common_front(chk)
    if not status.get("engine"):
        return finish(chk, broken, [], [], {})
    rng = Rng(chk.seed * 23 + 13)
    npos = 6 if chk.tier == "quick" else 40
    reps = 6 if chk.tier == "quick" else 16
    cases = []
    pool = ROOTS[:40] + SMALL_ROOTS
    for i in range(npos):
        cases.append((pool[rng.below(len(pool))], 3 + rng.below(3)))
    prefixes = [
        [],
        ["position startpos", "go infinite", "@sleep 300", "ucinewgame"],          # reset while a search is still running
        ["position startpos moves e2e4 e7e5", "go depth 4", "wait", "ucinewgame"],
        ["position fen 8/8/8/4k3/8/8/8/KQ6 w - - 0 1", "go depth 5", "wait", "position startpos", "go depth 3", "wait", "ucinewgame"],
        ["isready", "position startpos", "go movetime 40", "wait", "ucinewgame", "ucinewgame"],
    ]
    # background load on every core for half of the repetitions
    burners = []

    def start_load():
        for _ in range(lib.NPROC):
            burners.append(subprocess.Popen(["sh", "-c", "while :; do :; done"], stdout=subprocess.DEVNULL, stderr=subprocess.DEVNULL))

    def stop_load():
        for b in burners:
            b.kill()
        burners.clear()

    # a timed go whose search ended long before its timer: the sleeping timer must not touch later searches
    stale = ["position startpos", "go depth 1 movetime 700", "wait", "ucinewgame"]
    slow_case = ("r3k2r/p1ppqpb1/bn2pnp1/3PN3/1p2P3/2N2Q1p/PPPBBPPP/R3K2R w KQkq - 0 1", 7 if chk.tier == "quick" else 8)
    nfail = 0
    stats = {"positions": npos, "runs": 0, "with_load": 0, "with_prefix": 0, "env_sizes": []}
    model_blocks = []
    transcripts = {}
    try:
        for ci, (fen, d) in enumerate(cases):
            ref = None
            for r in range(reps):
                env = {"VERIF_PAD": "x" * (37 * r * r)}       # shifts the stack / environment block
                prefix = prefixes[r % len(prefixes)]
                load = (r % 2 == 1)
                if load and not burners:
                    start_load()
                if not load and burners:
                    stop_load()
                pre = None
                if r % 3 == 2:
                    mask = hex(1 << (r % lib.NPROC))[2:]
                    pre = None
                    cmdprefix = ["taskset", mask]
                lines, ok, rc = uci.go_transcript("position fen " + fen, "go depth %d" % d, env=env, prefix=prefix, timeout=120)
                stats["runs"] += 1
                stats["with_load"] += int(load)
                stats["with_prefix"] += int(bool(prefix))
                # only the part after the prefix's output: the transcript of the last go
                tail = [l for l in lines if not l.startswith("info time") and l != "readyok"]
                if not ok and nfail < 5:
                    nfail += 1
                    chk.violation("go depth %d on %s did not produce a bestmove (run %d)" % (d, fen, r), {"fen": fen, "depth": d, "lines": lines[-10:], "kind": "spec-oracle failure on the implementation"})
                    continue
                if ref is None:
                    ref = tail
                    transcripts[ci] = tail
                elif tail != ref and nfail < 5:
                    nfail += 1
                    k = next((j for j in range(min(len(tail), len(ref))) if tail[j] != ref[j]), min(len(tail), len(ref)))
                    chk.violation("go depth %d on %s gave different output in run %d (prefix %s, load %s): line %d '%s' vs '%s'" % (
                        d, fen, r, bool(prefix), load, k, tail[k] if k < len(tail) else "<end>", ref[k] if k < len(ref) else "<end>"),
                        {"fen": fen, "depth": d, "run": r, "prefix": prefix, "first": ref, "this": tail, "kind": "spec-oracle failure on the implementation"})
            model_blocks.append(["# c%d" % ci, "cleartable", "new " + fen, "search %d -1 0" % d])
    finally:
        stop_load()
    try:
        fen, d = slow_case
        t0 = time.time()
        ref_lines, ok1, _ = uci.go_transcript("position fen " + fen, "go depth %d" % d, timeout=300)
        dur = time.time() - t0
        got_lines, ok2, _ = uci.go_transcript("position fen " + fen, "go depth %d" % d, prefix=stale, timeout=300)
        stats["stale_timer_case"] = {"depth": d, "search_s": round(dur, 2)}
        stats["runs"] += 2
        a = [l for l in ref_lines if not l.startswith("info time") and l != "readyok"]
        b = [l for l in got_lines if not l.startswith("info time") and l != "readyok"]
        if (a != b or not ok1 or not ok2) and nfail < 5:
            nfail += 1
            k = next((j for j in range(min(len(a), len(b))) if a[j] != b[j]), min(len(a), len(b)))
            chk.violation("go depth %d on %s gives different output after the prefix %s (a timed search that ended before its timer) than on a fresh engine: line %d '%s' vs '%s'" % (
                d, fen, stale, k, b[k] if k < len(b) else "<end>", a[k] if k < len(a) else "<end>"),
                {"fen": fen, "depth": d, "prefix": stale, "fresh": a[-6:], "after_prefix": b[-6:], "kind": "spec-oracle failure on the implementation"})
    finally:
        stop_load()
    # the model's transcript for the same (position, depth)
    dis = []
    if status.get("driver"):
        model = cached_run("repro-model", DRIVER, model_blocks, "repro-%s-%d" % (chk.tier, chk.seed), timeout=2400)
        for ci, blk in enumerate(model_blocks):
            m = [l for l in model.get("c%d" % ci, []) if l.startswith("info ")]
            best = [l for l in model.get("c%d" % ci, []) if l.startswith("best ")]
            m.append("bestmove " + (best[0].split()[1] if best else "?"))
            got = [l.rstrip() for l in transcripts.get(ci, [])]
            m = [l.rstrip() for l in m]
            if got != m and ci in transcripts:
                k = next((j for j in range(min(len(got), len(m))) if got[j] != m[j]), min(len(got), len(m)))
                dis.append({"game": "c%d" % ci, "line": k, "impl": got[k] if k < len(got) else "<end>", "model": m[k] if k < len(m) else "<end>", "script": blk[1:]})
    if status.get("driver"):
        sdis, sstats = session_correspondence(chk)
        dis = dis + sdis
        stats["session_model"] = sstats
    chk.cov["evaluations"] = stats["runs"] + stats.get("session_model", {}).get("commands", 0)
    chk.cov["distinct_nontrivial"] = len(transcripts) * 2
    chk.cov["rule"] = ("%d (position, depth 3-5) pairs, each run %d times on the real binary in a fresh process: alternating with and without busy loops on all %d cores, with "
                       "growing environment blocks (stack/heap layout), and after command prefixes that search other positions and end in ucinewgame. All transcripts of the final go "
                       "(info depth/score/nodes/pv, bestmove) must be identical, and identical to the extracted model's transcript from an empty table. "
                       "Non-trivial: every pair (all have multi-iteration searches). In addition random sequential sessions (position with legal, illegal and garbage moves, valid and "
                       "malformed FEN, go depth, show, ucinewgame, isready, uci) are run on the binary and through the extracted Model/Session.v: every output line must agree.") % (npos, reps, lib.NPROC)
    chk.cov["input_distribution"] = stats
    chk.cov["samples"] = [{"position": cases[0][0], "depth": cases[0][1], "transcript": transcripts.get(0, [])[:12]}]
    return finish(chk, broken, dis, model_blocks, {"x": ["y"] * stats["runs"]})


TESTING_GAME = ("g1f3 g8f6 c2c4 g7g6 b1c3 f8g7 d2d4 e8g8 c1f4 d7d5 d1b3 d5c4 b3c4 c7c6 e2e4 b8d7 a1d1 d7b6 c4c5 c8g4 f4g5 b6a4 c5a3 a4c3 "
                "b2c3 f6e4 g5e7 d8b6 f1c4 e4c3 e7c5 f8e8 e1f1 g4e6 c5b6 e6c4 f1g1 c3e2 g1f1 e2d4 f1g1 d4e2 g1f1 e2c3 f1g1 a7b6 a3b4 a8a4").split()


def session_lines(rng, n):
    """a sequential UCI session (every go is followed by wait): list of command lines"""
    out = []
    for _ in range(n):
        r = rng.below(100)
        if r < 30:
            k = rng.below(len(TESTING_GAME))
            mv = TESTING_GAME[:k]
            if rng.chance(1, 5):
                mv = mv + [rng.choice(["e2e5", "zzzz", "a1a1", "e1g1", "h7h8q", "e7e8Q", "b1c3x"])] + TESTING_GAME[k:k + 2]
            out.append("position startpos" + (" moves " + " ".join(mv) if mv or rng.chance(1, 2) else ""))
        elif r < 45:
            f = rng.choice(ROOTS[:30] + SMALL_ROOTS)
            out.append("position fen " + f + rng.choice(["", "", " moves", " moves e2e4", " moves a7a8q"]))
        elif r < 52:
            out.append(rng.choice(["position fen 8/8/8/8/8/8/54/4K2k w - -", "position fen rubbish", "position", "position startpos e2e4",
                                   "position fen rnbqkbnr/pppppppp/8/8/8/8/PPPPPPPP/RNBQKBNR w KQkq - 0 1 moves e2e4 moves e7e5",
                                   "position startpos x moves e2e4"]))
        elif r < 78:
            out.append("go depth %d" % (1 + rng.below(3)))
        elif r < 88:
            out.append("show")
        elif r < 93:
            out.append("ucinewgame")
        elif r < 98:
            out.append("isready")
        else:
            out.append("uci")
    return out


def norm_lines(lines):
    # anyhow's {:?} output of a FEN error continues with "Caused by:", the cause and possibly a backtrace: not modelled
    return [l.rstrip() for l in lines if l.strip() and not l.startswith("Caused by") and not l.startswith("Stack backtrace")
            and not (l.startswith(" ") and not l.startswith("   a b c")) and not l.startswith("info time")]


def session_correspondence(chk):
    """ties Model/Session.v (command handling of uci.rs, proved in Proofs/SessionProofs.v) to the real binary"""
    import uci
    rng = Rng(chk.seed * 53 + 41)
    nsess = 10 if chk.tier == "quick" else 120
    dis = []
    total = 0
    blocks = []
    got_all = {}
    for i in range(nsess):
        cmds = session_lines(rng, 8 + rng.below(10))
        eng = uci.Engine()
        got = []
        try:
            for c in cmds:
                eng.send(c)
                if c.startswith("go"):
                    eng.send("wait")
            want = sum(1 for c in cmds if c == "isready") + 1
            eng.send("isready")
            seen = [0]

            def last_ready(l):
                if l == "readyok":
                    seen[0] += 1
                return seen[0] >= want
            got, ok = eng.read_until(last_ready, 180)
            eng.quit()
        finally:
            eng.kill()
        got = norm_lines(got)
        if got and got[-1] == "readyok":
            got = got[:-1]
        got_all[i] = got
        blocks.append(["# z%d" % i, "ucireset"] + ["uci " + c for c in cmds])
        total += len(cmds)
    model = run_blocks(DRIVER, blocks, timeout=1800)
    for i, blk in enumerate(blocks):
        m = norm_lines([l for l in model.get("z%d" % i, []) if l != "ucireset ok"])
        g = got_all[i]
        if g != m:
            k = next((j for j in range(min(len(g), len(m))) if g[j] != m[j]), min(len(g), len(m)))
            dis.append({"game": "z%d" % i, "line": k, "impl": g[k] if k < len(g) else "<end>", "model": m[k] if k < len(m) else "<end>",
                        "script": [l[4:] for l in blk[2:]]})
    return dis, {"sessions": nsess, "commands": total}


CHECKS = {"C06": check_C06, "C07": check_C07, "C08": check_C08, "C09": check_C09, "C10": check_C10,
          "C18": check_C18, "C19": check_C19}
