//! Correspondence harness: compiles the engine sources of /repo as they are now
//! (with `--cfg daniel729_chess_verif`) and executes one command per input line,
//! printing canonical result lines. The OCaml driver (extracted Coq model) implements
//! exactly the same protocol; see DESIGN.md appendix B.
#![allow(dead_code, unused_imports, unexpected_cfgs, clippy::all)]

#[path = "/repo/src/chess/mod.rs"]
mod chess;
#[path = "/repo/src/constants.rs"]
mod constants;
#[path = "/repo/src/search.rs"]
mod search;
#[path = "/repo/src/verif_hooks.rs"]
mod verif_hooks;

use arrayvec::ArrayVec;
use chess::move_struct::Move;
use chess::{Game, Player};
use nohash_hasher::BuildNoHashHasher;
use search::TranspositionTable;
use std::collections::HashMap;
use std::io::{BufRead, Write};
use std::panic::{catch_unwind, AssertUnwindSafe};
use std::sync::atomic::{AtomicBool, Ordering::SeqCst};

struct Session {
    last_best: Option<Move>,
    game: Option<Game>,
    table: TranspositionTable,
    pushed: Vec<Move>,
    history: [u16; 64 * 12],
}

fn sq(row: i8, col: i8) -> String {
    format!("{}{}", (b'a' + col as u8) as char, (b'1' + row as u8) as char)
}

/// Canonical description of a move value (all fields)
fn describe(m: &Move) -> String {
    match m {
        Move::Normal {
            piece,
            start,
            end,
            captured_piece,
        } => format!(
            "N:{}{}{}{}",
            piece.as_char_ascii(),
            sq(start.row(), start.col()),
            sq(end.row(), end.col()),
            captured_piece.map(|p| p.as_char_ascii()).unwrap_or('-')
        ),
        Move::Promotion {
            owner,
            new_piece,
            start,
            end,
            captured_piece,
        } => format!(
            "P:{}{}{}{}{}",
            if *owner == Player::White { 'w' } else { 'b' },
            *new_piece as usize,
            sq(start.row(), start.col()),
            sq(end.row(), end.col()),
            captured_piece.map(|p| p.as_char_ascii()).unwrap_or('-')
        ),
        Move::CastlingShort { owner } => {
            format!("CS:{}", if *owner == Player::White { 'w' } else { 'b' })
        }
        Move::CastlingLong { owner } => {
            format!("CL:{}", if *owner == Player::White { 'w' } else { 'b' })
        }
        Move::EnPassant {
            owner,
            start_col,
            end_col,
        } => format!(
            "EP:{}{}{}",
            if *owner == Player::White { 'w' } else { 'b' },
            start_col,
            end_col
        ),
    }
}

fn is_rare(m: &Move) -> bool {
    !matches!(m, Move::Normal { .. })
}

fn moves_of(game: &mut Game, verify: bool) -> Vec<Move> {
    let mut moves = ArrayVec::new();
    game.get_moves(&mut moves, verify);
    moves.iter().copied().collect()
}

fn obs(game: &Game) -> String {
    let wk = game.get_king_position(Player::White);
    let bk = game.get_king_position(Player::Black);
    format!(
        "fen={} hash={:016x} score={} kings={}{} len={} side={}",
        game.fen().replace(' ', "_"),
        game.hash(),
        game.score(),
        sq(wk.row(), wk.col()),
        sq(bk.row(), bk.col()),
        game.len(),
        if game.player() == Player::White { 'w' } else { 'b' }
    )
}

fn hex(s: &str) -> String {
    s.bytes().map(|b| format!("{:02x}", b)).collect()
}

fn full_state(game: &mut Game) -> String {
    let checked: Vec<String> = moves_of(game, true).iter().map(describe).collect();
    let unchecked: Vec<String> = moves_of(game, false).iter().map(describe).collect();
    format!(
        "{} | {} | {} | {}",
        game.verif_dump(),
        obs(game),
        checked.join(","),
        unchecked.join(",")
    )
}

fn run(sess: &mut Session, line: &str, out: &mut impl Write) {
    let mut it = line.splitn(2, ' ');
    let cmd = it.next().unwrap_or("");
    let rest = it.next().unwrap_or("").trim();
    macro_rules! game {
        () => {
            match sess.game.as_mut() {
                Some(g) => g,
                None => {
                    writeln!(out, "{} nogame", cmd).unwrap();
                    return;
                }
            }
        };
    }
    match cmd {
        "new" => {
            sess.pushed.clear();
            match catch_unwind(|| Game::new(rest)) {
                Ok(Ok(g)) => {
                    sess.game = Some(g);
                    writeln!(out, "new ok").unwrap();
                }
                Ok(Err(_)) => {
                    sess.game = None;
                    writeln!(out, "new err").unwrap();
                }
                Err(_) => {
                    sess.game = None;
                    writeln!(out, "new panic").unwrap();
                }
            }
        }
        "obs" => {
            let g = game!();
            writeln!(out, "obs {}", obs(g)).unwrap();
        }
        "dump" => {
            let g = game!();
            writeln!(out, "dump {}", g.verif_dump()).unwrap();
        }
        "gen" => {
            let g = game!();
            let checked: Vec<String> = moves_of(g, true).iter().map(|m| m.uci_notation()).collect();
            let unchecked: Vec<String> =
                moves_of(g, false).iter().map(|m| m.uci_notation()).collect();
            writeln!(
                out,
                "gen checked={} unchecked={}",
                checked.join(","),
                unchecked.join(",")
            )
            .unwrap();
        }
        "gend" => {
            // full move values, generation order
            let g = game!();
            let checked: Vec<String> = moves_of(g, true).iter().map(describe).collect();
            let unchecked: Vec<String> = moves_of(g, false).iter().map(describe).collect();
            writeln!(
                out,
                "gend checked={} unchecked={}",
                checked.join(","),
                unchecked.join(",")
            )
            .unwrap();
        }
        "pick" => {
            // choose a legal move by a rule both sides implement, play it into the record
            let g = game!();
            let r: u64 = rest.parse().unwrap_or(0);
            let mut moves = moves_of(g, true);
            moves.sort_by_cached_key(|m| m.uci_notation());
            if moves.is_empty() {
                writeln!(out, "pick none").unwrap();
                return;
            }
            let rare: Vec<Move> = moves.iter().copied().filter(is_rare).collect();
            let m = if (r >> 20) % 3 == 0 && !rare.is_empty() {
                rare[(r % rare.len() as u64) as usize]
            } else {
                moves[(r % moves.len() as u64) as usize]
            };
            g.push_history(m);
            writeln!(out, "pick {}", m.uci_notation()).unwrap();
        }
        "hist" => {
            let g = game!();
            let moves = moves_of(g, true);
            match moves.iter().find(|m| m.uci_notation() == rest) {
                Some(m) => {
                    g.push_history(*m);
                    writeln!(out, "hist ok {}", rest).unwrap();
                }
                None => writeln!(out, "hist bad").unwrap(),
            }
        }
        "push" => {
            let g = game!();
            let moves = moves_of(g, false);
            match moves.iter().find(|m| m.uci_notation() == rest) {
                Some(m) => {
                    g.push(*m);
                    sess.pushed.push(*m);
                    writeln!(out, "push ok").unwrap();
                }
                None => writeln!(out, "push bad").unwrap(),
            }
        }
        "pop" => {
            let g = game!();
            match sess.pushed.pop() {
                Some(m) => {
                    g.pop(m);
                    writeln!(out, "pop ok").unwrap();
                }
                None => writeln!(out, "pop bad").unwrap(),
            }
        }
        "pp" => {
            // the property of C03, checked directly: every unchecked move pushed and popped,
            // both generators and the FEN export are pure
            let g = game!();
            let before = full_state(g);
            let moves = moves_of(g, false);
            let mut bad = String::from("-");
            for m in &moves {
                g.push(*m);
                // one level of nesting below, as a search does
                let inner = moves_of(g, false);
                for m2 in inner.iter().take(4) {
                    g.push(*m2);
                    g.pop(*m2);
                }
                g.pop(*m);
                if bad == "-" && full_state(g) != before {
                    bad = m.uci_notation();
                }
            }
            let _ = g.fen();
            let after_queries = full_state(g);
            if bad == "-" && after_queries != before {
                bad = String::from("query");
            }
            writeln!(out, "pp moves={} bad={}", moves.len(), bad).unwrap();
        }
        "collide" => {
            // collide <depth>: all positions of the legal-move tree to that depth; distinct positions
            // (FEN fields 1-4) must have distinct hashes
            let g = game!();
            let depth: u32 = rest.trim().parse().unwrap_or(2);
            let mut by_hash: HashMap<u64, String> = HashMap::new();
            let mut nodes: u64 = 0;
            let mut collision: Option<(String, String)> = None;
            fn walk(
                g: &mut Game,
                d: u32,
                by_hash: &mut HashMap<u64, String>,
                nodes: &mut u64,
                collision: &mut Option<(String, String)>,
            ) {
                *nodes += 1;
                let fen = g.fen();
                let f14: String = fen.split(' ').take(4).collect::<Vec<_>>().join(" ");
                match by_hash.get(&g.hash()) {
                    Some(prev) => {
                        if *prev != f14 && collision.is_none() {
                            *collision = Some((prev.clone(), f14));
                        }
                    }
                    None => {
                        by_hash.insert(g.hash(), f14);
                    }
                }
                if d == 0 {
                    return;
                }
                for m in moves_of(g, true) {
                    g.push(m);
                    walk(g, d - 1, by_hash, nodes, collision);
                    g.pop(m);
                }
            }
            walk(g, depth, &mut by_hash, &mut nodes, &mut collision);
            writeln!(
                out,
                "collide nodes={} distinct={} collision={}",
                nodes,
                by_hash.len(),
                match collision {
                    Some((a, b)) => format!("{}|{}", a.replace(' ', "_"), b.replace(' ', "_")),
                    None => String::from("none"),
                }
            )
            .unwrap();
        }
        "imp" => {
            // export the position as text and read that text back: the re-imported game's observables
            let g = game!();
            let text = g.fen();
            match catch_unwind(|| Game::new(&text)) {
                Ok(Ok(mut g2)) => {
                    let checked: Vec<String> = moves_of(&mut g2, true).iter().map(|m| m.uci_notation()).collect();
                    writeln!(out, "imp ok {} checked={}", obs(&g2), checked.join(",")).unwrap();
                }
                Ok(Err(_)) => writeln!(out, "imp err text={}", text.replace(' ', "_")).unwrap(),
                Err(_) => writeln!(out, "imp panic text={}", text.replace(' ', "_")).unwrap(),
            }
        }
        "parse" => {
            let g = game!();
            let text = rest;
            match Move::from_uci_notation(text, g) {
                Some(m) => {
                    let legal = moves_of(g, true).iter().any(|x| *x == m);
                    writeln!(out, "parse {} legal={}", describe(&m), legal as u8).unwrap();
                }
                None => writeln!(out, "parse none legal=0").unwrap(),
            }
        }
        "pgn" => {
            let g = game!();
            writeln!(out, "pgn {}", hex(&g.get_pgn())).unwrap();
        }
        "show" => {
            let g = game!();
            writeln!(out, "show {}", hex(&format!("{}", g))).unwrap();
        }
        "cleartable" => {
            sess.table.clear();
            sess.history = [0; 64 * 12];
            writeln!(out, "cleartable ok").unwrap();
        }
        "search" => {
            // search <depth|0> <stop_at|-1> <tableless 0|1>
            let g = game!();
            let a: Vec<i64> = rest
                .split_ascii_whitespace()
                .map(|x| x.parse().unwrap_or(0))
                .collect();
            let depth = a.first().copied().unwrap_or(1);
            let stop_at = a.get(1).copied().unwrap_or(-1);
            let tableless = a.get(2).copied().unwrap_or(0) != 0;
            let flag = AtomicBool::new(true);
            verif_hooks::reset(stop_at, tableless);
            out.flush().unwrap();
            let max_depth = if depth > 0 { Some(depth as u8) } else { None };
            let best = search::get_best_move_until_stop(g, &mut sess.table, &flag, max_depth);
            std::io::stdout().flush().unwrap();
            sess.last_best = best;
            writeln!(
                out,
                "best {} polls={} after={} table={}",
                best.map(|m| m.uci_notation()).unwrap_or(String::from("none")),
                verif_hooks::POLLS.load(SeqCst),
                verif_hooks::POLLS_AFTER_STOP.load(SeqCst),
                sess.table.len()
            )
            .unwrap();
            verif_hooks::reset(-1, false);
        }
        "playbest" => {
            // play the move the last `search` announced into the game record (if it is legal)
            let best = sess.last_best;
            let g = game!();
            let moves = moves_of(g, true);
            match best {
                Some(m) if moves.iter().any(|x| *x == m) => {
                    g.push_history(m);
                    writeln!(out, "playbest {}", m.uci_notation()).unwrap();
                }
                Some(m) => writeln!(out, "playbest illegal {}", m.uci_notation()).unwrap(),
                None => writeln!(out, "playbest none").unwrap(),
            }
        }
        "win" => {
            // win <q|d|n> <remaining> <alpha> <beta>: one search function called directly with a window (table-less)
            let g = game!();
            let a: Vec<&str> = rest.split_ascii_whitespace().collect();
            let kind = a.first().copied().unwrap_or("q");
            let rem: u8 = a.get(1).and_then(|x| x.parse().ok()).unwrap_or(0);
            let alpha: i16 = a.get(2).and_then(|x| x.parse().ok()).unwrap_or(-32767);
            let beta: i16 = a.get(3).and_then(|x| x.parse().ok()).unwrap_or(32767);
            let flag = AtomicBool::new(true);
            verif_hooks::reset(-1, true);
            sess.table.clear();
            let r = match kind {
                "q" => Some(search::verif_entry::quiescence(g, alpha, beta, 1)),
                "d" => Some(search::verif_entry::depth_1(g, alpha, beta, 1)),
                _ => search::verif_entry::node(g, &mut sess.table, &flag, rem, 1, alpha, beta),
            };
            sess.table.clear();
            verif_hooks::reset(-1, false);
            match r {
                Some(v) => writeln!(out, "win r={}", v).unwrap(),
                None => writeln!(out, "win aborted").unwrap(),
            }
        }
        "root" => {
            // root <depth> <tableless 0|1> <fresh history 0|1>: one call of the root search
            let g = game!();
            let a: Vec<i64> = rest
                .split_ascii_whitespace()
                .map(|x| x.parse().unwrap_or(0))
                .collect();
            let depth = a.first().copied().unwrap_or(1).max(1) as u8;
            let tableless = a.get(1).copied().unwrap_or(0) != 0;
            if a.get(2).copied().unwrap_or(1) != 0 {
                sess.history = [0; 64 * 12];
            }
            if tableless {
                sess.table.clear();
            }
            let flag = AtomicBool::new(true);
            verif_hooks::reset(-1, tableless);
            let r = search::get_best_move_entry(
                g.clone(),
                &flag,
                depth,
                &mut sess.table,
                &mut sess.history,
            );
            match r {
                Some((m, score, only)) => writeln!(
                    out,
                    "root move={} score={} only={} polls={}",
                    m.map(|m| m.uci_notation()).unwrap_or(String::from("none")),
                    score,
                    only as u8,
                    verif_hooks::POLLS.load(SeqCst)
                )
                .unwrap(),
                None => writeln!(out, "root aborted").unwrap(),
            }
            verif_hooks::reset(-1, false);
        }
        "tables" => {
            write!(out, "{}", chess::verif_hooks::verif_dump_tables()).unwrap();
            writeln!(out, "tables end").unwrap();
        }
        "" => {}
        _ => writeln!(out, "{} unknown", cmd).unwrap(),
    }
}

fn main() {
    std::panic::set_hook(Box::new(|info| {
        if std::env::var_os("VERIF_PANIC_TRACE").is_some() {
            eprintln!("panic: {}", info);
        }
    }));
    let mut sess = Session {
        last_best: None,
        game: None,
        table: HashMap::with_capacity_and_hasher(1 << 16, BuildNoHashHasher::default()),
        pushed: Vec::new(),
        history: [0; 64 * 12],
    };
    let stdin = std::io::stdin();
    for line in stdin.lock().lines() {
        let line = line.unwrap();
        let line = line.trim_end_matches(['\r', '\n']).to_string();
        if let Some(tag) = line.strip_prefix("# ") {
            println!("# {}", tag);
            continue;
        }
        let result = catch_unwind(AssertUnwindSafe(|| {
            run(&mut sess, &line, &mut LineOut);
        }));
        if result.is_err() {
            let cmd = line.split(' ').next().unwrap_or("");
            println!("{} panic", cmd);
            sess.game = None;
            sess.pushed.clear();
        }
    }
}

/// Writes through `print!` so that our lines and the engine's `println!` lines share one buffer
struct LineOut;
impl Write for LineOut {
    fn write(&mut self, buf: &[u8]) -> std::io::Result<usize> {
        print!("{}", String::from_utf8_lossy(buf));
        Ok(buf.len())
    }
    fn flush(&mut self) -> std::io::Result<()> {
        Ok(())
    }
}
